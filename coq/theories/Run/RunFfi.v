(* K-ffi: the FFI case line evaluated on Model/Ffi.v.

     FFI <op> ; <op> ; ...
     op ::= MK x<bytes> | MKNULL | DROP <h> | TESTBUF
          | FROM <h> | TOCBOR <h> | META <h> | PAYLOAD <h> | VALID <h>
          | NEW x<src> x<dst> <lifetime_ms> <h> <clock_ms>
          | BFREE <h> | BNDFREE <h> | MFREE <h>
   Handles are numbered 0, 1, 2, ... in creation order (a NULL return does not consume a number); <h> <= 1000000,
   <lifetime_ms> and <clock_ms> below 2^64.  (The harness also knows `RND` = helper_rnd_bundle, whose random
   bytes the model cannot predict: such lines are BADCASE here and judged by the oracle only.)

   Result: OK <r> ; <r> ; ... ; NET <n> LIVE <k>     one <r> per op:
     H<k>                                      MK / MKNULL (caller memory: no library call, no delta)
     -                                         DROP
     H<k> x<bytes> d<delta> | H<k> NODATA d<delta>        a library buffer (TESTBUF, TOCBOR, PAYLOAD)
     H<k> x<src> x<dst> <time> <seq> <lifetime> d<delta>  META    (NULL d0 when an EID text contains U+0000)
     H<k> d<delta> | NULL d0                              FROM, NEW
     T d0 | F d0                                          VALID
     - d<delta>                                           BFREE / BNDFREE / MFREE
   <delta> = change in the number of live library allocations across the call, NET = sum of the deltas,
   LIVE = library objects not yet freed.  The sequence stops at the first ABORT (the process would die inside the
   call) or PROTOCOL (dead / unknown / wrong-kind handle: undefined behaviour in C, not executed by the harness).

   `run_ffi` is the repaired code (what the implementation is compared with); `run_ffi_pinned` evaluates the
   same line on the model of the original ffi.rs (D11). *)
From Coq Require Import Strings.String ZArith.
From BP7 Require Import Base.Prelude Base.Decimal Gen.Consts Model.Hex Model.Types Model.Ffi Run.Proto.

Definition ffi_max_handle : N := 1000000.
Definition ffi_get_h (t : tok) : option handle :=
  match get_N t with Some n => if n <=? ffi_max_handle then Some (N.to_nat n) else None | None => None end.
Definition ffi_get_u64 (t : tok) : option N :=
  match get_N t with Some n => if n <? two64 then Some n else None | None => None end.

Definition ffi_parse_op (grp : list tok) : option fcall :=
  match grp with
  | [t] =>
      if tok_is t "MKNULL" then Some MakeNullBuffer
      else if tok_is t "TESTBUF" then Some BufferTest
      else None
  | [t; a] =>
      if tok_is t "MK" then match get_bytes a with Some b => Some (MakeBuffer b) | None => None end
      else match ffi_get_h a with
           | None => None
           | Some h =>
               if tok_is t "DROP" then Some (DropBuffer h)
               else if tok_is t "FROM" then Some (FromCbor h)
               else if tok_is t "TOCBOR" then Some (ToCbor h)
               else if tok_is t "META" then Some (GetMetadata h)
               else if tok_is t "PAYLOAD" then Some (Payload h)
               else if tok_is t "VALID" then Some (IsValid h)
               else if tok_is t "BFREE" then Some (BufferFree h)
               else if tok_is t "BNDFREE" then Some (BundleFree h)
               else if tok_is t "MFREE" then Some (MetaFree h)
               else None
           end
  | [t; a; b; c; d; e] =>
      if tok_is t "NEW" then
        match get_bytes a, get_bytes b, ffi_get_u64 c, ffi_get_h d, ffi_get_u64 e with
        | Some src, Some dst, Some life, Some h, Some clock => Some (NewDefault src dst life h clock)
        | _, _, _, _, _ => None
        end
      else None
  | _ => None
  end.

(* groups of tokens separated by ";" *)
Fixpoint ffi_groups (toks : list tok) (cur : list tok) : list (list tok) :=
  match toks with
  | [] => [rev cur]
  | t :: r => if tok_is t ";" then rev cur :: ffi_groups r [] else ffi_groups r (t :: cur)
  end.
Fixpoint ffi_parse_ops (gs : list (list tok)) : option (list fcall) :=
  match gs with
  | [] => Some []
  | g :: r => match ffi_parse_op g, ffi_parse_ops r with Some c, Some l => Some (c :: l) | _, _ => None end
  end.

Definition show_Z (z : Z) : list byte :=
  if (z <? 0)%Z then n2b 45 :: show_N (Z.to_N (- z)) else show_N (Z.to_N z).
Definition show_delta (d : Z) : list byte := n2b 100 :: show_Z d.
Definition show_handle (h : handle) : list byte := n2b 72 :: show_N (N.of_nat h).
Definition ffi_caller_side (c : fcall) : bool :=
  match c with MakeBuffer _ | MakeNullBuffer | DropBuffer _ => true | _ => false end.

(* one completed call, rendered from what it returned and the heap after it *)
Definition ffi_show_step (s1 : fstate) (c : fcall) (r : fret) (d : Z) : list byte :=
  let tail := if ffi_caller_side c then [] else [show_delta d] in
  match r with
  | RAbort => S_ "ABORT"
  | RProtocolError => S_ "PROTOCOL"
  | RNull => join (S_ "NULL" :: tail)
  | RBool b => join (show_bool b :: tail)
  | RUnit => join (S_ "-" :: tail)
  | RHandle h =>
      let content :=
        match fget s1 h with
        | Some (BufferCell (Some bs)) => [show_bytes bs]
        | Some (BufferCell None) => [S_ "NODATA"]
        | Some (MetaCell src dst ts seq life) => [show_bytes src; show_bytes dst; show_N ts; show_N seq; show_N life]
        | _ => []
        end in
      join (show_handle h :: content ++ tail)
  end.

Fixpoint ffi_exec (v : variant) (m : ovf_mode) (s : fstate) (calls : list fcall) (net : Z) : list (list byte) :=
  match calls with
  | [] => [join [S_ "NET"; show_Z net; S_ "LIVE"; show_N (Nlen (library_cells s))]]
  | c :: t =>
      let '(s1, r, d) := fstep_v v m s c in
      let out := ffi_show_step s1 c r d in
      match r with
      | RAbort | RProtocolError => [out]
      | _ => out :: ffi_exec v m s1 t (net + d)%Z
      end
  end.

Fixpoint ffi_join_semi (l : list (list byte)) : list (list byte) :=
  match l with [] => [] | [x] => [x] | x :: t => x :: S_ ";" :: ffi_join_semi t end.

Definition run_ffi_v (v : variant) (m : ovf_mode) (args : list tok) : list byte :=
  match ffi_parse_ops (ffi_groups args []) with
  | Some calls => join (S_ "OK" :: ffi_join_semi (ffi_exec v m finit calls 0%Z))
  | None => bad_case
  end.
Definition run_ffi (m : ovf_mode) (args : list tok) : list byte := run_ffi_v Repaired m args.
Definition run_ffi_pinned (m : ovf_mode) (args : list tok) : list byte := run_ffi_v Pinned m args.
