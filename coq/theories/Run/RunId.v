(* K-id channel on the model (C13).
   ID <bundle>                    -> OK x<Bundle::id()> x<Bundle::to_string()>
   IDPAIR <bundle> | <bundle>     -> OK x<id 1> x<id 2> <T|F: the two IDs are equal>
   IDREF <pos> <reason> <bundle>  -> OK x<new_status_report(&b, pos, reason).refbundle()> x<b.id()>   (PANIC for a fragment:
                                     new_status_report is unimplemented!() there)
   <bundle> as in Run/BundleIO.v; the generator only uses bundles the harness can build (version 7, u64 fields). *)
From Coq Require Import Strings.String.
From BP7 Require Import Base.Prelude Base.Decimal Model.Types Model.EidText Model.BundleId Model.AdminRecord Run.Proto Run.BundleIO.

Definition run_id (args : list tok) : list byte :=
  match parse_bundle args with
  | Some (b, []) => join [S_ "OK"; show_bytes (bundle_id b); show_bytes (bundle_to_string b)]
  | _ => bad_case
  end.
Definition run_idpair (args : list tok) : list byte :=
  match parse_bundle args with
  | Some (b1, bar :: rest) =>
    if tok_is bar "|" then
      match parse_bundle rest with
      | Some (b2, []) =>
        join [S_ "OK"; show_bytes (bundle_id b1); show_bytes (bundle_id b2); show_bool (bytes_eqb (bundle_id b1) (bundle_id b2))]
      | _ => bad_case
      end
    else bad_case
  | _ => bad_case
  end.
Definition run_idref (args : list tok) : list byte :=
  match args with
  | pos :: reason :: rest =>
    match get_N pos, get_N reason, parse_bundle rest with
    | Some p, Some r, Some (b, []) =>
      if (p <? 4294967296) && (r <? 4294967296) then
        match id_new_status_report b with
        | Ok sr => join [S_ "OK"; show_bytes (id_refbundle sr); show_bytes (bundle_id b)]
        | Err _ => S_ "ERR"
        | Panic _ => S_ "PANIC"
        end
      else bad_case
    | _, _, _ => bad_case
    end
  | _ => bad_case
  end.

(* SRREF x<administrative record bytes> -> OK x<refbundle()> of the DECODED status report | OTHER (not a status report) | ERR
   (the bundle a received status report refers to: fragment offset and length come from the wire here) *)
Definition run_srref (args : list tok) : list byte :=
  match args with
  | [t] => match get_bytes t with
           | Some bs => match admin_from_bytes bs with
                        | Ok (BundleStatusReport sr) =>
                            join [S_ "OK"; show_bytes (id_refbundle (mk_id_sr (sr_src sr) (sr_time sr) (sr_seq sr) (sr_frag_off sr) (sr_frag_len sr)))]
                        | Ok _ => S_ "OTHER"
                        | Err _ => S_ "ERR" | Panic _ => S_ "PANIC" end
           | None => bad_case end
  | _ => bad_case
  end.

(* SRREFE x<administrative record bytes> -> as SRREF, after the decoded record went through the ENCODER and the decoder once more (a
   node that stores or forwards a status report re-encodes it: the reference must survive) *)
Definition run_srrefe (args : list tok) : list byte :=
  match args with
  | [t] => match get_bytes t with
           | Some bs => match admin_from_bytes bs with
                        | Ok (BundleStatusReport sr0) =>
                            match admin_from_bytes (enc_admin_record (BundleStatusReport sr0)) with
                            | Ok (BundleStatusReport sr) =>
                                join [S_ "OK"; show_bytes (id_refbundle (mk_id_sr (sr_src sr) (sr_time sr) (sr_seq sr) (sr_frag_off sr) (sr_frag_len sr)))]
                            | Ok _ => S_ "OTHER2"
                            | Err _ => S_ "ERR2" | Panic _ => S_ "PANIC" end
                        | Ok _ => S_ "OTHER"
                        | Err _ => S_ "ERR" | Panic _ => S_ "PANIC" end
           | None => bad_case end
  | _ => bad_case
  end.
