(* K-json channel (C15): case lines
     JSON <bundle>      -> OK x<utf8 of the to_json text> <bundle after to_json> BACK (OK <bundle> | ERR)
     JTOK <token tree>  -> OK <bundle> | ERR          (from_tokens on an arbitrary token tree)
     JSONDEC x<utf8>    -> NOMODEL                     (implementation only: there is no JSON text parser in the model)
   <token tree> ::= N <dec> | S x<utf8> | T | F | Z | [ <token tree>* ]
   mirrors harness/src/chan_json.rs *)
From Coq Require Import Strings.String.
From BP7 Require Import Base.Prelude Base.Utf8 Model.Types Model.Json Run.Proto Run.BundleIO.

Definition show_jres (r : res bundle) : list byte :=
  match r with
  | Ok b => join [S_ "OK"; show_bundle b]
  | Err _ => S_ "ERR"
  | Panic _ => S_ "PANIC"
  end.

Definition run_json (args : list tok) : list byte :=
  match parse_bundle args with
  | Some (b, []) =>
      let '(t, b') := to_tokens b in
      join [S_ "OK"; show_bytes (print t); show_bundle b'; S_ "BACK"; show_jres (from_tokens t)]
  | _ => bad_case
  end.

Fixpoint parse_tree (fuel : nat) (ts : list tok) : option (jtok * list tok) :=
  match fuel with
  | O => None
  | S f =>
    match ts with
    | [] => None
    | t :: r =>
      if tok_is t "N" then
        match r with n :: r' => match get_N n with Some v => Some (JNum v, r') | None => None end | [] => None end
      else if tok_is t "S" then
        match r with
        | s :: r' => match get_bytes s with
                     | Some b => if utf8_valid b then Some (JStr b, r') else None   (* a Rust String is valid UTF-8 *)
                     | None => None end
        | [] => None
        end
      else if tok_is t "T" then Some (JBool true, r)
      else if tok_is t "F" then Some (JBool false, r)
      else if tok_is t "Z" then Some (JNull, r)
      else if tok_is t "[" then
        match parse_trees f r with Some (l, r') => Some (JSeq l, r') | None => None end
      else None
    end
  end
with parse_trees (fuel : nat) (ts : list tok) : option (list jtok * list tok) :=
  match fuel with
  | O => None
  | S f =>
    match ts with
    | [] => None
    | t :: r =>
      if tok_is t "]" then Some ([], r)
      else match parse_tree f ts with
           | Some (x, r') => match parse_trees f r' with Some (l, r'') => Some (x :: l, r'') | None => None end
           | None => None
           end
    end
  end.

Definition run_jtok (args : list tok) : list byte :=
  match parse_tree (S (2 * length args)) args with
  | Some (t, []) => show_jres (from_tokens t)
  | _ => bad_case
  end.

Definition run_jsondec (args : list tok) : list byte := S_ "NOMODEL".
