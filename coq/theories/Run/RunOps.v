(* K-val and K-ops channels on the model. *)
From Coq Require Import Strings.String.
From BP7 Require Import Base.Prelude Base.Decimal Gen.Consts Model.Hex Model.Types Model.Encode Model.Decode Model.Validate Model.Ops.
From BP7 Require Import Run.Proto Run.BundleIO.

Definition show_validity (b : bundle) : list byte :=
  match validate b with [] => S_ "VALID" | l => join [S_ "INVALID"; show_N (Nlen l)] end.

(* VALIDATE x<bytes> -> VALID | INVALID <n errors> | DECERR *)
Definition run_validate (args : list tok) : list byte :=
  match args with
  | [t] => match get_bytes t with
           | Some bs => match from_cbor bs with
                        | Ok b => show_validity b
                        | Err _ => S_ "DECERR" | Panic _ => S_ "PANIC" end
           | None => bad_case end
  | _ => bad_case
  end.

Inductive op :=
  | OAdd (c : canonical) | OSetPayload (d : list byte) | OSetPayloadBlock (c : canonical)
  | OSetCrc (code : N) | OUpdate (node : eid) (residence : N) | OSort.

Definition parse_op : P op := fun ts =>
  match ts with
  | t :: r =>
    if tok_is t "ADD" then (let* c := parse_canonical in pret (OAdd c)) r
    else if tok_is t "SETPAYLOAD" then (let* d := pBytes in pret (OSetPayload d)) r
    else if tok_is t "SETPB" then (let* c := parse_canonical in pret (OSetPayloadBlock c)) r
    else if tok_is t "SETCRC" then (let* k := pN in pret (OSetCrc k)) r
    else if tok_is t "UPD" then (let* e := parse_eid in let* n := pN in pret (OUpdate e n)) r
    else if tok_is t "SORT" then Some (OSort, r)
    else None
  | [] => None
  end.
Fixpoint parse_ops (fuel : nat) : P (list op) := fun ts =>
  match fuel with
  | O => None
  | S f =>
    match ts with
    | [] => Some ([], [])
    | t :: r => if tok_is t ";" then
                  match parse_op r with
                  | Some (o, r') => match parse_ops f r' with Some (l, r'') => Some (o :: l, r'') | None => None end
                  | None => None
                  end
                else None
    end
  end.

(* one step: new bundle and the textual return value of the operation *)
Definition step (m : ovf_mode) (clock : N) (b : bundle) (o : op) : res (list byte * bundle) :=
  match o with
  | OAdd c => Ok (S_ "-", add_canonical_block b c)
  | OSetPayload d => Ok (S_ "-", set_payload b d)
  | OSetPayloadBlock c => Ok (S_ "-", set_payload_block b c)
  | OSetCrc k => Ok (S_ "-", set_crc b k)
  | OSort => Ok (S_ "-", sort_canonicals b)
  | OUpdate e n => do rb <- update_extensions m clock e n b; Ok (show_bool (fst rb), snd rb)
  end.
Fixpoint run_steps (m : ovf_mode) (clock : N) (b : bundle) (ops : list op) : res (list (list byte) * bundle) :=
  match ops with
  | [] => Ok ([], b)
  | o :: t => do rb <- step m clock b o;
              do rest <- run_steps m clock (snd rb) t;
              Ok (join [S_ ";"; fst rb; show_bundle (snd rb)] :: fst rest, snd rest)
  end.
Definition show_payload (b : bundle) : list byte :=
  match payload b with Some d => show_bytes d | None => S_ "NONE" end.

(* OPS <clock_ms> <bundle> ; op ; op ... -> OK ; <ret> <bundle> ; ... FINAL <validity> PL <payload> RT T|F *)
Definition run_ops (m : ovf_mode) (args : list tok) : list byte :=
  match args with
  | c :: rest =>
    match get_N c, parse_bundle rest with
    | Some clock, Some (b, rest') =>
      match parse_ops (S (length rest')) rest' with
      | Some (ops, []) =>
        match run_steps m clock b ops with
        | Ok (outs, bf) =>
          let '(bs, bf') := to_cbor bf in
          let rt := match from_cbor bs with Ok d => bundle_eqb d bf' | _ => false end in
          join ([S_ "OK"] ++ outs ++ [S_ "FINAL"; show_validity bf; S_ "PL"; show_payload bf; S_ "RT"; show_bool rt])
        | Err _ => S_ "ERR"
        | Panic _ => S_ "PANIC"
        end
      | _ => bad_case
      end
    | _, _ => bad_case
    end
  | [] => bad_case
  end.
