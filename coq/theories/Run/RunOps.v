(* K-val and K-ops channels on the model. *)
From Coq Require Import Strings.String.
From BP7 Require Import Base.Prelude Base.Decimal Gen.Consts Model.Hex Model.Types Model.Encode Model.Decode Model.Validate Model.Ops Model.DtnTime Model.EidText Model.AdminRecord Model.Api.
From BP7 Require Import Run.Proto Run.BundleIO.

Definition show_validity (b : bundle) : list byte :=
  match Validate.validate b with [] => S_ "VALID" | l => join [S_ "INVALID"; show_N (Nlen l)] end.

(* VALIDATE x<bytes> -> VALID | INVALID <n errors> | DECERR *)
Definition run_validate (args : list tok) : list byte :=
  match args with
  | [t] => match get_bytes t with
           | Some bs => match from_cbor bs with
                        | Ok b => show_validity b
                        | Err _ => S_ "DECERR" | Panic _ => S_ "PANIC" end
           | None => bad_case end
  | _ => bad_case
  end.

Inductive op :=
  | OAdd (c : canonical) | OSetPayload (d : list byte) | OSetPayloadBlock (c : canonical)
  | OSetCrc (code : N) | OUpdate (node : eid) (residence : N) | OSort | OQuery | OLifeNs (n : N)
  | OBuild (payload : option (list byte)).

Definition parse_op : P op := fun ts =>
  match ts with
  | t :: r =>
    if tok_is t "ADD" then (let* c := parse_canonical in pret (OAdd c)) r
    else if tok_is t "ADDC" then (let* c := parse_canonical in pret (OAdd c)) r      (* implementation side: the block is made by its constructor *)
    else if tok_is t "BUILD" then Some (OBuild None, r)
    else if tok_is t "BUILDP" then (let* d := pBytes in pret (OBuild (Some d))) r
    else if tok_is t "SETPAYLOAD" then (let* d := pBytes in pret (OSetPayload d)) r
    else if tok_is t "SETPB" then (let* c := parse_canonical in pret (OSetPayloadBlock c)) r
    else if tok_is t "SETCRC" then (let* k := pN in pret (OSetCrc k)) r
    else if tok_is t "UPD" then (let* e := parse_eid in let* n := pN in pret (OUpdate e n)) r
    else if tok_is t "SORT" then Some (OSort, r)
    else if tok_is t "Q" then Some (OQuery, r)
    else if tok_is t "LIFENS" then (let* n := pN in pret (OLifeNs n)) r
    else None
  | [] => None
  end.
Fixpoint parse_ops (fuel : nat) : P (list op) := fun ts =>
  match fuel with
  | O => None
  | S f =>
    match ts with
    | [] => Some ([], [])
    | t :: r => if tok_is t ";" then
                  match parse_op r with
                  | Some (o, r') => match parse_ops f r' with Some (l, r'') => Some (o :: l, r'') | None => None end
                  | None => None
                  end
                else None
    end
  end.

(* bundle.rs:397-400 previous_node *)
Definition previous_node (b : bundle) : option eid :=
  match ext_block_by_type PREVIOUS_NODE_BLOCK (b_canonicals b) with
  | Some c => match c_data c with PreviousNode e => Some e | _ => None end
  | None => None
  end.
(* Q: the read-only part of the receive path: crc_valid, is_administrative_record, previous_node,
   is_lifetime_exceeded (hooked clock), Display of the creation timestamp *)
Definition query (m : ovf_mode) (clock : N) (b : bundle) : res (list byte) :=
  do ltx <- is_lifetime_exceeded m clock (b_primary b);
  do ts <- timestamp_to_string (p_time (b_primary b)) (p_seq (b_primary b));
  let opt o := match o with Some x => show_bytes x | None => S_ "-" end in
  let acc (e : eid) := join [S_ "E"; show_bytes (eid_print e); opt (node e); opt (node_id e); opt (EidText.service_name e);
                             show_bool (is_node_id e); show_bool (is_non_singleton e)] in
  let eids := [p_dst (b_primary b); p_src (b_primary b); p_rpt (b_primary b)]
              ++ match previous_node b with Some e => [e] | None => [] end in
  let rec := if is_admin_record b then
               match payload b with
               | Some d => match admin_from_bytes d with Ok _ => S_ "OK" | Err _ => S_ "ERR" | Panic _ => S_ "PANIC" end
               | None => S_ "NOPL" end
             else S_ "-" in
  Ok (join ([S_ "CRC"; show_bool (crc_valid b); S_ "ADM"; show_bool (is_admin_record b); S_ "REC"; rec;
             S_ "PREV"; match previous_node b with Some e => show_eid e | None => S_ "-" end;
             S_ "LTX"; show_bool ltx; S_ "TS"; show_bytes ts] ++ map acc eids)).

(* one step: new bundle and the textual return value of the operation *)
Definition upd_fn := ovf_mode -> N -> eid -> N -> bundle -> res (bool * bundle).
Definition step (upd : upd_fn) (m : ovf_mode) (clock : N) (b : bundle) (o : op) : res (list byte * bundle) :=
  match o with
  | OAdd c => Ok (S_ "-", add_canonical_block b c)
  | OSetPayload d => Ok (S_ "-", set_payload b d)
  | OSetPayloadBlock c => Ok (S_ "-", set_payload_block b c)
  | OSetCrc k => Ok (S_ "-", set_crc b k)
  | OSort => Ok (S_ "-", sort_canonicals b)
  (* BundleBuilder::new().primary(p).canonicals(cs)[.payload(d)].build() *)
  | OBuild pl => match bundle_builder_build (Some (b_primary b)) (Some (b_canonicals b)) pl with
                 | Some b' => Ok (S_ "OK", b')
                 | None => Ok (S_ "ERR", b)
                 end
  | OUpdate e n => do rb <- upd m clock e n b; Ok (show_bool (fst rb), snd rb)
  | OQuery => do q <- query m clock b; Ok (q, b)
  (* the lifetime Duration gets a sub-millisecond part: the model counts whole milliseconds (as_millis), nothing changes *)
  | OLifeNs n => if n <? 1000000 then Ok (S_ "-", b) else Err ERange
  end.
Fixpoint run_steps (upd : upd_fn) (m : ovf_mode) (clock : N) (b : bundle) (ops : list op) : res (list (list byte) * bundle) :=
  match ops with
  | [] => Ok ([], b)
  | o :: t => do rb <- step upd m clock b o;
              do rest <- run_steps upd m clock (snd rb) t;
              Ok (join [S_ ";"; fst rb; show_bundle (snd rb)] :: fst rest, snd rest)
  end.
Definition show_payload (b : bundle) : list byte :=
  match payload b with Some d => show_bytes d | None => S_ "NONE" end.

(* OPS <clock_ms> <bundle> ; op ; op ... -> OK ; <ret> <bundle> ; ... FINAL <validity> PL <payload> RT T|F *)
Definition finish_ops (upd : upd_fn) (m : ovf_mode) (clock : N) (b : bundle) (rest' : list tok) : list byte :=
  match parse_ops (S (length rest')) rest' with
  | Some (ops, []) =>
    match run_steps upd m clock b ops with
    | Ok (outs, bf) =>
      let '(bs, bf') := to_cbor bf in
      let rt := match from_cbor bs with Ok d => bundle_eqb d bf' | _ => false end in
      join ([S_ "OK"] ++ outs ++ [S_ "FINAL"; show_validity bf; S_ "PL"; show_payload bf; S_ "RT"; show_bool rt])
    | Err _ => S_ "ERR"
    | Panic _ => S_ "PANIC"
    end
  | _ => bad_case
  end.
(* the bundle is given either as `B ...` tokens or as `X x<bytes>` (decoded first: the receive path) *)
Definition run_ops_with (upd : upd_fn) (m : ovf_mode) (args : list tok) : list byte :=
  match args with
  | c :: rest =>
    match get_N c with
    | Some clock =>
      match rest with
      | t :: xb :: rest' =>
        if tok_is t "X" then
          match get_bytes xb with
          | Some bs => match from_cbor bs with
                       | Ok b => finish_ops upd m clock b rest'
                       | Err _ => S_ "DECERR" | Panic _ => S_ "PANIC" end
          | None => bad_case
          end
        else match parse_bundle rest with Some (b, rest'') => finish_ops upd m clock b rest'' | None => bad_case end
      | _ => bad_case
      end
    | None => bad_case
    end
  | [] => bad_case
  end.
Definition run_ops : ovf_mode -> list tok -> list byte := run_ops_with update_extensions.
(* OPSA: the same line, with update_extensions as bundle.rs writes it (block selected, block-level operation applied in place:
   Model/Api.v update_extensions_api, proved equal to update_extensions in Proofs/ApiProofs.v).  On the implementation side OPSA is
   OPS: two models, written independently of each other, are compared with the same code. *)
Definition run_opsa : ovf_mode -> list tok -> list byte := run_ops_with update_extensions_api.
