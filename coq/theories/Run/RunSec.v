(* K-sec channel on the model (property C16).  Mirrors harness/src/chan_sec.rs.

   IPPT <scope flags> <primary | -> <H <type> <num> <flags> | -> <canonical>            ->  OK x<ippt>
   BIB x<key> {RESIGN x<old key> <k> <number>*k}.. <scope flags> <ctx flags> <source eid> <params> <bib number> <bib flags> <bundle>
       T <target numbers..> I <numbers..>
        ->  OK IPPT <k> x.. .. RES <k> {<n> {<id> x<mac>}..}.. ASB x.. BLK x.. BUNDLE x..  |  BUILDERR | NOBLOCK | PANIC
     <params> ::= NOPAR | PAR <sha> <wrapped key> <scope>     <sha>, <scope> ::= - | <id> <value>     <wrapped key> ::= - | <id> x<bytes>
   Each RESIGN round is an EARLIER compute_hmac on the same IntegrityBlock (key rotation / re-signing): old key and the block
   numbers whose IPPTs were passed then; the rounds run in the order written, the final compute_hmac (key, I list) last.
   BIB replays the glue of tests/security_tests.rs: security header (INTEGRITY_BLOCK, bib number, bib flags); one IPPT per
   number after `I`, created from the first block of the bundle with that number (NOBLOCK if there is none) with the bundle's
   primary block; IntegrityBlockBuilder (BUILDERR without parameters); compute_hmac key [(number, ippt)..]; to_cbor;
   new_integrity_block (flags through BlockControlFlags::from_bits_truncate); the BIB appended, sort_canonicals, to_cbor. *)
From Coq Require Import Strings.String.
From BP7 Require Import Base.Prelude Base.Decimal Gen.Consts Model.Hex Model.Types Model.Encode Model.Ops Model.Hmac Model.Security.
From BP7 Require Import Run.Proto Run.BundleIO.

Definition peek_is (s : string) (ts : list tok) : bool :=
  match ts with t :: _ => tok_is t s | [] => false end.

Definition parse_opt_primary : P (option primary) := fun ts =>
  if peek_is "-" ts then Some (None, tl ts)
  else (let* p := parse_primary in pret (Some p)) ts.
Definition parse_opt_sec_header : P (option sec_header) := fun ts =>
  if peek_is "-" ts then Some (None, tl ts)
  else (let* _ := pTag "H" in let* t := pN in let* n := pN in let* f := pN in pret (Some (mksh t n f))) ts.

Definition u16_bound : N := 65536.

(* IPPT *)
Definition run_ippt (args : list tok) : list byte :=
  match (let* flags := pN in let* pb := parse_opt_primary in let* sh := parse_opt_sec_header in
         let* c := parse_canonical in pret (flags, pb, sh, c)) args with
  | Some ((flags, pb, sh, c), []) =>
      if flags <? u16_bound then join [S_ "OK"; show_bytes (ippt_create flags pb sh c)] else bad_case
  | _ => bad_case
  end.

(* BIB *)
Definition parse_opt_pair_n : P (option (N * N)) := fun ts =>
  if peek_is "-" ts then Some (None, tl ts)
  else (let* i := pN in let* v := pN in pret (Some (i, v))) ts.
Definition parse_opt_pair_b : P (option (N * list byte)) := fun ts =>
  if peek_is "-" ts then Some (None, tl ts)
  else (let* i := pN in let* v := pBytes in pret (Some (i, v))) ts.
Definition parse_params : P (option bib_params) := fun ts =>
  match ts with
  | t :: r =>
      if tok_is t "NOPAR" then Some (None, r)
      else if tok_is t "PAR" then
        (let* sv := parse_opt_pair_n in let* wk := parse_opt_pair_b in let* isf := parse_opt_pair_n in
         pret (Some (mkparams sv wk isf))) r
      else None
  | [] => None
  end.
(* numbers up to the token `stop` (consumed) or, with stop = "", to the end of the line *)
Fixpoint parse_numbers (stop : string) (ts : list tok) : option (list N * list tok) :=
  match ts with
  | [] => match stop with EmptyString => Some ([], []) | _ => None end
  | t :: r =>
      if (match stop with EmptyString => false | _ => tok_is t stop end) then Some ([], r)
      else match get_N t with
           | Some n => match parse_numbers stop r with Some (l, r') => Some (n :: l, r') | None => None end
           | None => None
           end
  end.

Fixpoint find_block (n : N) (cs : list canonical) : option canonical :=
  match cs with [] => None | c :: t => if c_num c =? n then Some c else find_block n t end.
Fixpoint make_ippts (flags : N) (p : primary) (sh : sec_header) (cs : list canonical) (nums : list N)
  : option (list (N * list byte)) :=
  match nums with
  | [] => Some []
  | n :: t => match find_block n cs with
              | Some c => match make_ippts flags p sh cs t with
                          | Some l => Some ((n, ippt_create flags (Some p) (Some sh) c) :: l)
                          | None => None
                          end
              | None => None
              end
  end.

Definition show_result_set (r : list sec_result) : list byte :=
  join (show_N (Nlen r) :: flat_map (fun x => [show_N (fst x); show_bytes (snd x)]) r).

(* the earlier signing rounds: IPPT lists first (any missing block -> None), then compute_hmac round by round on the same block *)
Fixpoint round_ippts (flags : N) (p : primary) (sh : sec_header) (cs : list canonical) (rounds : list (list byte * list N))
  : option (list (list byte * list (N * list byte))) :=
  match rounds with
  | [] => Some []
  | (k, nums) :: t => match make_ippts flags p sh cs nums, round_ippts flags p sh cs t with
                      | Some l, Some r => Some ((k, l) :: r)
                      | _, _ => None
                      end
  end.
Fixpoint sign_rounds (rounds : list (list byte * list (N * list byte))) (ib : integrity_block) : res integrity_block :=
  match rounds with
  | [] => Ok ib
  | (k, ippts) :: t => do ib' <- compute_hmac k ippts ib; sign_rounds t ib'
  end.

Definition bib_line (key : list byte) (rounds : list (list byte * list N)) (flags ctx_flags : N) (source : eid)
           (params : option bib_params) (bib_num bib_flags : N) (b : bundle) (targets inums : list N) : list byte :=
  let sh := mksh INTEGRITY_BLOCK bib_num bib_flags in
  match make_ippts flags (b_primary b) sh (b_canonicals b) inums, round_ippts flags (b_primary b) sh (b_canonicals b) rounds with
  | None, _ | _, None => S_ "NOBLOCK"
  | Some ippts, Some old_rounds =>
    match ib_build (Some targets) ctx_flags source params with
    | inr _ => S_ "BUILDERR"
    | inl ib0 =>
      match bind (sign_rounds old_rounds ib0) (compute_hmac key ippts) with
      | Ok ib =>
        match asb_to_cbor ib with
        | Ok asb =>
            let blk := new_integrity_block bib_num (N.land bib_flags BLOCK_ALL_BITS) asb in
            let b2 := sort_canonicals (mkbundle (b_primary b) (b_canonicals b ++ [blk])) in
            join ([S_ "OK"; S_ "IPPT"; show_N (Nlen ippts)] ++ map (fun x => show_bytes (snd x)) ippts ++
                  [S_ "RES"; show_N (Nlen (ib_results ib))] ++ map show_result_set (ib_results ib) ++
                  [S_ "ASB"; show_bytes asb; S_ "BLK"; show_bytes (enc_canonical blk);
                   S_ "BUNDLE"; show_bytes (fst (to_cbor b2))])
        | Err _ => S_ "ERR"
        | Panic _ => S_ "PANIC"
        end
      | Err _ => S_ "ERR"
      | Panic _ => S_ "PANIC"
      end
    end
  end.

(* <k> numbers *)
Fixpoint parse_count (k : nat) : P (list N) := fun ts =>
  match k with
  | O => Some ([], ts)
  | S k' => (let* n := pN in let* l := parse_count k' in pret (n :: l)) ts
  end.
Fixpoint parse_rounds (fuel : nat) : P (list (list byte * list N)) := fun ts =>
  match fuel with
  | O => None
  | S f =>
      if peek_is "RESIGN" ts then
        (let* _ := pTag "RESIGN" in let* k := pBytes in let* n := pN in
         if n <? 1000 then
           let* nums := parse_count (N.to_nat n) in let* rest := parse_rounds f in pret ((k, nums) :: rest)
         else (fun _ => None)) ts
      else Some ([], ts)
  end.

Definition run_bib (args : list tok) : list byte :=
  match (let* key := pBytes in let* rounds := parse_rounds (S (length args)) in
         let* flags := pN in let* cf := pN in let* src := parse_eid in let* ps := parse_params in
         let* bn := pN in let* bf := pN in let* b := parse_bundle in let* _ := pTag "T" in
         let* ts := parse_numbers "I" in let* ns := parse_numbers "" in
         pret (key, rounds, flags, cf, src, ps, bn, bf, b, ts, ns)) args with
  | Some ((key, rounds, flags, cf, src, ps, bn, bf, b, ts, ns), []) =>
      if flags <? u16_bound then bib_line key rounds flags cf src ps bn bf b ts ns else bad_case
  | _ => bad_case
  end.
