(* Specification side of C17: proleptic Gregorian calendar and RFC 3339 UTC rendering, written
   independently of humantime's algorithm (days-from-civil by era/year-of-era/day-of-year). *)
From Coq Require Import ZArith.
From BP7 Require Import Base.Prelude.
Open Scope Z_scope.

(* days since 1970-01-01 of the civil date y-m-d *)
Definition dfc (y m d : Z) : Z :=
  let y := if m <=? 2 then y - 1 else y in
  let era := y / 400 in
  let yoe := y mod 400 in
  let doy := (153 * (if m >? 2 then m - 3 else m + 9) + 2) / 5 + d - 1 in
  let doe := yoe * 365 + yoe / 4 - yoe / 100 + doy in
  era * 146097 + doe - 719468.
Definition is_leap (y : Z) : bool := ((y mod 4 =? 0) && negb (y mod 100 =? 0)) || (y mod 400 =? 0).
Definition dim (y m : Z) : Z :=
  if m =? 2 then (if is_leap y then 29 else 28)
  else if (m =? 4) || (m =? 6) || (m =? 9) || (m =? 11) then 30 else 31.
Definition valid_date (y m d : Z) : bool := (1 <=? m) && (m <=? 12) && (1 <=? d) && (d <=? dim y m).

Record fields := { f_year : Z; f_mon : Z; f_day : Z; f_hour : Z; f_min : Z; f_sec : Z; f_ms : Z }.
Definition valid_fields (f : fields) : bool :=
  (0 <=? f_year f) && (f_year f <=? 9999) && valid_date (f_year f) (f_mon f) (f_day f)
  && (0 <=? f_hour f) && (f_hour f <? 24) && (0 <=? f_min f) && (f_min f <? 60)
  && (0 <=? f_sec f) && (f_sec f <? 60) && (0 <=? f_ms f) && (f_ms f <? 1000).
(* milliseconds since the Unix epoch *)
Definition instant_of (f : fields) : Z :=
  (((dfc (f_year f) (f_mon f) (f_day f) * 24 + f_hour f) * 60 + f_min f) * 60 + f_sec f) * 1000 + f_ms f.

(* RFC 3339 UTC rendering: YYYY-MM-DDTHH:MM:SS[.fffffffff]Z ; the fraction (nanoseconds, 9 digits) is
   omitted when zero *)
Definition dig (z : Z) : byte := n2b (48 + Z.to_N z).
Definition pad2 (z : Z) : list byte := [dig (z / 10); dig (z mod 10)].
Definition pad4 (z : Z) : list byte := [dig (z / 1000); dig (z / 100 mod 10); dig (z / 10 mod 10); dig (z mod 10)].
Definition pad9 (z : Z) : list byte :=
  [dig (z / 100000000); dig (z / 10000000 mod 10); dig (z / 1000000 mod 10); dig (z / 100000 mod 10);
   dig (z / 10000 mod 10); dig (z / 1000 mod 10); dig (z / 100 mod 10); dig (z / 10 mod 10); dig (z mod 10)].
Definition ch (n : N) : list byte := [n2b n].
Definition render (f : fields) : list byte :=
  pad4 (f_year f) ++ ch 45 ++ pad2 (f_mon f) ++ ch 45 ++ pad2 (f_day f) ++ ch 84 ++
  pad2 (f_hour f) ++ ch 58 ++ pad2 (f_min f) ++ ch 58 ++ pad2 (f_sec f) ++
  (if f_ms f =? 0 then [] else ch 46 ++ pad9 (f_ms f * 1000000)) ++ ch 90.
