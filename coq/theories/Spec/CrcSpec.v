(* Bitwise (reflected shift-register) definition of the two CRC algorithms bp7 selects from the crc
   crate's catalogue.  The parameters (width, poly, init, refin, refout, xorout, check) are NOT written
   here: they come from Gen/Consts.v, which the translator regenerates from src/crc.rs (algorithm
   names) and the vendored crc-catalog source on every run.  The catalogue's own `check` value
   (CRC of "123456789") anchors the definition (Examples at the end, re-checked by the kernel). *)
From BP7 Require Import Base.Prelude Gen.Consts.

Fixpoint reflect_aux (w : nat) (x acc : N) : N :=
  match w with
  | O => acc
  | S k => reflect_aux k (N.shiftr x 1) (N.lor (N.shiftl acc 1) (if N.odd x then 1 else 0))
  end.
Definition reflect (w : nat) (x : N) : N := reflect_aux w x 0.

Record crc_params := { cp_width : nat; cp_polyR : N; cp_init : N; cp_xorout : N }.

(* one bit of the reflected register update *)
Definition crc_step (polyR : N) (s : N) : N :=
  if N.odd s then N.lxor (N.shiftr s 1) polyR else N.shiftr s 1.
Fixpoint iter {A} (n : nat) (f : A -> A) (x : A) : A := match n with O => x | S k => iter k f (f x) end.
Definition crc_byte (polyR : N) (s : N) (b : byte) : N := iter 8 (crc_step polyR) (N.lxor s (b2n b)).
Definition crc_run (polyR : N) (s : N) (msg : list byte) : N := fold_left (crc_byte polyR) msg s.
Definition crc (p : crc_params) (msg : list byte) : N := N.lxor (crc_run (cp_polyR p) (cp_init p) msg) (cp_xorout p).

Definition crc16_params : crc_params :=
  {| cp_width := N.to_nat crc16_width; cp_polyR := reflect (N.to_nat crc16_width) crc16_poly;
     cp_init := reflect (N.to_nat crc16_width) crc16_init; cp_xorout := crc16_xorout |}.
Definition crc32_params : crc_params :=
  {| cp_width := N.to_nat crc32_width; cp_polyR := reflect (N.to_nat crc32_width) crc32_poly;
     cp_init := reflect (N.to_nat crc32_width) crc32_init; cp_xorout := crc32_xorout |}.
Definition crc16_x25 (msg : list byte) : N := crc crc16_params msg.
Definition crc32c (msg : list byte) : N := crc crc32_params msg.

(* the reflected form is only the right definition for refin = refout = true *)
Example crc16_is_reflected : crc16_refin && crc16_refout = true. Proof. reflexivity. Qed.
Example crc32_is_reflected : crc32_refin && crc32_refout = true. Proof. reflexivity. Qed.
Example crc16_width_16 : crc16_width = 16. Proof. reflexivity. Qed.
Example crc32_width_32 : crc32_width = 32. Proof. reflexivity. Qed.

(* catalogue check values: CRC("123456789") *)
Definition check_msg : list byte := map n2b [49;50;51;52;53;54;55;56;57].
Example crc16_check_value : crc16_x25 check_msg = crc16_check. Proof. vm_compute. reflexivity. Qed.
Example crc32_check_value : crc32c check_msg = crc32_check. Proof. vm_compute. reflexivity. Qed.
(* and these are the RFC 9171 algorithms: CRC-16/X.25 (0x906E) and CRC-32C (0xE3069283) *)
Example crc16_is_x25 : crc16_x25 check_msg = 36974 /\ cp_polyR crc16_params = 33800. Proof. vm_compute. split; reflexivity. Qed.
Example crc32_is_castagnoli : crc32c check_msg = 3808858755 /\ cp_polyR crc32_params = 2197175160. Proof. vm_compute. split; reflexivity. Qed.
