(* C19: the structural fault classes as data, and the injector `apply_fault` that edits the RFC 9171
   item tree (Spec/Rfc9171.v) of a bundle and serializes the edited tree with the generic writer `ser`.

   A conformant bundle is  ArrIndef (primary :: canonicals), every block  Arr items , an EID
   Arr [UInt code; ssp], a timestamp / ipn ssp / hop-count pair  Arr [UInt a; UInt b].  The injector works
   on this two-level structure through `slot`s (what the RFC puts at a block position), never on bytes,
   except for the two framing faults (missing break, trailing bytes) and for the nested encoding of
   extension-block data, which the RFC itself defines as bytes.

   Documented leniencies of the decoder are NOT constructors: there is no fault at a dtn scheme-specific
   part (missing / non-text ssp reads as dtn:none), items are added / removed one at a time (fragment
   fields are decided by the element count), no definite outer array, no indefinite inner arrays, no
   tags, no non-shortest heads, no text / array-of-small-integers in place of a byte string.
   Definitions only. *)
From BP7 Require Import Base.Prelude Gen.Consts Cbor.Item Spec.CrcSpec Spec.Rfc9171 Model.Types.

(* ---------- which replacement items count as "a wrong kind" ---------- *)
(* in place of an unsigned integer: negative integer, float, null, string (text or bytes), array, map *)
Definition wrong_uint (x : item) : bool :=
  match x with
  | NInt n => n <? two64
  | F16 _ | F32 _ | F64 _ | Null => true
  | TStr s | BStr s => Nlen s <? two64
  | Arr l => Nlen l <? two64
  | Map l => Nlen l <? two64
  | _ => false
  end.
(* in place of an array: integer, string, map *)
Definition wrong_arr (x : item) : bool :=
  match x with
  | UInt n | NInt n => n <? two64
  | TStr s | BStr s => Nlen s <? two64
  | Map l => Nlen l <? two64
  | _ => false
  end.
(* in place of a byte string: an integer *)
Definition is_int (x : item) : bool :=
  match x with UInt n | NInt n => n <? two64 | _ => false end.

(* ---------- fault values ---------- *)
(* a pair [UInt a; UInt b]: creation timestamp, ipn ssp, hop-count block data *)
Inductive pair_fault :=
  | PDrop (i : nat)                   (* missing item i (0 or 1) *)
  | PExtra (x : item)                 (* extra trailing item *)
  | PKind (i : nat) (x : item).       (* item i replaced by a non-unsigned item *)

Inductive eid_fault :=
  | EExtra (x : item)                 (* extra trailing item *)
  | EDropScheme                       (* missing scheme code *)
  | EScheme (k : N)                   (* unknown URI scheme code *)
  | ESchemeKind (x : item)            (* scheme code replaced by a non-unsigned item *)
  | ESspKind (x : item)               (* ipn ssp (an array) replaced by integer / string / map *)
  | EIpn (pf : pair_fault)            (* fault inside the ipn [node, service] pair *)
  | EIpnZero.                         (* ipn node number 0 *)

(* block-type-specific data of a bundle age / hop count / previous node block *)
Inductive ext_fault :=
  | XRepl (x : item)                  (* the serialization of an item of another shape *)
  | XTrail (extra : list byte)        (* the required item followed by trailing bytes *)
  | XPair (pf : pair_fault)           (* hop count: fault inside [limit, count] *)
  | XEid (ef : eid_fault).            (* previous node: fault inside the EID *)

Inductive item_fault :=
  | IKind (x : item)                  (* WrongKind / ArrayReplaced / BytesReplacedByInt, by the kind of the position *)
  | IPair (pf : pair_fault)           (* the creation timestamp *)
  | IEid (ef : eid_fault)             (* destination, source, report-to *)
  | ICrcLen (b : list byte)           (* CRC value of the wrong length *)
  | IExt (xf : ext_fault).            (* BadExtData *)

Inductive blk_fault :=
  | BDrop (i : nat)                   (* missing item i *)
  | BExtra (x : item)                 (* exactly one extra trailing item *)
  | BCrcPresent (b : list byte)       (* CRC field present although the CRC type is 0 *)
  | BCrcAbsent                        (* CRC field absent although the CRC type is 1 or 2 *)
  | BAt (i : nat) (itf : item_fault).

Inductive fault :=
  | FPrimary (bf : blk_fault)
  | FCanonical (i : nat) (bf : blk_fault)     (* i-th canonical block, from 0 *)
  | FBlockKind (i : nat) (x : item)           (* block i (0 = primary) replaced by integer / string / map *)
  | FNoBreak
  | FTrailing (extra : list byte).

(* ---------- what the RFC puts at a block position ---------- *)
Inductive slot :=
  | SU (n : N)                        (* unsigned integer *)
  | SE (e : eid)
  | SP (a b : N)                      (* creation timestamp *)
  | SC (v : list byte)                (* CRC value *)
  | SD (d : cdata).                   (* block-type-specific data *)
Definition slot_item (s : slot) : item :=
  match s with
  | SU n => UInt n
  | SE e => eid_item e
  | SP a b => Arr [UInt a; UInt b]
  | SC v => BStr v
  | SD d => BStr (data_bytes d)
  end.
(* the CRC slot of a block, computed as section 4.2.1 prescribes (cf. Rfc9171.with_crc) *)
Definition crc_slot (crc_type : N) (items : list item) : list slot :=
  if crc_type =? 1 then [SC (be_enc 2 (crc16_x25 (ser (Arr (items ++ [BStr (zeros 2)])))))]
  else if crc_type =? 2 then [SC (be_enc 4 (crc32c (ser (Arr (items ++ [BStr (zeros 4)])))))]
  else [].
Definition prim_slots (p : primary) : list slot :=
  [SU (p_version p); SU (p_flags p); SU (crc_code (p_crc p)); SE (p_dst p); SE (p_src p); SE (p_rpt p);
   SP (p_time p) (p_seq p); SU (p_lifetime p)]
  ++ (if is_fragment (p_flags p) then [SU (p_frag_off p); SU (p_total_len p)] else [])
  ++ crc_slot (crc_code (p_crc p)) (primary_items p).
Definition canon_slots (c : canonical) : list slot :=
  [SU (c_type c); SU (c_num c); SU (c_flags c); SU (crc_code (c_crc c)); SD (c_data c)]
  ++ crc_slot (crc_code (c_crc c)) (canonical_items c).

(* ---------- the injector ---------- *)
Fixpoint remove_nth {A} (i : nat) (l : list A) : list A :=
  match l with
  | [] => []
  | a :: t => match i with O => t | S j => a :: remove_nth j t end
  end.
Fixpoint replace_nth {A} (i : nat) (x : A) (l : list A) : list A :=
  match l with
  | [] => []
  | a :: t => match i with O => x :: t | S j => a :: replace_nth j x t end
  end.

Definition apply_pair (pf : pair_fault) (a b : N) : option item :=
  match pf with
  | PDrop O => Some (Arr [UInt b])
  | PDrop (S O) => Some (Arr [UInt a])
  | PDrop _ => None
  | PExtra x => Some (Arr [UInt a; UInt b; x])
  | PKind O x => if wrong_uint x then Some (Arr [x; UInt b]) else None
  | PKind (S O) x => if wrong_uint x then Some (Arr [UInt a; x]) else None
  | PKind _ _ => None
  end.

(* the scheme-specific part of an EID as the RFC writes it *)
Definition ssp_item (e : eid) : item :=
  match e with Dtn _ s => TStr s | DtnNone _ a => UInt a | Ipn _ n s => Arr [UInt n; UInt s] end.
Definition eid_code (e : eid) : N := match e with Dtn c _ | DtnNone c _ | Ipn c _ _ => c end.

Definition apply_eid (ef : eid_fault) (e : eid) : option item :=
  match ef with
  | EExtra x => Some (Arr [UInt (eid_code e); ssp_item e; x])
  | EDropScheme => Some (Arr [ssp_item e])
  | EScheme k => if negb (k =? ENDPOINT_URI_SCHEME_DTN) && negb (k =? ENDPOINT_URI_SCHEME_IPN) && (k <? two64)
                 then Some (Arr [UInt k; ssp_item e]) else None
  | ESchemeKind x => if wrong_uint x then Some (Arr [x; ssp_item e]) else None
  | ESspKind x => match e with
                  | Ipn c _ _ => if wrong_arr x then Some (Arr [UInt c; x]) else None
                  | _ => None                       (* a dtn ssp position is outside the property *)
                  end
  | EIpn pf => match e with
               | Ipn c n s => match apply_pair pf n s with Some t => Some (Arr [UInt c; t]) | None => None end
               | _ => None
               end
  | EIpnZero => match e with
                | Ipn c _ s => Some (Arr [UInt c; Arr [UInt 0; UInt s]])
                | _ => None
                end
  end.

Definition bstr_of (bs : list byte) : option item :=
  if Nlen bs <? two64 then Some (BStr bs) else None.
Definition apply_ext (xf : ext_fault) (d : cdata) : option item :=
  match d with
  | BundleAge _ =>
      match xf with
      | XRepl x => if wrong_uint x then bstr_of (ser x) else None
      | XTrail (b :: t) => bstr_of (data_bytes d ++ b :: t)
      | _ => None
      end
  | HopCount l c =>
      match xf with
      | XRepl x => if wrong_arr x then bstr_of (ser x) else None
      | XTrail (b :: t) => bstr_of (data_bytes d ++ b :: t)
      | XPair pf => match apply_pair pf l c with Some t => bstr_of (ser t) | None => None end
      | _ => None
      end
  | PreviousNode e =>
      match xf with
      | XRepl x => if wrong_arr x then bstr_of (ser x) else None
      | XTrail (b :: t) => bstr_of (data_bytes d ++ b :: t)
      | XEid ef => match apply_eid ef e with Some t => bstr_of (ser t) | None => None end
      | _ => None
      end
  | _ => None
  end.

Definition apply_slot (itf : item_fault) (s : slot) : option item :=
  match s, itf with
  | SU _, IKind x => if wrong_uint x then Some x else None
  | SE _, IKind x => if wrong_arr x then Some x else None
  | SE e, IEid ef => apply_eid ef e
  | SP _ _, IKind x => if wrong_arr x then Some x else None
  | SP a b, IPair pf => apply_pair pf a b
  | SC _, IKind x => if is_int x then Some x else None
  | SC v, ICrcLen b => if negb (Nat.eqb (length b) (length v)) && (Nlen b <? two64) then Some (BStr b) else None
  | SD _, IKind x => if is_int x then Some x else None
  | SD d, IExt xf => apply_ext xf d
  | _, _ => None
  end.

Definition apply_blk (bf : blk_fault) (crc_type : N) (sl : list slot) : option (list item) :=
  let l := map slot_item sl in
  match bf with
  | BDrop i => if Nat.ltb i (length l) then Some (remove_nth i l) else None
  | BExtra x => Some (l ++ [x])
  | BCrcPresent b => if crc_type =? 0 then Some (l ++ [BStr b]) else None
  | BCrcAbsent => if crc_type =? 0 then None else Some (removelast l)
  | BAt i itf => match nth_error sl i with
                 | Some s => match apply_slot itf s with Some x => Some (replace_nth i x l) | None => None end
                 | None => None
                 end
  end.

(* the blocks of the conformant encoding, as items *)
Definition blocks_of (b : bundle) : list item :=
  Arr (map slot_item (prim_slots (b_primary b))) :: map (fun c => Arr (map slot_item (canon_slots c))) (b_canonicals b).

Definition apply_fault (f : fault) (b : bundle) : option (list byte) :=
  match f with
  | FPrimary bf =>
      match apply_blk bf (crc_code (p_crc (b_primary b))) (prim_slots (b_primary b)) with
      | Some l => Some (ser (ArrIndef (Arr l :: map canonical_item (b_canonicals b))))
      | None => None
      end
  | FCanonical i bf =>
      match nth_error (b_canonicals b) i with
      | Some c =>
          match apply_blk bf (crc_code (c_crc c)) (canon_slots c) with
          | Some l => Some (ser (ArrIndef (primary_item (b_primary b)
                                             :: replace_nth i (Arr l) (map canonical_item (b_canonicals b)))))
          | None => None
          end
      | None => None
      end
  | FBlockKind i x =>
      let blocks := primary_item (b_primary b) :: map canonical_item (b_canonicals b) in
      if Nat.ltb i (length blocks) && wrong_arr x then Some (ser (ArrIndef (replace_nth i x blocks))) else None
  | FNoBreak => Some (removelast (rfc_bytes b))
  | FTrailing extra => match extra with [] => None | _ => Some (rfc_bytes b ++ extra) end
  end.

(* the class names of the property text, for the evidence distribution and for `closed_class` *)
Inductive fclass :=
  | CDropItem | CExtraItem | CEidExtraItem | CEidDropScheme | CCrcWrongLength | CCrcPresentButType0 | CCrcAbsentButType12
  | CWrongKind | CArrayReplaced | CBytesReplacedByInt | CUnknownScheme | CIpnNodeZero | CBadExtData | CNoBreak | CTrailingByte.
Definition class_pair (pf : pair_fault) : fclass :=
  match pf with PDrop _ => CDropItem | PExtra _ => CExtraItem | PKind _ _ => CWrongKind end.
Definition class_eid (ef : eid_fault) : fclass :=
  match ef with
  | EExtra _ => CEidExtraItem | EDropScheme => CEidDropScheme | EScheme _ => CUnknownScheme | ESchemeKind _ => CWrongKind
  | ESspKind _ => CArrayReplaced | EIpn pf => class_pair pf | EIpnZero => CIpnNodeZero
  end.
Definition class_item (s : option slot) (itf : item_fault) : fclass :=
  match itf with
  | IKind _ => match s with Some (SU _) => CWrongKind | Some (SC _) | Some (SD _) => CBytesReplacedByInt | _ => CArrayReplaced end
  | IPair pf => class_pair pf
  | IEid ef => class_eid ef
  | ICrcLen _ => CCrcWrongLength
  | IExt _ => CBadExtData
  end.
Definition class_blk (sl : list slot) (bf : blk_fault) : fclass :=
  match bf with
  | BDrop _ => CDropItem | BExtra _ => CExtraItem | BCrcPresent _ => CCrcPresentButType0 | BCrcAbsent => CCrcAbsentButType12
  | BAt i itf => class_item (nth_error sl i) itf
  end.
Definition class_of (f : fault) (b : bundle) : fclass :=
  match f with
  | FPrimary bf => class_blk (prim_slots (b_primary b)) bf
  | FCanonical i bf => match nth_error (b_canonicals b) i with Some c => class_blk (canon_slots c) bf | None => CDropItem end
  | FBlockKind _ _ => CArrayReplaced
  | FNoBreak => CNoBreak
  | FTrailing _ => CTrailingByte
  end.
