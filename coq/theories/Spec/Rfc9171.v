(* RFC 9171 section 4 wire format, written from the RFC text as a CBOR item tree and serialized with the
   generic shortest-form writer of Cbor/Item.v.  This is the "independently written encoder" of C02/C03:
   it never mentions serde, element counts are whatever the item lists have, CRCs are computed by the
   bitwise CrcSpec over the block serialized with a zero-filled CRC field (section 4.2.1).
   It reads only the CRC *type* of each block of its argument, never a stored CRC value. *)
From BP7 Require Import Base.Prelude Gen.Consts Cbor.Item Spec.CrcSpec Model.Types.

(* 4.2.5.1: [uri-code, SSP]; dtn:none SSP is the integer 0, other dtn SSPs are text; ipn SSP is [node, service] *)
Definition eid_item (e : eid) : item :=
  match e with
  | Dtn c s => Arr [UInt c; TStr s]
  | DtnNone c a => Arr [UInt c; UInt a]
  | Ipn c n s => Arr [UInt c; Arr [UInt n; UInt s]]
  end.

(* 4.2.1: the CRC is the last item; it is computed over the block with the CRC item's bytes set to zero *)
Definition with_crc (crc_type : N) (items : list item) : item :=
  if crc_type =? 1 then
    Arr (items ++ [BStr (be_enc 2 (crc16_x25 (ser (Arr (items ++ [BStr (zeros 2)])))))])
  else if crc_type =? 2 then
    Arr (items ++ [BStr (be_enc 4 (crc32c (ser (Arr (items ++ [BStr (zeros 4)])))))])
  else Arr items.

(* 4.3.1 primary block: version, flags, CRC type, destination, source, report-to, creation timestamp
   [time, sequence], lifetime, then fragment offset and total ADU length iff the 'is a fragment' flag
   (bit 0) is set, then the CRC iff the CRC type is non-zero *)
Definition is_fragment (flags : N) : bool := N.testbit flags 0.
Definition primary_items (p : primary) : list item :=
  [UInt (p_version p); UInt (p_flags p); UInt (crc_code (p_crc p)); eid_item (p_dst p); eid_item (p_src p);
   eid_item (p_rpt p); Arr [UInt (p_time p); UInt (p_seq p)]; UInt (p_lifetime p)]
  ++ (if is_fragment (p_flags p) then [UInt (p_frag_off p); UInt (p_total_len p)] else []).

(* 4.3.2 canonical block: type, number, flags, CRC type, block-type-specific data as a byte string
   (for the extension blocks of 4.4: the serialized previous-node EID, bundle age, [limit, count]) *)
Definition data_bytes (d : cdata) : list byte :=
  match d with
  | Data b => b
  | Unknown b => b
  | BundleAge a => ser (UInt a)
  | HopCount l c => ser (Arr [UInt l; UInt c])
  | PreviousNode e => ser (eid_item e)
  | DecodingError => ser Null
  end.
Definition canonical_items (c : canonical) : list item :=
  [UInt (c_type c); UInt (c_num c); UInt (c_flags c); UInt (crc_code (c_crc c)); BStr (data_bytes (c_data c))].

Definition primary_item (p : primary) : item := with_crc (crc_code (p_crc p)) (primary_items p).
Definition canonical_item (c : canonical) : item := with_crc (crc_code (c_crc c)) (canonical_items c).
(* 4.1: indefinite-length array of the primary block and the canonical blocks *)
Definition rfc_item (b : bundle) : item :=
  ArrIndef (primary_item (b_primary b) :: map canonical_item (b_canonicals b)).
Definition rfc_bytes (b : bundle) : list byte := ser (rfc_item b).
