(* RFC 9171 section 6.1 (administrative records) and 6.1.1 (bundle status reports), written from the
   RFC text as CBOR item trees and serialized with the generic shortest-form writer `ser` of
   Cbor/Item.v.  Never mentions serde or the model encoders of Model/AdminRecord.v: element counts are
   whatever the item lists have.  Only the record *types* are shared with the model.

   6.1    administrative record = array of 2: [record type code, record content]
   6.1.1  status report (type code 1) content = array of 4 or 6:
            [ bundle status information, reason code, source node ID of the subject bundle,
              creation timestamp of the subject bundle,
              (fragment offset, payload length -- iff the subject bundle was a fragment) ]
          bundle status information = array of status items (received, forwarded, delivered, deleted)
          status item = array of 1 or 2: [status indicator (boolean), (time -- iff the indicator is
            true and the subject bundle asked for status times)]
   A record of any other type: the content is kept opaque (a CBOR byte string) by this implementation. *)
From BP7 Require Import Base.Prelude Cbor.Item Model.Types Model.AdminRecord Spec.Rfc9171.

Definition status_item_item (i : status_item) : item :=
  Arr (Bool (si_asserted i) :: (if si_asserted i && si_requested i then [UInt (si_time i)] else [])).

(* the value model has no 'subject was a fragment' flag: a non-zero fragment length stands for it *)
Definition subject_was_fragment (sr : status_report) : bool := negb (sr_frag_len sr =? 0).

Definition status_report_item (sr : status_report) : item :=
  Arr ([Arr (map status_item_item (sr_items sr)); UInt (sr_reason sr); eid_item (sr_src sr);
        Arr [UInt (sr_time sr); UInt (sr_seq sr)]]
       ++ (if subject_was_fragment sr then [UInt (sr_frag_off sr); UInt (sr_frag_len sr)] else [])).

Definition status_report_type_code : N := 1.

Definition record_item (r : admin_record) : item :=
  match r with
  | BundleStatusReport sr => Arr [UInt status_report_type_code; status_report_item sr]
  | UnknownRecord code data => Arr [UInt code; BStr data]
  | Mismatched code data => Arr [UInt code; BStr data]
  end.
Definition record_bytes (r : admin_record) : list byte := ser (record_item r).

(* anchors: RFC 9171 has no test vectors for section 6; these pin the layout byte by byte.
   status report "received, no time", reason 0, source ipn:1.2, timestamp [10, 3]:
   82 01 84 84 81 f5 81 f4 81 f4 81 f4 00 82 02 82 01 02 82 0a 03 *)
Example record_bytes_ex1 :
  record_bytes (BundleStatusReport (mk_sr [mk_item true 0 false; mk_item false 0 false; mk_item false 0 false; mk_item false 0 false]
                                           0 (Ipn 2 1 2) 10 3 0 0))
  = map n2b [130; 1; 132; 132; 129; 245; 129; 244; 129; 244; 129; 244; 0; 130; 2; 130; 1; 2; 130; 10; 3].
Proof. vm_compute. reflexivity. Qed.
(* deleted with time 1000, reason 1 (lifetime expired), source dtn:none, fragment [5, 7] *)
Example record_bytes_ex2 :
  record_bytes (BundleStatusReport (mk_sr [mk_item false 0 false; mk_item false 0 false; mk_item false 0 false; mk_item true 1000 true]
                                           1 eid_none 0 0 5 7))
  = map n2b [130; 1; 134; 132; 129; 244; 129; 244; 129; 244; 130; 245; 25; 3; 232; 1; 130; 1; 0; 130; 0; 0; 5; 7].
Proof. vm_compute. reflexivity. Qed.
Example record_bytes_ex3 : record_bytes (UnknownRecord 7 (map n2b [1; 2])) = map n2b [130; 7; 66; 1; 2].
Proof. vm_compute. reflexivity. Qed.
