(* Specification side of C16, written from the RFC texts with the generic CBOR writer `ser` of Cbor/Item.v and the
   RFC 9171 item trees of Spec/Rfc9171.v; it never mentions serde or the model encoders.

   RFC 9173 section 3.7 (BIB-HMAC-SHA2, "Canonicalization Algorithms" / scope): the integrity-protected plaintext is
     1. the CBOR encoding of the integrity scope flags "in which all unset flags, reserved bits, and unassigned
        bits have been set to 0",
     2. if bit 0 (include primary block) is set: the canonical form of the primary block,
     3. if bit 1 (include target header) is set: block type code, block number and block processing control
        flags of the security target, "separately calculated and appended in that order",
     4. if bit 2 (include security header) is set: the same three values of the BIB itself,
     5. the canonical form of the security target's block-type-specific data: the CBOR byte string (RFC 9172
        section 4 — "the block-type-specific data field ... including the byte string header").
   RFC 9172 section 3.6 (abstract security block): security targets (array of block numbers), security context id,
   security context flags, security source (EID), security context parameters (present iff bit 0 of the context
   flags is set: array of [id, value]), security results (one array of [id, value] per target, in target order).
   RFC 9173 section 3.3 / 3.4: parameter ids 1 = SHA variant (5/6/7), 2 = wrapped key, 3 = integrity scope flags;
   the only result has id 1 and its value is the HMAC as a byte string. *)
From Coq Require Import Strings.String.
From BP7 Require Import Base.Prelude Gen.Consts Cbor.Item Spec.CrcSpec Spec.Rfc9171 Model.Types Model.Sha2.

(* ---------- RFC 9173 3.7: IPPT ---------- *)
Record block_header := mkhdr { h_type : N; h_num : N; h_flags : N }.
Definition header_of (c : canonical) : block_header := mkhdr (c_type c) (c_num c) (c_flags c).
Definition header_items (h : block_header) : list item := [UInt (h_type h); UInt (h_num h); UInt (h_flags h)].

Definition scope_primary (flags : N) : bool := N.testbit flags 0.
Definition scope_target_header (flags : N) : bool := N.testbit flags 1.
Definition scope_security_header (flags : N) : bool := N.testbit flags 2.
(* "unset flags, reserved bits, and unassigned bits ... set to 0": only bits 0..2 are assigned *)
Definition scope_flags_canonical (flags : N) : N := N.land flags 7.

(* items 2-5 *)
Definition ippt_rest_items (flags : N) (pb : primary) (target : canonical) (sec : block_header) : list item :=
  (if scope_primary flags then [primary_item pb] else [])
  ++ (if scope_target_header flags then header_items (header_of target) else [])
  ++ (if scope_security_header flags then header_items sec else [])
  ++ [BStr (data_bytes (c_data target))].
Definition ippt_items (flags : N) (pb : primary) (target : canonical) (sec : block_header) : list item :=
  UInt (scope_flags_canonical flags) :: ippt_rest_items flags pb target sec.
Definition ippt_spec (flags : N) (pb : primary) (target : canonical) (sec : block_header) : list byte :=
  concat (map ser (ippt_items flags pb target sec)).

(* ---------- RFC 9172 3.6: abstract security block ---------- *)
Definition id_value := (N * item)%type.
Record asb := mkasb {
  asb_targets : list N;
  asb_ctx_id : N;
  asb_ctx_flags : N;
  asb_source : eid;
  asb_params : list id_value;               (* meaningful iff "parameters present" (bit 0 of the flags) *)
  asb_results : list (list id_value) }.     (* one result set per target *)

Definition pair_item (p : id_value) : item := Arr [UInt (fst p); snd p].
Definition params_present (flags : N) : bool := N.testbit flags 0.
Definition asb_items (a : asb) : list item :=
  [Arr (map UInt (asb_targets a)); UInt (asb_ctx_id a); UInt (asb_ctx_flags a); eid_item (asb_source a)]
  ++ (if params_present (asb_ctx_flags a) then [Arr (map pair_item (asb_params a))] else [])
  ++ [Arr (map (fun set => Arr (map pair_item set)) (asb_results a))].
Definition asb_bytes (a : asb) : list byte := concat (map ser (asb_items a)).

(* RFC 9173 3.3.1-3.3.3 parameters and 3.4 result of BIB-HMAC-SHA2 *)
Definition PARAM_SHA_VARIANT : N := 1.
Definition PARAM_WRAPPED_KEY : N := 2.
Definition PARAM_SCOPE_FLAGS : N := 3.
Definition RESULT_EXPECTED_HMAC : N := 1.
Definition hmac_result_set (mac : list byte) : list id_value := [(RESULT_EXPECTED_HMAC, BStr mac)].

(* RFC 9172 section 3.7/3.8: the BIB is a canonical block of type 11 whose block-type-specific data is the ASB *)
Definition BIB_BLOCK_TYPE : N := 11.
Definition bib_block (num flags : N) (crc : crc_value) (a : asb) : canonical :=
  mkcanonical BIB_BLOCK_TYPE num flags crc (Unknown (asb_bytes a)).

(* ---------- RFC 9173 Appendix A.1 (Example 1: simple integrity) ---------- *)
Module A1.
  Local Open Scope string_scope.
  (* A.1.1.1 primary block: [7, 0, 0, [2,[1,2]], [2,[2,1]], [2,[2,1]], [0, 40], 1000000] *)
  Definition primary_block : primary :=
    mkprimary 7 0 CrcNo (Ipn 2 1 2) (Ipn 2 2 1) (Ipn 2 2 1) 0 40 1000000 0 0.
  Example primary_vector : ser (primary_item primary_block)
    = hex_bytes "88070000820282010282028202018202820201820018281a000f4240".
  Proof. vm_compute. reflexivity. Qed.

  (* A.1.1.2 payload block: [1, 1, 0, 0, h'5265...'] *)
  Definition payload_text : list byte := str_bytes "Ready to generate a 32-byte payload".
  Definition payload_block : canonical := mkcanonical 1 1 0 CrcNo (Data payload_text).
  Example payload_vector : ser (canonical_item payload_block)
    = hex_bytes "85010100005823526561647920746f2067656e657261746520612033322d62797465207061796c6f6164".
  Proof. vm_compute. reflexivity. Qed.

  (* A.1.3.1: scope flags 0x00, then the payload as a byte string (0x58 0x23 + 35 bytes) *)
  Definition bib_header : block_header := mkhdr BIB_BLOCK_TYPE 2 0.
  Definition ippt : list byte :=
    hex_bytes "005823526561647920746f2067656e657261746520612033322d62797465207061796c6f6164".
  Example ippt_vector : ippt_spec 0 primary_block payload_block bib_header = ippt.
  Proof. vm_compute. reflexivity. Qed.
  Example ippt_text : ippt = (hex_bytes "00" ++ hex_bytes "5823" ++ payload_text)%list.
  Proof. vm_compute. reflexivity. Qed.

  (* A.1.3.2: key h'1a2b1a2b1a2b1a2b1a2b1a2b1a2b1a2b', SHA variant 7 (HMAC 512/512); the signature is the Example
     `HmacVectors.rfc9173_a1` of Model/Hmac.v, recomputed there by the kernel *)
  Definition signature : list byte :=
    hex_bytes ("3bdc69b3a34a2b5d3a8554368bd1e808f606219d2a10a846eae3886ae4ecc83c"
            ++ "4ee550fdfb1cc636b904e2f1a73e303dcd4b6ccece003e95e8164dcc89a156e1").

  (* A.1.3.3 abstract security block: [1], 1, 1, [2,[2,1]], [[1,7],[3,0]], [[[1, h'3bdc..']]] *)
  Definition a1_asb : asb :=
    mkasb [1] 1 1 (Ipn 2 2 1) [(PARAM_SHA_VARIANT, UInt 7); (PARAM_SCOPE_FLAGS, UInt 0)] [hmac_result_set signature].
  Definition asb_hex : list byte :=
    hex_bytes ("810101018202820201828201078203008181820158403bdc69b3a34a2b5d3a8554368bd1e808f606219d2a10a846eae3"
            ++ "886ae4ecc83c4ee550fdfb1cc636b904e2f1a73e303dcd4b6ccece003e95e8164dcc89a156e1").
  Example asb_vector : asb_bytes a1_asb = asb_hex.
  Proof. vm_compute. reflexivity. Qed.

  (* A.1.3.4 the BIB: [11, 2, 0, 0, h'8101...'] *)
  Definition bib : canonical := bib_block 2 0 CrcNo a1_asb.
  Example bib_vector : ser (canonical_item bib)
    = (hex_bytes "850b0200005856" ++ asb_hex)%list.
  Proof. vm_compute. reflexivity. Qed.

  (* A.1.4 final bundle: primary, BIB, payload *)
  Example bundle_vector : rfc_bytes (mkbundle primary_block [bib; payload_block])
    = hex_bytes ("9f88070000820282010282028202018202820201820018281a000f4240850b0200005856810101018202820201828201"
              ++ "078203008181820158403bdc69b3a34a2b5d3a8554368bd1e808f606219d2a10a846eae3886ae4ecc83c4ee550fdfb1c"
              ++ "c636b904e2f1a73e303dcd4b6ccece003e95e8164dcc89a156e185010100005823526561647920746f2067656e657261"
              ++ "746520612033322d62797465207061796c6f6164ff").
  Proof. vm_compute. reflexivity. Qed.
End A1.
