(* The validation rules of property C07, transcribed from the property text (RFC 9171 rules the library
   checks), independent of the structure of Bundle::validate: plain bit tests on the raw flag words,
   list predicates over the block list. *)
From BP7 Require Import Base.Prelude Gen.Consts Model.Types.

Definition bit_set (w f : N) : bool := N.land w f =? f.

Definition eid_well_formed (e : eid) : bool :=
  match e with
  | Dtn _ _ => true
  | Ipn c n _ => (c =? 2) && (1 <=? n)
  | DtnNone c a => (c =? 1) && (a =? 0)
  end.
(* block data matches the block type; the payload block has number 1 *)
Definition block_data_ok (c : canonical) : bool :=
  match c_data c with
  | Data _ => (c_type c =? 1) && (c_num c =? 1)
  | BundleAge _ => c_type c =? 7
  | HopCount _ _ => c_type c =? 10
  | PreviousNode e => (c_type c =? 6) && eid_well_formed e
  | Unknown _ => true
  | DecodingError => false
  end.
Fixpoint nodupb (l : list N) : bool :=
  match l with [] => true | x :: t => negb (memN x t) && nodupb t end.
Fixpoint count (x : N) (l : list N) : nat :=
  match l with [] => O | y :: t => (if x =? y then 1 else 0) + count x t end.
Definition at_most_once (ty : N) (cs : list canonical) : bool := Nat.leb (count ty (map c_type cs)) 1.
Definition has_type (ty : N) (cs : list canonical) : bool := existsb (fun c => c_type c =? ty) cs.

Definition rules (b : bundle) : bool :=
  let p := b_primary b in let cs := b_canonicals b in let f := p_flags p in
  (p_version p =? 7)
  && negb (bit_set f 1 && bit_set f 4)                                   (* is-fragment and must-not-fragment *)
  && (negb (bit_set f 2) || negb (bit_set f 16384 || bit_set f 65536 || bit_set f 131072 || bit_set f 262144))
  && eid_well_formed (p_dst p) && eid_well_formed (p_src p) && eid_well_formed (p_rpt p)
  && forallb block_data_ok cs
  && nodupb (map c_num cs)
  && at_most_once 6 cs && at_most_once 7 cs && at_most_once 10 cs
  && has_type 1 cs
  && (negb (bit_set f 2 || eid_eqb (p_src p) (DtnNone 1 0)) || forallb (fun c => negb (bit_set (c_flags c) 2)) cs)
  && (negb (p_time p =? 0) || has_type 7 cs).

(* the stale reserved-bits masks the property treats as don't-care *)
Definition reserved_clear (b : bundle) : bool :=
  negb (bit_set (p_flags (b_primary b)) 57880) && forallb (fun c => negb (bit_set (c_flags c) 240)) (b_canonicals b).

Lemma nodupb_NoDup l : nodupb l = true <-> NoDup l.
Proof.
  induction l as [|x t IH]; cbn [nodupb]; [split; [constructor|reflexivity]|].
  rewrite andb_true_iff, negb_true_iff, IH. split.
  - intros [H1 H2]. constructor; [|assumption]. intros Hin. apply memN_In in Hin. congruence.
  - intros H. inversion H; subst. split; [|assumption]. destruct (memN x t) eqn:E; [|reflexivity].
    apply memN_In in E. contradiction.
Qed.
