(* Published vectors pinning the specification encoder (Spec/Rfc9171.v + CrcSpec + Cbor/Item.v). *)
From BP7 Require Import Base.Prelude Gen.Consts Cbor.Item Spec.CrcSpec Spec.Rfc9171 Model.Types.

Definition txt (l : list N) : list byte := map n2b l.

(* the crate's documented golden bundle (src/lib.rs doc test): CRC-16, dtn EIDs, payload "ABC" *)
Definition golden_bundle : bundle :=
  let dst := Dtn 1 (txt [47;47;110;111;100;101;50;47;105;110;98;111;120]) in            (* //node2/inbox *)
  let src := Dtn 1 (txt [47;47;110;111;100;101;49;47;49;50;51;52;53;54]) in            (* //node1/123456 *)
  mkbundle (mkprimary 7 131076 Crc16Empty dst src src 0 0 3600000 0 0)
           [mkcanonical 1 1 0 Crc16Empty (Data (txt [65;66;67]))].
Definition golden_bytes : list byte := txt
  [159; 137; 7; 26; 0; 2; 0; 4; 1; 130; 1; 109; 47; 47; 110; 111; 100; 101; 50; 47; 105; 110; 98; 111; 120; 130; 1; 110; 47; 47;
   110; 111; 100; 101; 49; 47; 49; 50; 51; 52; 53; 54; 130; 1; 110; 47; 47; 110; 111; 100; 101; 49; 47; 49; 50; 51; 52; 53; 54;
   130; 0; 0; 26; 0; 54; 238; 128; 66; 188; 152; 134; 1; 1; 0; 1; 67; 65; 66; 67; 66; 15; 86; 255].
Example golden_vector : rfc_bytes golden_bundle = golden_bytes.
Proof. vm_compute. reflexivity. Qed.

(* RFC 9173 Appendix A.1.1.1: primary block [7, 0, 0, [2,[1,2]], [2,[2,1]], [2,[2,1]], [0,40], 1000000] *)
Definition rfc9173_primary : primary :=
  mkprimary 7 0 CrcNo (Ipn 2 1 2) (Ipn 2 2 1) (Ipn 2 2 1) 0 40 1000000 0 0.
Example rfc9173_primary_vector : ser (primary_item rfc9173_primary)
  = txt [136;7;0;0;130;2;130;1;2;130;2;130;2;1;130;2;130;2;1;130;0;24;40;26;0;15;66;64].
Proof. vm_compute. reflexivity. Qed.
(* RFC 9173 Appendix A.1.1.2: payload block [1, 1, 0, 0, h'526561647920...'] ("Ready to generate a 32-byte payload") *)
Definition rfc9173_payload_text : list byte :=
  txt [82;101;97;100;121;32;116;111;32;103;101;110;101;114;97;116;101;32;97;32;51;50;45;98;121;116;101;32;112;97;121;108;111;97;100].
Example rfc9173_payload_vector : ser (canonical_item (mkcanonical 1 1 0 CrcNo (Data rfc9173_payload_text)))
  = txt [133;1;1;0;0;88;35] ++ rfc9173_payload_text.
Proof. vm_compute. reflexivity. Qed.
