From Coq Require Import NArith List Lia ZArith Bool.
From Coq Require Import Strings.Byte.
Import ListNotations.
Open Scope N_scope.

Definition b2n (b : byte) : N := Byte.to_N b.
Definition n2b (n : N) : byte := match Byte.of_N (n mod 256) with Some b => b | None => x00 end.
Lemma b2n_lt b : b2n b < 256.
Proof. unfold b2n. pose proof (Byte.to_N_bounded b). lia. Qed.
Lemma b2n_n2b n : n < 256 -> b2n (n2b n) = n.
Proof.
  intros H. unfold n2b, b2n. rewrite N.mod_small by lia.
  destruct (Byte.of_N n) eqn:E.
  - apply Byte.to_of_N in E. exact E.
  - apply Byte.of_N_None_iff in E. lia.
Qed.
Lemma n2b_b2n b : n2b (b2n b) = b.
Proof. unfold n2b, b2n. rewrite N.mod_small by (pose proof (Byte.to_N_bounded b); lia).
  rewrite Byte.of_to_N. reflexivity. Qed.

Fixpoint be_enc (w : nat) (n : N) : list byte :=
  match w with O => [] | S w' => n2b (n / 256 ^ N.of_nat w') :: be_enc w' (n mod 256 ^ N.of_nat w') end.
Fixpoint be_dec (l : list byte) (acc : N) : N :=
  match l with [] => acc | b :: t => be_dec t (acc * 256 + b2n b) end.
Lemma be_dec_enc w : forall n acc, n < 256 ^ N.of_nat w -> be_dec (be_enc w n) acc = acc * 256 ^ N.of_nat w + n.
Proof.
  induction w as [|w IH]; intros n acc H.
  - simpl in *. change (256 ^ 0) with 1 in *. lia.
  - cbn [be_enc be_dec].
    rewrite Nat2N.inj_succ, N.pow_succ_r' in *.
    set (p := 256 ^ N.of_nat w) in *.
    assert (Hp : 0 < p) by (apply N.neq_0_lt_0, N.pow_nonzero; lia).
    rewrite b2n_n2b by (apply N.div_lt_upper_bound; lia).
    rewrite IH by (apply N.mod_lt; lia).
    pose proof (N.div_mod n p ltac:(lia)). nia.
Qed.
Lemma be_enc_length w n : length (be_enc w n) = w.
Proof. revert n; induction w; simpl; auto. Qed.

Definition take (k : nat) (l : list byte) : option (list byte * list byte) :=
  if Nat.leb k (length l) then Some (firstn k l, skipn k l) else None.
Lemma take_app w x r : length x = w -> take w (x ++ r) = Some (x, r).
Proof.
  intros H. unfold take. rewrite app_length, H.
  replace (Nat.leb w (w + length r)) with true by (symmetry; apply Nat.leb_le; lia).
  subst w. rewrite firstn_app, firstn_all, Nat.sub_diag, skipn_app, skipn_all, Nat.sub_diag. simpl.
  rewrite app_nil_r. reflexivity.
Qed.

(* CBOR head, shortest form *)
Definition head (major : N) (n : N) : list byte :=
  let m := major * 32 in
  if n <? 24 then [n2b (m + n)]
  else if n <? 256 then n2b (m + 24) :: be_enc 1 n
  else if n <? 65536 then n2b (m + 25) :: be_enc 2 n
  else if n <? 4294967296 then n2b (m + 26) :: be_enc 4 n
  else n2b (m + 27) :: be_enc 8 n.
