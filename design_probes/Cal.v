From Coq Require Import ZArith List Lia Bool.
Import ListNotations.
Open Scope Z_scope.

(* --- spec: days from civil (proleptic Gregorian), days since 1970-01-01 --- *)
Definition dfc (y m d : Z) : Z :=
  let y := if m <=? 2 then y - 1 else y in
  let era := y / 400 in
  let yoe := y mod 400 in
  let doy := (153 * (if m >? 2 then m - 3 else m + 9) + 2) / 5 + d - 1 in
  let doe := yoe * 365 + yoe / 4 - yoe / 100 + doy in
  era * 146097 + doe - 719468.
Definition is_leap (y : Z) : bool := ((y mod 4 =? 0) && negb (y mod 100 =? 0)) || (y mod 400 =? 0).
Definition dim (y m : Z) : Z :=
  if m =? 2 then (if is_leap y then 29 else 28)
  else if (m =? 4) || (m =? 6) || (m =? 9) || (m =? 11) then 30 else 31.
Definition valid_date (y m d : Z) : bool := (1 <=? m) && (m <=? 12) && (1 <=? d) && (d <=? dim y m).

Lemma dfc_period y m d k : dfc (y + 400 * k) m d = dfc y m d + 146097 * k.
Proof.
  unfold dfc. destruct (m <=? 2).
  - replace (y + 400 * k - 1) with ((y - 1) + k * 400) by lia.
    rewrite Z.div_add, Z.mod_add by lia. lia.
  - replace (y + 400 * k) with (y + k * 400) by lia.
    rewrite Z.div_add, Z.mod_add by lia. lia.
Qed.

(* --- model: humantime's algorithm, the part after `remdays` has been normalised --- *)
Fixpoint months (ms : list Z) (mon rem : Z) : Z * Z :=
  match ms with
  | nil => (mon, rem)
  | m :: ms' => if rem <? m then (mon + 1, rem) else months ms' (mon + 1) (rem - m)
  end.
Definition civil_from_rem (remdays : Z) : Z * Z * Z :=   (* year offset from 2000, month, mday *)
  let c := remdays / 36524 in let c := if c =? 4 then 3 else c in
  let rem := remdays - c * 36524 in
  let q := rem / 1461 in let q := if q =? 25 then 24 else q in
  let rem := rem - q * 1461 in
  let y := rem / 365 in let y := if y =? 4 then 3 else y in
  let rem := rem - y * 365 in
  let yo := y + 4 * q + 100 * c in
  let '(mon, rem) := months [31;30;31;30;31;31;30;31;30;31;31;29] 0 rem in
  if mon + 2 >? 12 then (yo + 1, mon - 10, rem + 1) else (yo, mon + 2, rem + 1).
Definition civil (days : Z) : Z * Z * Z :=
  let d := days - 11017 in
  let qc := Z.quot d 146097 in
  let rem := Z.rem d 146097 in
  let '(qc, rem) := if rem <? 0 then (qc - 1, rem + 146097) else (qc, rem) in
  let '(yo, m, md) := civil_from_rem rem in
  (2000 + yo + 400 * qc, m, md).

(* finite sweep over one 400-year cycle *)
Definition ok_rem (r : Z) : bool :=
  let '(yo, m, d) := civil_from_rem r in
  (dfc (2000 + yo) m d =? r + 11017) && valid_date (2000 + yo) m d.
Fixpoint all_lt (p : positive) (f : Z -> bool) (base : Z) : bool :=
  match p with
  | xH => f base
  | xO q => all_lt q f base && all_lt q f (base + Zpos q)
  | xI q => all_lt q f base && all_lt q f (base + Zpos q) && f (base + Zpos q + Zpos q)
  end.
Lemma all_lt_spec p f : forall base, all_lt p f base = true -> forall i, base <= i < base + Zpos p -> f i = true.
Proof.
  induction p as [q IH|q IH|]; cbn [all_lt]; intros base H i Hi.
  - apply andb_true_iff in H as [H H3]. apply andb_true_iff in H as [H1 H2].
    destruct (Z_lt_dec i (base + Zpos q)); [apply (IH base H1); lia|].
    destruct (Z_lt_dec i (base + Zpos q + Zpos q)); [apply (IH _ H2); lia|].
    replace i with (base + Zpos q + Zpos q) by lia. exact H3.
  - apply andb_true_iff in H as [H1 H2].
    destruct (Z_lt_dec i (base + Zpos q)); [apply (IH base H1); lia|apply (IH _ H2); lia].
  - replace i with base by lia. exact H.
Qed.
Lemma sweep : all_lt 146097 ok_rem 0 = true.
Proof. vm_compute. reflexivity. Qed.

Lemma leap_period y k : is_leap (y + 400 * k) = is_leap y.
Proof.
  unfold is_leap.
  replace (y + 400 * k) with (y + (100 * k) * 4) at 1 by lia. rewrite Z.mod_add by lia.
  replace (y + 400 * k) with (y + (4 * k) * 100) at 1 by lia. rewrite Z.mod_add by lia.
  replace (y + 400 * k) with (y + k * 400) by lia. rewrite Z.mod_add by lia. reflexivity.
Qed.

Theorem civil_correct days : let '(y, m, d) := civil days in dfc y m d = days /\ valid_date y m d = true.
Proof.
  unfold civil.
  set (d0 := days - 11017).
  pose proof (Z.quot_rem' d0 146097) as Hqr.
  assert (Hrem : -146097 < Z.rem d0 146097 < 146097).
  { pose proof (Z.rem_bound_abs d0 146097 ltac:(lia)). lia. }
  set (qc0 := Z.quot d0 146097) in *. set (r0 := Z.rem d0 146097) in *.
  assert (exists qc r, (if r0 <? 0 then (qc0 - 1, r0 + 146097) else (qc0, r0)) = (qc, r)
                       /\ 0 <= r < 146097 /\ d0 = 146097 * qc + r) as (qc & r & -> & Hr & Hd).
  { destruct (r0 <? 0) eqn:E; [apply Z.ltb_lt in E|apply Z.ltb_ge in E]; eexists; eexists; (split; [reflexivity|split; lia]). }
  pose proof (all_lt_spec _ _ _ sweep r ltac:(lia)) as Hok. unfold ok_rem in Hok.
  destruct (civil_from_rem r) as [[yo m] md].
  apply andb_true_iff in Hok as [H1 H2]. apply Z.eqb_eq in H1.
  split.
  - replace (2000 + yo + 400 * qc) with ((2000 + yo) + 400 * qc) by lia. rewrite dfc_period. unfold d0 in Hd. lia.
  - unfold valid_date in *. unfold dim in *.
    replace (2000 + yo + 400 * qc) with ((2000 + yo) + 400 * qc) by lia. rewrite leap_period. exact H2.
Qed.
Print Assumptions civil_correct.
Eval vm_compute in civil 10957.      (* 2000-01-01 *)
Eval vm_compute in civil 11016.      (* 2000-02-29 *)
Eval vm_compute in civil 2932896.    (* 9999-12-31 *)
