From Coq Require Import NArith List Lia Bool.
Import ListNotations.
Open Scope N_scope.

(* ---- pinned code: two atomics, ops in source order: swap; [store 0]; fetch_add ---- *)
Inductive pc := Idle | AtSwap (now : N) | AtStore (now : N) | AtFetch (now : N).
Record g := { last : N; seq : N; pcs : list pc; out : list (N * N) }.
Definition upd (l : list pc) (i : nat) (p : pc) : list pc := firstn i l ++ p :: skipn (S i) l.
Inductive ev := Call (tid : nat) (clock : N) | Step (tid : nat).
Definition step (s : g) (e : ev) : g :=
  match e with
  | Call t c => match nth t (pcs s) Idle with
                | Idle => {| last := last s; seq := seq s; pcs := upd (pcs s) t (AtSwap c); out := out s |}
                | _ => s end
  | Step t => match nth t (pcs s) Idle with
              | Idle => s
              | AtSwap now => {| last := now; seq := seq s;
                                 pcs := upd (pcs s) t (if now =? last s then AtFetch now else AtStore now); out := out s |}
              | AtStore now => {| last := last s; seq := 0; pcs := upd (pcs s) t (AtFetch now); out := out s |}
              | AtFetch now => {| last := last s; seq := seq s + 1; pcs := upd (pcs s) t Idle; out := (now, seq s) :: out s |}
              end
  end.
Definition init (n : nat) : g := {| last := 0; seq := 0; pcs := repeat Idle n; out := [] |}.
Definition run (n : nat) (es : list ev) : g := fold_left step es (init n).

Fixpoint nodup_b (l : list (N * N)) : bool :=
  match l with [] => true | (a, b) :: t => negb (existsb (fun '(c, d) => (a =? c) && (b =? d)) t) && nodup_b t end.

(* the schedule executed on the real code in design_probes/sched_proto (A = 0, B = 1, T = 1000) *)
Definition witness : list ev :=
  [Call 1 1000; Step 1; Step 1; Step 1;  Call 1 1000; Step 1; Step 1;
   Call 0 1001; Step 0;
   Call 1 1001; Step 1; Step 1;
   Step 0; Step 0;
   Call 1 1001; Step 1; Step 1;  Call 1 1001; Step 1; Step 1].
Eval vm_compute in out (run 2 witness).
Theorem pinned_refuted : exists es, nodup_b (out (run 2 es)) = false.
Proof. exists witness. vm_compute. reflexivity. Qed.
(* sequential witness: the clock steps back *)
Theorem pinned_refuted_sequential : nodup_b (out (run 1 [Call 0 5; Step 0; Step 0; Step 0; Call 0 6; Step 0; Step 0; Step 0;
                                                       Call 0 5; Step 0; Step 0; Step 0])) = false.
Proof. vm_compute. reflexivity. Qed.

(* ---- repaired code: one lock around (last, next); a call = clock read, then the critical section ---- *)
Inductive pc2 := Idle2 | AtLock (now : N).
Record g2 := { last2 : N; next2 : N; pcs2 : list pc2; out2 : list (N * N) }.
Definition upd2 (l : list pc2) (i : nat) (p : pc2) : list pc2 := firstn i l ++ p :: skipn (S i) l.
Definition step2 (s : g2) (e : ev) : g2 :=
  match e with
  | Call t c => match nth t (pcs2 s) Idle2 with
                | Idle2 => {| last2 := last2 s; next2 := next2 s; pcs2 := upd2 (pcs2 s) t (AtLock c); out2 := out2 s |}
                | _ => s end
  | Step t => match nth t (pcs2 s) Idle2 with
              | Idle2 => s
              | AtLock now =>       (* lock is free whenever a step is granted: the critical section has no yield point *)
                let '(l, n) := if last2 s <? now then (now, 0) else (last2 s, next2 s) in
                {| last2 := l; next2 := n + 1; pcs2 := upd2 (pcs2 s) t Idle2; out2 := (l, n) :: out2 s |}
              end
  end.
Definition init2 (n : nat) : g2 := {| last2 := 0; next2 := 0; pcs2 := repeat Idle2 n; out2 := [] |}.

Definition lex_lt (p q : N * N) : Prop := fst p < fst q \/ (fst p = fst q /\ snd p < snd q).
Definition Inv (s : g2) : Prop := NoDup (out2 s) /\ forall p, In p (out2 s) -> lex_lt p (last2 s, next2 s).

Lemma step2_inv s e : Inv s -> Inv (step2 s e).
Proof.
  unfold Inv. intros [Hnd Hlt]. destruct e as [t c|t]; cbn [step2].
  - destruct (nth t (pcs2 s) Idle2); split; assumption.
  - destruct (nth t (pcs2 s) Idle2) as [|now]; [split; assumption|].
    destruct (last2 s <? now) eqn:E; [apply N.ltb_lt in E|apply N.ltb_ge in E]; cbv beta iota zeta; cbn [last2 next2 out2].
    + split.
      * constructor; [|exact Hnd]. intros Hin. apply Hlt in Hin. unfold lex_lt in Hin. cbn [fst snd] in Hin. lia.
      * intros p [<-|Hin]; unfold lex_lt; cbn [fst snd]; [lia|]. apply Hlt in Hin. unfold lex_lt in Hin. cbn [fst snd] in Hin. lia.
    + split.
      * constructor; [|exact Hnd]. intros Hin. apply Hlt in Hin. unfold lex_lt in Hin. cbn [fst snd] in Hin. lia.
      * intros p [<-|Hin]; unfold lex_lt; cbn [fst snd]; [lia|]. apply Hlt in Hin. unfold lex_lt in Hin. cbn [fst snd] in Hin. lia.
Qed.
Theorem C09_unique n es : NoDup (out2 (fold_left step2 es (init2 n))).
Proof.
  assert (Inv (init2 n)) as H0 by (split; [constructor|intros p []]).
  revert H0. generalize (init2 n). induction es as [|e es IH]; intros s Hs; cbn [fold_left].
  - exact (proj1 Hs).
  - apply IH. apply step2_inv. exact Hs.
Qed.
Print Assumptions C09_unique.
