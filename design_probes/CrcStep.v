From Coq Require Import NArith List Lia Bool.
Open Scope N_scope.
Section Crc.
Variable w : N.           (* width *)
Variable P : N.           (* reflected polynomial *)
Hypothesis Hw : 0 < w.
Hypothesis HPtop : N.testbit P (w - 1) = true.
Hypothesis HPlt : P < 2 ^ w.

Definition step (s : N) : N := N.lxor (N.shiftr s 1) (if N.odd s then P else 0).

Lemma step_lin a b : step (N.lxor a b) = N.lxor (step a) (step b).
Proof.
  unfold step. rewrite N.shiftr_lxor.
  assert (N.odd (N.lxor a b) = xorb (N.odd a) (N.odd b)) as ->.
  { rewrite <- !N.bit0_odd. apply N.lxor_spec. }
  destruct (N.odd a), (N.odd b); cbn [xorb];
  apply N.bits_inj; intro n; rewrite ?N.lxor_spec, ?N.bits_0;
  destruct (N.testbit (N.shiftr a 1) n), (N.testbit (N.shiftr b 1) n), (N.testbit P n); reflexivity.
Qed.

Lemma log2_lt x : x < 2 ^ w -> N.log2 x < w.
Proof. intros H. destruct (N.eq_dec x 0) as [->|Hn]; [exact Hw|]. apply N.log2_lt_pow2; lia. Qed.
Lemma lxor_lt x y : x < 2 ^ w -> y < 2 ^ w -> N.lxor x y < 2 ^ w.
Proof.
  intros Hx Hy. destruct (N.eq_dec (N.lxor x y) 0) as [->|Hn].
  - apply N.neq_0_lt_0, N.pow_nonzero; lia.
  - apply N.log2_lt_pow2; [lia|]. eapply N.le_lt_trans; [apply N.log2_lxor|].
    apply N.max_lub_lt; apply log2_lt; assumption.
Qed.
Lemma step_lt s : s < 2 ^ w -> step s < 2 ^ w.
Proof.
  intros H. unfold step. apply lxor_lt.
  - rewrite N.shiftr_div_pow2. change (2^1) with 2. apply N.div_lt_upper_bound; lia.
  - destruct (N.odd s); [exact HPlt|]. apply N.neq_0_lt_0, N.pow_nonzero; lia.
Qed.

Lemma step_ker s : s < 2 ^ w -> step s = 0 -> s = 0.
Proof.
  intros Hs H. unfold step in H.
  destruct (N.odd s) eqn:Eo.
  - exfalso.
    assert (N.testbit (N.lxor (N.shiftr s 1) P) (w - 1) = true).
    { rewrite N.lxor_spec, HPtop, N.shiftr_spec by lia.
      replace (w - 1 + 1) with w by lia.
      assert (N.testbit s w = false) as ->; [|reflexivity].
      destruct (N.eq_dec s 0) as [->|Hn]; [apply N.bits_0|].
      apply N.bits_above_log2. apply N.log2_lt_pow2; lia. }
    rewrite H in H0. rewrite N.bits_0 in H0. discriminate.
  - rewrite N.lxor_0_r in H.
    apply N.bits_inj; intro n. rewrite N.bits_0.
    destruct n as [|p].
    + rewrite N.bit0_odd. exact Eo.
    + assert (N.testbit (N.shiftr s 1) (N.pos p - 1) = false) by (rewrite H; apply N.bits_0).
      rewrite N.shiftr_spec in H0 by lia. replace (N.pos p - 1 + 1) with (N.pos p) in H0 by lia. exact H0.
Qed.

Lemma step_inj a b : a < 2^w -> b < 2^w -> step a = step b -> a = b.
Proof.
  intros Ha Hb H.
  assert (step (N.lxor a b) = 0) by (rewrite step_lin, H; apply N.lxor_nilpotent).
  apply N.lxor_eq. apply step_ker; auto. apply lxor_lt; assumption.
Qed.
End Crc.
Check step_inj.
Print Assumptions step_inj.
