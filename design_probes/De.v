From Coq Require Import NArith List Lia ZArith Bool.
From Coq Require Import Strings.Byte.
From P Require Import Base.
Import ListNotations.
Open Scope N_scope.

Inductive err := EEof | EUnassigned | EUnexpected | EType | EValue | EDepth | ETrailing | ELength | EUtf8 | EFuel.
Inductive res (A : Type) := Ok (a : A) | Err (e : err).
Arguments Ok {A}. Arguments Err {A}.

Record st := mkst { inp : list byte; depth : N }.
Definition set_inp (s : st) (l : list byte) := mkst l (depth s).

(* argument of a head with additional info ai (24..27), mirroring parse_u8/u16/u32/u64:
   parse_u8 consumes nothing on EOF; read_into consumes nothing on EOF *)
Definition read_arg (ai : N) (s : st) : res N * st :=
  let w := if ai =? 24 then 1%nat else if ai =? 25 then 2%nat else if ai =? 26 then 4%nat else 8%nat in
  match take w (inp s) with
  | Some (x, r) => (Ok (be_dec x 0), set_inp s r)
  | None => (Err EEof, s)
  end.

Inductive seq_access := Definite (remaining : N) | Indefinite.

Record visitor (A : Type) := {
  v_uint : N -> res A;
  v_nint : res A;
  v_bytes : list byte -> res A;
  v_text : list byte -> res A;      (* already UTF-8 validated *)
  v_bool : bool -> res A;
  v_unit : res A;
  v_float : res A;
  v_map : res A;
  v_seq : option (seq_access -> st -> res A * seq_access * st)
}.
Arguments v_uint {A}. Arguments v_nint {A}. Arguments v_bytes {A}. Arguments v_text {A}.
Arguments v_bool {A}. Arguments v_unit {A}. Arguments v_float {A}. Arguments v_map {A}. Arguments v_seq {A}.

Definition utf8_valid (l : list byte) : bool := forallb (fun b => b2n b <? 128) l. (* probe: ASCII only *)

(* recursion_checked: decrement first; at 0 fail WITHOUT restoring; restore after callee on both paths *)
Definition recursion_checked {A} (f : st -> res A * st) (s : st) : res A * st :=
  let d := depth s - 1 in
  let s1 := mkst (inp s) d in
  if d =? 0 then (Err EDepth, s1)
  else let '(r, s2) := f s1 in (r, mkst (inp s2) (depth s2 + 1)).

Definition parse_array {A} (v : visitor A) (len : N) (s : st) : res A * st :=
  recursion_checked (fun s =>
    match v_seq v with
    | None => (Err EType, s)
    | Some body =>
      let '(r, acc, s') := body (Definite len) s in
      match r with
      | Err e => (Err e, s')
      | Ok a => match acc with Definite 0 => (Ok a, s') | _ => (Err ETrailing, s') end
      end
    end) s.

Definition parse_indef_array {A} (v : visitor A) (s : st) : res A * st :=
  recursion_checked (fun s =>
    match v_seq v with
    | None => (Err EType, s)
    | Some body =>
      let '(r, acc, s') := body Indefinite s in
      match r with
      | Err e => (Err e, s')
      | Ok a => match inp s' with
                | [] => (Err EEof, s')
                | b :: t => if b2n b =? 255 then (Ok a, set_inp s' t) else (Err ETrailing, set_inp s' t)
                end
      end
    end) s.


Fixpoint parse_value {A} (v : visitor A) (fuel : nat) (s : st) {struct fuel} : res A * st :=
  match fuel with O => (Err EFuel, s) | S fuel' =>
  match inp s with
  | [] => (Err EEof, s)
  | b :: r =>
    let s1 := set_inp s r in
    let mt := b2n b / 32 in
    let ai := b2n b mod 32 in
    (* common: obtain argument *)
    let arg : res N * st :=
      if ai <? 24 then (Ok ai, s1) else if ai <? 28 then read_arg ai s1 else (Err EUnassigned, s1) in
    if mt =? 0 then
      match arg with (Ok n, s2) => (v_uint v n, s2) | (Err e, s2) => (Err e, s2) end
    else if mt =? 1 then
      match arg with (Ok _, s2) => (v_nint v, s2) | (Err e, s2) => (Err e, s2) end
    else if mt =? 2 then
      if ai =? 31 then (Err EType, s1) (* probe: indefinite bytes omitted *)
      else match arg with
           | (Ok n, s2) => match take (N.to_nat n) (inp s2) with
                           | Some (x, r') => (v_bytes v x, set_inp s2 r')
                           | None => (Err EEof, s2) end
           | (Err e, s2) => (Err e, s2) end
    else if mt =? 3 then
      if ai =? 31 then (Err EType, s1)
      else match arg with
           | (Ok n, s2) => match take (N.to_nat n) (inp s2) with
                           | Some (x, r') => if utf8_valid x then (v_text v x, set_inp s2 r') else (Err EUtf8, set_inp s2 r')
                           | None => (Err EEof, s2) end
           | (Err e, s2) => (Err e, s2) end
    else if mt =? 4 then
      if ai =? 31 then parse_indef_array v s1
      else match arg with (Ok n, s2) => parse_array v n s2 | (Err e, s2) => (Err e, s2) end
    else if mt =? 5 then
      if ai =? 31 then recursion_checked (fun s => (v_map v, s)) s1
      else match arg with (Ok n, s2) => recursion_checked (fun s => (v_map v, s)) s2 | (Err e, s2) => (Err e, s2) end
    else if mt =? 6 then
      match arg with
      | (Ok _, s2) => recursion_checked (parse_value v fuel') s2
      | (Err e, s2) => (Err e, s2) end
    else (* major 7 *)
      if ai =? 20 then (v_bool v false, s1) else if ai =? 21 then (v_bool v true, s1)
      else if (ai =? 22) || (ai =? 23) then (v_unit v, s1)
      else if ai =? 25 then match take 2 (inp s1) with Some (_, r') => (v_float v, set_inp s1 r') | None => (Err EEof, s1) end
      else if ai =? 26 then match take 4 (inp s1) with Some (_, r') => (v_float v, set_inp s1 r') | None => (Err EEof, s1) end
      else if ai =? 27 then match take 8 (inp s1) with Some (_, r') => (v_float v, set_inp s1 r') | None => (Err EEof, s1) end
      else if ai =? 31 then (Err EUnexpected, s1)
      else (Err EUnassigned, s1)
  end end.

(* SeqAccess::next_element *)
Definition next_element {A} (p : st -> res A * st) (acc : seq_access) (s : st) : res (option A) * seq_access * st :=
  match acc with
  | Definite n =>
    if n =? 0 then (Ok None, acc, s)
    else let '(r, s') := p s in
         (match r with Ok a => Ok (Some a) | Err e => Err e end, Definite (n - 1), s')
  | Indefinite =>
    match inp s with
    | [] => (Err EEof, acc, s)
    | b :: _ => if b2n b =? 255 then (Ok None, acc, s)
                else let '(r, s') := p s in (match r with Ok a => Ok (Some a) | Err e => Err e end, acc, s')
    end
  end.

(* primitive visitors *)
Definition reject {A} : visitor A :=
  {| v_uint := fun _ => Err EType; v_nint := Err EType; v_bytes := fun _ => Err EType; v_text := fun _ => Err EType;
     v_bool := fun _ => Err EType; v_unit := Err EType; v_float := Err EType; v_map := Err EType; v_seq := None |}.
Definition vis_uint (bound : N) : visitor N :=
  {| v_uint := fun n => if n <? bound then Ok n else Err EValue; v_nint := Err EValue; v_bytes := fun _ => Err EType;
     v_text := fun _ => Err EType; v_bool := fun _ => Err EType; v_unit := Err EType; v_float := Err EType;
     v_map := Err EType; v_seq := None |}.
Definition vis_string : visitor (list byte) :=
  {| v_uint := fun _ => Err EType; v_nint := Err EType;
     v_bytes := fun x => if utf8_valid x then Ok x else Err EValue;
     v_text := fun x => Ok x; v_bool := fun _ => Err EType; v_unit := Err EType; v_float := Err EType;
     v_map := Err EType; v_seq := None |}.

(* EndpointID *)
Inductive eid := Dtn (code : N) (name : list byte) | DtnNone (code addr : N) | Ipn (code node svc : N).
Definition eid_none := DtnNone 1 0.

Definition ipn_body (fuel : nat) (acc : seq_access) (s : st) : res (N * N) * seq_access * st :=
  let '(r1, acc, s) := next_element (parse_value (vis_uint (2^64)) fuel) acc s in
  match r1 with
  | Err e => (Err e, acc, s) | Ok None => (Err ELength, acc, s)
  | Ok (Some a) =>
    let '(r2, acc, s) := next_element (parse_value (vis_uint (2^64)) fuel) acc s in
    match r2 with
    | Err e => (Err e, acc, s) | Ok None => (Err ELength, acc, s)
    | Ok (Some b) => (Ok (a, b), acc, s)
    end
  end.
Definition vis_ipn (fuel : nat) : visitor (N * N) :=
  {| v_uint := fun _ => Err EType; v_nint := Err EType; v_bytes := fun _ => Err EType; v_text := fun _ => Err EType;
     v_bool := fun _ => Err EType; v_unit := Err EType; v_float := Err EType; v_map := Err EType;
     v_seq := Some (ipn_body fuel) |}.

Definition eid_body (fuel : nat) (acc : seq_access) (s : st) : res eid * seq_access * st :=
  let '(r1, acc, s) := next_element (parse_value (vis_uint 256) fuel) acc s in
  match r1 with
  | Err e => (Err e, acc, s) | Ok None => (Err ELength, acc, s)
  | Ok (Some t) =>
    if t =? 1 then
      (* seq.next_element().unwrap_or_default().unwrap_or_default(): errors are swallowed *)
      let '(r2, acc, s) := next_element (parse_value vis_string fuel) acc s in
      let name := match r2 with Ok (Some n) => n | _ => [] end in
      (Ok (match name with [] => eid_none | _ => Dtn t name end), acc, s)
    else if t =? 2 then
      let '(r2, acc, s) := next_element (parse_value (vis_ipn fuel) fuel) acc s in
      match r2 with
      | Err e => (Err e, acc, s) | Ok None => (Err ELength, acc, s)
      | Ok (Some (n, sv)) => if n <? 1 then (Err EValue, acc, s) else (Ok (Ipn 2 n sv), acc, s)
      end
    else (Err EValue, acc, s)
  end.
Definition vis_eid (fuel : nat) : visitor eid :=
  {| v_uint := fun _ => Err EType; v_nint := Err EType; v_bytes := fun _ => Err EType; v_text := fun _ => Err EType;
     v_bool := fun _ => Err EType; v_unit := Err EType; v_float := Err EType; v_map := Err EType;
     v_seq := Some (eid_body fuel) |}.
Definition parse_eid (fuel : nat) := parse_value (vis_eid fuel) fuel.

(* serializer (model of bp7's Serialize for EndpointID on serde_cbor) *)
Definition ser_uint n := head 0 n.
Definition ser_text (x : list byte) := head 3 (N.of_nat (length x)) ++ x.
Definition ser_eid (e : eid) : list byte :=
  match e with
  | Dtn c name => head 4 2 ++ ser_uint c ++ ser_text name
  | DtnNone c a => head 4 2 ++ ser_uint c ++ ser_uint a
  | Ipn c n sv => head 4 2 ++ ser_uint c ++ (head 4 2 ++ ser_uint n ++ ser_uint sv)
  end.

Definition wf_eid (e : eid) : bool :=
  match e with
  | Dtn c name => (c =? 1) && negb (match name with [] => true | _ => false end) && utf8_valid name
                  && (N.of_nat (length name) <? 2^64)
  | DtnNone c a => (c =? 1) && (a =? 0)
  | Ipn c n sv => (c =? 2) && (1 <=? n) && (n <? 2^64) && (sv <? 2^64)
  end.

(* executable sanity checks, incl. the misalignment behaviour *)
Definition bytes_of (l : list N) := map n2b l.
Definition run_eid (l : list N) := let '(r, s) := parse_eid 50 (mkst (bytes_of l) 125) in (r, map b2n (inp s), depth s).
Eval vm_compute in run_eid [130;1;0; 7].                 (* [1,0] -> none, rest [7] *)
Eval vm_compute in run_eid [130;1;129;130;1;0].          (* [1,[..]] : swallowed, rest = inner items *)
Eval vm_compute in run_eid [130;2;130;5;6].              (* ipn 5.6 *)
Eval vm_compute in run_eid [130;1;99;97;98;99].          (* dtn "abc" *)
