From Coq Require Import NArith List Lia ZArith Bool.
From Coq Require Import Strings.Byte.
From P Require Import Base.
Import ListNotations.
Open Scope N_scope.

(* decimal printing of u64-range numbers, as Rust's Display for u64: no leading zeros, "0" for 0 *)
Fixpoint digits_rev (fuel : nat) (n : N) : list byte :=
  match fuel with
  | O => []
  | S f => let d := n2b (48 + n mod 10) in
           if n <? 10 then [d] else d :: digits_rev f (n / 10)
  end.
Definition dec (n : N) : list byte := rev (digits_rev 20 n).

Definition is_digit (b : byte) : bool := (48 <=? b2n b) && (b2n b <=? 57).
(* Rust u64::from_str without the optional '+': fold left, empty -> None, overflow -> None *)
Fixpoint parse_digits (l : list byte) (acc : N) : option N :=
  match l with
  | [] => Some acc
  | b :: t => if is_digit b then
                let acc' := acc * 10 + (b2n b - 48) in
                if acc' <? 2^64 then parse_digits t acc' else None
              else None
  end.
Definition parse_u64 (l : list byte) : option N :=
  match l with [] => None | _ => parse_digits l 0 end.

Lemma parse_digits_app l1 l2 acc : parse_digits (l1 ++ l2) acc =
  match parse_digits l1 acc with Some a => parse_digits l2 a | None => None end.
Proof.
  revert acc; induction l1 as [|b t IH]; intros acc; cbn [app parse_digits]; [reflexivity|].
  destruct (is_digit b); [|reflexivity]. destruct (_ <? 2^64); [apply IH|reflexivity].
Qed.

Lemma digit_byte x : x < 10 -> is_digit (n2b (48 + x)) = true /\ b2n (n2b (48 + x)) - 48 = x.
Proof. intros H. unfold is_digit. rewrite b2n_n2b by lia. split; [apply andb_true_iff; split; apply N.leb_le; lia|lia]. Qed.

(* value of reversed digit list *)
Lemma parse_rev_digits fuel : forall n, n < 10 ^ N.of_nat fuel -> n < 2^64 -> (0 < fuel)%nat ->
  forall acc, (acc * 10 ^ N.of_nat (length (digits_rev fuel n)) + n < 2^64) ->
  parse_digits (rev (digits_rev fuel n)) acc = Some (acc * 10 ^ N.of_nat (length (digits_rev fuel n)) + n)
  /\ digits_rev fuel n <> [].
Proof.
  induction fuel as [|f IH]; intros n Hn H64 Hf acc Hacc; [lia|].
  cbn [digits_rev] in *.
  destruct (n <? 10) eqn:E.
  - apply N.ltb_lt in E. rewrite N.mod_small by lia. cbn [rev app length parse_digits] in *.
    destruct (digit_byte n E) as [-> ->]. change (N.of_nat 1) with 1 in *. rewrite N.pow_1_r in *.
    assert (acc * 10 + n <? 2^64 = true) as -> by (apply N.ltb_lt; lia). split; [reflexivity|discriminate].
  - apply N.ltb_ge in E. cbn [rev length] in *. rewrite parse_digits_app.
    rewrite Nat2N.inj_succ, N.pow_succ_r' in *.
    assert (Hdiv : n / 10 < 10 ^ N.of_nat f) by (apply N.div_lt_upper_bound; lia).
    assert (Hf' : (0 < f)%nat).
    { destruct f; [|apply Nat.lt_0_succ]. change (N.of_nat 0) with 0 in Hn. rewrite N.pow_0_r in Hn. lia. }
    pose proof (N.div_mod n 10 ltac:(lia)) as Hdm.
    pose proof (N.mod_lt n 10 ltac:(lia)) as Hm.
    set (L := 10 ^ N.of_nat (length (digits_rev f (n / 10)))) in *.
    assert (HH : forall L q m, acc * (10 * L) + n < 2^64 -> n = 10 * q + m -> acc * L + q < 2^64) by (intros; nia).
    assert (acc * L + n / 10 < 2^64) by (eapply HH; eassumption).
    assert (n / 10 < 2^64) by (apply N.div_lt_upper_bound; [discriminate|clear - H64; lia]).
    destruct (IH (n / 10) Hdiv H0 Hf' acc H) as [-> _].
    fold L. cbn [parse_digits]. destruct (digit_byte (n mod 10) Hm) as [-> ->].
    assert ((acc * L + n / 10) * 10 + n mod 10 = acc * (10 * L) + n) as Heq by (clearbody L; clear - Hdm; lia).
    rewrite Heq. assert (acc * (10 * L) + n <? 2^64 = true) as -> by (apply N.ltb_lt; exact Hacc).
    split; [reflexivity|discriminate].
Qed.

Theorem parse_dec n : n < 2^64 -> parse_u64 (dec n) = Some n.
Proof.
  intros H. unfold parse_u64, dec.
  assert (n < 10 ^ N.of_nat 20).
  { assert (10 ^ N.of_nat 20 = 100000000000000000000) as -> by (vm_compute; reflexivity). assert (2^64 = 18446744073709551616) as E64 by (vm_compute; reflexivity). rewrite E64 in H. lia. }
  destruct (parse_rev_digits 20 n H0 H ltac:(lia) 0 ltac:(lia)) as [Hp Hne].
  destruct (rev (digits_rev 20 n)) eqn:E.
  - exfalso. apply Hne. apply (f_equal (@rev byte)) in E. rewrite rev_involutive in E. exact E.
  - rewrite Hp. f_equal.
Qed.

Lemma digits_all fuel n : forallb is_digit (digits_rev fuel n) = true.
Proof.
  revert n; induction fuel as [|f IH]; intros n; cbn [digits_rev]; [reflexivity|].
  pose proof (N.mod_lt n 10 ltac:(lia)) as Hm. destruct (digit_byte (n mod 10) Hm) as [Hd _].
  destruct (n <? 10); cbn [forallb]; rewrite Hd; [reflexivity|apply IH].
Qed.
Theorem dec_digits n : forallb is_digit (dec n) = true.   (* hence no '-', '.', '/' in dec n *)
Proof. unfold dec. rewrite forallb_forall. intros x Hx. apply in_rev in Hx.
  pose proof (digits_all 20 n) as H. rewrite forallb_forall in H. auto. Qed.
Eval vm_compute in map b2n (dec 18446744073709551615).
Print Assumptions parse_dec.
