From Coq Require Import NArith List Lia ZArith Bool.
From Coq Require Import Strings.Byte.
From P Require Import Base De Rt.
Import ListNotations.
Open Scope N_scope.

(* a reduced "canonical block": [type, number]; the bundle is an INDEFINITE array of blocks,
   decoded by the `while let Some(next) = seq.next_element()?` loop of bundle.rs *)
Definition blk := (N * N)%type.
Definition blk_body (fuel : nat) (acc : seq_access) (s : st) : res blk * seq_access * st :=
  let '(r1, acc, s) := next_element (parse_value (vis_uint (2^64)) fuel) acc s in
  match r1 with
  | Err e => (Err e, acc, s) | Ok None => (Err ELength, acc, s)
  | Ok (Some a) =>
    let '(r2, acc, s) := next_element (parse_value (vis_uint (2^64)) fuel) acc s in
    match r2 with
    | Err e => (Err e, acc, s) | Ok None => (Err ELength, acc, s)
    | Ok (Some b) => (Ok (a, b), acc, s)
    end
  end.
Definition vis_blk (fuel : nat) : visitor blk :=
  {| v_uint := fun _ => Err EType; v_nint := Err EType; v_bytes := fun _ => Err EType; v_text := fun _ => Err EType;
     v_bool := fun _ => Err EType; v_unit := Err EType; v_float := Err EType; v_map := Err EType;
     v_seq := Some (blk_body fuel) |}.

Fixpoint blocks_loop (pf : nat) (fuel : nat) (acc : seq_access) (s : st) : res (list blk) * seq_access * st :=
  match fuel with
  | O => (Err EFuel, acc, s)
  | S f =>
    let '(r, acc, s) := next_element (parse_value (vis_blk pf) pf) acc s in
    match r with
    | Err e => (Err e, acc, s)
    | Ok None => (Ok [], acc, s)
    | Ok (Some b) =>
      let '(r', acc, s) := blocks_loop pf f acc s in
      (match r' with Ok l => Ok (b :: l) | Err e => Err e end, acc, s)
    end
  end.
Definition vis_bundle (pf fuel : nat) : visitor (list blk) :=
  {| v_uint := fun _ => Err EType; v_nint := Err EType; v_bytes := fun _ => Err EType; v_text := fun _ => Err EType;
     v_bool := fun _ => Err EType; v_unit := Err EType; v_float := Err EType; v_map := Err EType;
     v_seq := Some (blocks_loop pf fuel) |}.
Definition decode (bs : list byte) : res (list blk) :=
  let fuel := S (length bs) in
  let '(r, s) := parse_value (vis_bundle fuel fuel) fuel (mkst bs 128) in
  match r with
  | Err e => Err e
  | Ok l => match inp s with [] => Ok l | _ => Err ETrailing end      (* Deserializer::end() *)
  end.

Definition ser_blk (b : blk) : list byte := head 4 2 ++ ser_uint (fst b) ++ ser_uint (snd b).
Definition encode (l : list blk) : list byte := n2b 159 :: concat (map ser_blk l) ++ [n2b 255].
Definition wf_blk (b : blk) : Prop := fst b < 2^64 /\ snd b < 2^64.

Lemma parse_blk_ok pf b r d : wf_blk b -> 2 <= d ->
  parse_value (vis_blk (S pf)) (S pf) (mkst (ser_blk b ++ r) d) = (Ok b, mkst r d).
Proof.
  intros [H1 H2] Hd. destruct b as [x y]. unfold ser_blk. cbn [fst snd] in *.
  rewrite <- !app_assoc. rewrite parse_value_head by lia. cbn [N.eqb Pos.eqb].
  erewrite parse_array_ok; [|reflexivity|cbn; lia|].
  2:{ cbn [inp depth]. unfold blk_body.
      erewrite next_def; [|discriminate|apply parse_uint_ok; lia]. cbn [N.sub Pos.sub].
      erewrite next_def; [|discriminate|apply parse_uint_ok; lia]. reflexivity. }
  cbn [inp depth]. f_equal. f_equal. lia.
Qed.

Lemma ser_blk_first b r : exists t, ser_blk b ++ r = n2b 130 :: t.
Proof. unfold ser_blk. eexists. reflexivity. Qed.

Lemma loop_ok pf : forall l fuel r d, Forall wf_blk l -> (length l < fuel)%nat -> 2 <= d ->
  blocks_loop (S pf) fuel Indefinite (mkst (concat (map ser_blk l) ++ n2b 255 :: r) d)
  = (Ok l, Indefinite, mkst (n2b 255 :: r) d).
Proof.
  induction l as [|b l IH]; intros fuel r d Hwf Hf Hd; (destruct fuel as [|f]; [cbn in Hf; lia|]).
  - cbn [map concat app blocks_loop next_element inp]. rewrite b2n_n2b by lia. reflexivity.
  - inversion Hwf as [|? ? Hb Hl]; subst. cbn [map concat blocks_loop]. rewrite <- app_assoc.
    destruct (ser_blk_first b (concat (map ser_blk l) ++ n2b 255 :: r)) as [t Ht].
    unfold next_element at 1. rewrite Ht. cbn [inp]. rewrite b2n_n2b by lia.
    cbn [N.eqb Pos.eqb]. rewrite <- Ht. rewrite parse_blk_ok by assumption.
    rewrite IH; [reflexivity|assumption|cbn in Hf; lia|assumption].
Qed.

Theorem decode_encode l : Forall wf_blk l -> decode (encode l) = Ok l.
Proof.
  intros Hwf. unfold decode, encode.
  set (fuel := S (length _)).
  assert (Hfl : (length l < fuel)%nat).
  { unfold fuel. cbn [length]. rewrite app_length. cbn [length].
    assert (length l <= length (concat (map ser_blk l)))%nat.
    { clear. induction l as [|b l IH]; cbn [map concat length]; [lia|]. rewrite app_length. unfold ser_blk at 1.
      cbn [head N.ltb N.compare Pos.compare Pos.compare_cont N.mul app length]. lia. }
    lia. }
  destruct fuel as [|pf]; [lia|].
  cbn [parse_value inp]. rewrite b2n_n2b by lia.
  change (159 / 32) with 4. change (159 mod 32) with 31. cbn [N.eqb Pos.eqb N.ltb N.compare Pos.compare Pos.compare_cont].
  unfold set_inp. cbn [inp depth].
  unfold parse_indef_array, recursion_checked. cbn [inp depth v_seq vis_bundle].
  change (128 - 1 =? 0) with false. cbv iota.
  change [n2b 255] with (n2b 255 :: []).
  rewrite loop_ok; [|assumption|lia|cbv; discriminate].
  cbn [inp]. rewrite b2n_n2b by lia. cbn [N.eqb Pos.eqb inp set_inp]. reflexivity.
Qed.
Print Assumptions decode_encode.
