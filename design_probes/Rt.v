From Coq Require Import NArith List Lia ZArith Bool.
From Coq Require Import Strings.Byte.
From P Require Import Base De.
Import ListNotations.
Open Scope N_scope.

Definition arg_of (ai : N) (s1 : st) : res N * st :=
  if ai <? 24 then (Ok ai, s1) else if ai <? 28 then read_arg ai s1 else (Err EUnassigned, s1).

Lemma read_arg_be ai w n r d :
  (ai = 24 /\ w = 1%nat) \/ (ai = 25 /\ w = 2%nat) \/ (ai = 26 /\ w = 4%nat) \/ (ai = 27 /\ w = 8%nat) ->
  n < 256 ^ N.of_nat w ->
  read_arg ai (mkst (be_enc w n ++ r) d) = (Ok n, mkst r d).
Proof.
  intros H Hn. unfold read_arg. cbn [inp].
  destruct H as [[-> ->]|[[-> ->]|[[-> ->]|[-> ->]]]]; vm_compute (_ =? _); cbv iota;
  (rewrite take_app by apply be_enc_length); rewrite be_dec_enc by exact Hn; reflexivity.
Qed.

Lemma divmod32 m x : x < 32 -> (m * 32 + x) / 32 = m /\ (m * 32 + x) mod 32 = x.
Proof.
  intros H. split.
  - rewrite N.add_comm, N.div_add by lia. rewrite N.div_small by lia. reflexivity.
  - rewrite N.add_comm, N.mod_add by lia. apply N.mod_small; lia.
Qed.

Lemma head_spec m n r d : m < 8 -> n < 2^64 ->
  exists b rest0 ai, head m n ++ r = b :: rest0 /\ b2n b / 32 = m /\ b2n b mod 32 = ai /\ ai < 28 /\
     arg_of ai (mkst rest0 d) = (Ok n, mkst r d).
Proof.
  intros Hm Hn. unfold head.
  destruct (n <? 24) eqn:E1; [|destruct (n <? 256) eqn:E2; [|destruct (n <? 65536) eqn:E3; [|destruct (n <? 4294967296) eqn:E4]]];
  rewrite ?N.ltb_lt, ?N.ltb_ge in *; cbn [app].
  - exists (n2b (m * 32 + n)), r, n. rewrite b2n_n2b by lia.
    repeat split; try lia.
    + apply divmod32; lia.
    + apply divmod32; lia.
    + unfold arg_of. apply N.ltb_lt in E1. rewrite E1. reflexivity.
  - exists (n2b (m * 32 + 24)), (be_enc 1 n ++ r), 24. rewrite b2n_n2b by lia. repeat split; try lia.
    + apply divmod32; lia.
    + apply divmod32; lia.
    + unfold arg_of. cbn [N.ltb N.compare Pos.compare Pos.compare_cont]. apply read_arg_be with (w := 1%nat); [tauto|cbn; lia].
  - exists (n2b (m * 32 + 25)), (be_enc 2 n ++ r), 25. rewrite b2n_n2b by lia. repeat split; try lia.
    + apply divmod32; lia.
    + apply divmod32; lia.
    + unfold arg_of. cbn [N.ltb N.compare Pos.compare Pos.compare_cont]. apply read_arg_be with (w := 2%nat); [tauto|cbn; lia].
  - exists (n2b (m * 32 + 26)), (be_enc 4 n ++ r), 26. rewrite b2n_n2b by lia. repeat split; try lia.
    + apply divmod32; lia.
    + apply divmod32; lia.
    + unfold arg_of. cbn [N.ltb N.compare Pos.compare Pos.compare_cont]. apply read_arg_be with (w := 4%nat); [tauto|cbn; lia].
  - exists (n2b (m * 32 + 27)), (be_enc 8 n ++ r), 27. rewrite b2n_n2b by lia. repeat split; try lia.
    + apply divmod32; lia.
    + apply divmod32; lia.
    + unfold arg_of. cbn [N.ltb N.compare Pos.compare Pos.compare_cont]. apply read_arg_be with (w := 8%nat); [tauto|cbn; lia].
Qed.

(* one-step unfolding of parse_value on a shortest-form head *)
Lemma parse_value_head {A} (v : visitor A) f m n r d : m < 8 -> n < 2^64 ->
  parse_value v (S f) (mkst (head m n ++ r) d) =
    let s2 := mkst r d in
    if m =? 0 then (v_uint v n, s2)
    else if m =? 1 then (v_nint v, s2)
    else if m =? 2 then match take (N.to_nat n) r with Some (x, r') => (v_bytes v x, mkst r' d) | None => (Err EEof, s2) end
    else if m =? 3 then match take (N.to_nat n) r with
                        | Some (x, r') => if utf8_valid x then (v_text v x, mkst r' d) else (Err EUtf8, mkst r' d)
                        | None => (Err EEof, s2) end
    else if m =? 4 then parse_array v n s2
    else if m =? 5 then recursion_checked (fun s => (v_map v, s)) s2
    else if m =? 6 then recursion_checked (parse_value v f) s2
    else parse_value v (S f) (mkst (head m n ++ r) d).
Proof.
  intros Hm Hn.
  destruct (head_spec m n r d Hm Hn) as (b & rest0 & ai & Hh & Hmt & Hai & Hlt & Harg).
  assert (m = 0 \/ m = 1 \/ m = 2 \/ m = 3 \/ m = 4 \/ m = 5 \/ m = 6 \/ m = 7) as Hcases by lia.
  cbn [parse_value]. rewrite Hh. unfold set_inp. cbn [inp depth]. rewrite Hmt, Hai.
  fold (arg_of ai (mkst rest0 d)). rewrite Harg.
  assert (ai =? 31 = false) as E31 by (apply N.eqb_neq; lia).
  destruct Hcases as [->|[->|[->|[->|[->|[->|[->| ->]]]]]]]; cbn [N.eqb Pos.eqb]; rewrite ?E31; unfold set_inp; cbn [inp depth];
  try reflexivity.
Qed.

Lemma parse_uint_ok bound f n r d : n < bound -> n < 2^64 ->
  parse_value (vis_uint bound) (S f) (mkst (ser_uint n ++ r) d) = (Ok n, mkst r d).
Proof.
  intros Hb Hn. unfold ser_uint. rewrite parse_value_head by lia. cbn.
  apply N.ltb_lt in Hb. rewrite Hb. reflexivity.
Qed.

Lemma parse_text_ok f x r d : utf8_valid x = true -> N.of_nat (length x) < 2^64 ->
  parse_value vis_string (S f) (mkst (ser_text x ++ r) d) = (Ok x, mkst r d).
Proof.
  intros Hu Hl. unfold ser_text. rewrite <- app_assoc. rewrite parse_value_head by lia. cbn [N.eqb Pos.eqb].
  rewrite Nat2N.id, take_app by reflexivity. rewrite Hu. reflexivity.
Qed.

Lemma next_def {A} (p : st -> res A * st) n s a s' : n <> 0 -> p s = (Ok a, s') ->
  next_element p (Definite n) s = (Ok (Some a), Definite (n - 1), s').
Proof. intros Hn Hp. unfold next_element. apply N.eqb_neq in Hn. rewrite Hn, Hp. reflexivity. Qed.

Lemma parse_array_ok {A} (v : visitor A) body n s a s' : v_seq v = Some body -> 2 <= depth s ->
  body (Definite n) (mkst (inp s) (depth s - 1)) = (Ok a, Definite 0, s') ->
  parse_array v n s = (Ok a, mkst (inp s') (depth s' + 1)).
Proof.
  intros Hv Hd Hb. unfold parse_array, recursion_checked.
  assert (depth s - 1 =? 0 = false) as -> by (apply N.eqb_neq; lia).
  rewrite Hv, Hb. reflexivity.
Qed.

Theorem parse_eid_ser e r d f : wf_eid e = true -> 3 <= d ->
  parse_eid (S f) (mkst (ser_eid e ++ r) d) = (Ok e, mkst r d).
Proof.
  intros Hwf Hd. unfold parse_eid.
  destruct e as [c name|c a|c n sv]; cbn [ser_eid wf_eid] in *;
  repeat (apply andb_true_iff in Hwf; destruct Hwf as [Hwf ?]);
  rewrite ?N.eqb_eq, ?N.leb_le, ?N.ltb_lt in *; subst;
  rewrite <- !app_assoc; rewrite parse_value_head by lia; cbn [N.eqb Pos.eqb].
  - (* dtn *)
    erewrite parse_array_ok; [|reflexivity|cbn; lia|].
    2:{ cbn [inp depth]. unfold eid_body.
      erewrite next_def; [|discriminate|apply parse_uint_ok; lia]. cbn [N.eqb Pos.eqb N.sub Pos.sub].
      erewrite next_def; [|discriminate|apply parse_text_ok; [assumption|lia]].
      destruct name; [discriminate|]. reflexivity. }
    cbn [inp depth]. f_equal. f_equal. lia.
  - (* none: the 0 is rejected by the String visitor and the error swallowed *)
    erewrite parse_array_ok; [|reflexivity|cbn; lia|].
    2:{ cbn [inp depth]. unfold eid_body.
      erewrite next_def; [|discriminate|apply parse_uint_ok; lia]. cbn [N.eqb Pos.eqb N.sub Pos.sub].
      unfold next_element. cbn [N.eqb]. unfold ser_uint. rewrite parse_value_head by lia. cbn. reflexivity. }
    cbn [inp depth]. f_equal. f_equal. lia.
  - (* ipn *)
    erewrite parse_array_ok; [|reflexivity|cbn; lia|].
    2:{ cbn [inp depth]. unfold eid_body.
      erewrite next_def; [|discriminate|apply parse_uint_ok; lia]. cbn [N.eqb Pos.eqb N.sub Pos.sub].
      erewrite next_def; [|discriminate|].
      2:{ rewrite <- ?app_assoc. rewrite parse_value_head by lia. cbn [N.eqb Pos.eqb].
          erewrite parse_array_ok; [|reflexivity|cbn; lia|].
          2:{ cbn [inp depth]. unfold ipn_body.
            erewrite next_def; [|discriminate|apply parse_uint_ok; lia]. cbn [N.sub Pos.sub].
            erewrite next_def; [|discriminate|apply parse_uint_ok; lia]. reflexivity. }
          reflexivity. }
      cbn [inp depth N.sub Pos.sub].
      assert (n <? 1 = false) as -> by (apply N.ltb_ge; lia). reflexivity. }
    cbn [inp depth]. f_equal. f_equal. lia.
Qed.
Print Assumptions parse_eid_ser.
