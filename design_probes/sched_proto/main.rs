use bp7::verif_hooks as vh;
use bp7::CreationTimestamp;
use std::sync::{Arc, Condvar, Mutex};
use std::thread;

const MS2K: u64 = 946_684_800_000;
#[derive(Default)]
struct St { granted: Option<usize>, parked: Vec<bool>, pending: Vec<Option<u64>>, results: Vec<Vec<(u64,u64)>>, busy: Vec<bool>, ops: Vec<Vec<&'static str>> }
type Sh = Arc<(Mutex<St>, Condvar)>;

fn worker(id: usize, sh: Sh) {
    let sh2 = sh.clone();
    vh::set_yield_hook(Some(Box::new(move |op| {
        let (m, cv) = &*sh2;
        let mut st = m.lock().unwrap();
        st.parked[id] = true; st.ops[id].push(op);
        cv.notify_all();
        while st.granted != Some(id) { st = cv.wait(st).unwrap(); }
        st.granted = None; st.parked[id] = false;
    })));
    loop {
        let clock = { let (m, cv) = &*sh; let mut st = m.lock().unwrap();
            loop { if let Some(c) = st.pending[id].take() { st.busy[id] = true; break c } st = cv.wait(st).unwrap(); } };
        if clock == u64::MAX { return; }
        vh::set_thread_clock_ms(Some(clock + MS2K));
        let ts = CreationTimestamp::now();
        let (m, cv) = &*sh; let mut st = m.lock().unwrap();
        st.results[id].push((ts.dtntime(), ts.seqno())); st.busy[id] = false; cv.notify_all();
    }
}
// start a call on thread t with dtn-time clock c: returns once the thread is parked at its first op
fn start(sh: &Sh, t: usize, c: u64) { let (m, cv) = &**sh; let mut st = m.lock().unwrap(); st.pending[t] = Some(c); cv.notify_all();
    while !st.parked[t] { st = cv.wait(st).unwrap(); } }
// grant one step to thread t: returns when it is parked again or its call finished
fn step(sh: &Sh, t: usize) { let (m, cv) = &**sh; let mut st = m.lock().unwrap(); assert!(st.parked[t]);
    st.granted = Some(t); cv.notify_all();
    while st.granted.is_some() || (st.busy[t] && !st.parked[t]) { st = cv.wait(st).unwrap(); } }
fn run_to_end(sh: &Sh, t: usize) { loop { { let st = sh.0.lock().unwrap(); if !st.busy[t] { return; } } step(sh, t); } }

fn main() {
    let n = 2;
    let sh: Sh = Arc::new((Mutex::new(St { granted: None, parked: vec![false; n], pending: vec![None; n], results: vec![vec![]; n], busy: vec![false; n], ops: vec![vec![]; n] }), Condvar::new()));
    let hs: Vec<_> = (0..n).map(|i| { let s = sh.clone(); thread::spawn(move || worker(i, s)) }).collect();
    let (a, b) = (0usize, 1usize);
    let t = 1000u64;
    // B: two calls in ms T (seq 0, 1)
    start(&sh, b, t); run_to_end(&sh, b);
    start(&sh, b, t); run_to_end(&sh, b);
    // A starts in ms T+1: swap only, then preempted before the reset
    start(&sh, a, t + 1); step(&sh, a);
    // B in ms T+1: sees the timestamp already swapped, takes the stale counter
    start(&sh, b, t + 1); run_to_end(&sh, b);
    // A resumes: store 0, fetch_add
    run_to_end(&sh, a);
    // B twice more in ms T+1
    start(&sh, b, t + 1); run_to_end(&sh, b);
    start(&sh, b, t + 1); run_to_end(&sh, b);
    { let st = sh.0.lock().unwrap(); println!("A results {:?} ops {:?}", st.results[a], st.ops[a]); println!("B results {:?} ops {:?}", st.results[b], st.ops[b]);
      let mut all: Vec<_> = st.results.iter().flatten().cloned().collect(); all.sort(); let len = all.len(); all.dedup(); println!("calls={} distinct={}", len, all.len()); }
    for i in 0..n { let (m, cv) = &*sh; m.lock().unwrap().pending[i] = Some(u64::MAX); cv.notify_all(); }
    for h in hs { h.join().unwrap(); }
}
