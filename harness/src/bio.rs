//! Rendering / parsing of bp7 values in the case-line format (mirrors coq/theories/Run/BundleIO.v).
use crate::proto::*;
use bp7::canonical::{CanonicalBlock, CanonicalBlockBuilder, CanonicalData};
use bp7::crc::CrcValue;
use bp7::eid::{DtnAddress, EndpointID, IpnAddress};
use bp7::primary::PrimaryBlock;
use bp7::{Bundle, CreationTimestamp};
use std::time::Duration;

pub fn show_crc(c: &CrcValue) -> String {
    match c {
        CrcValue::CrcNo => "N".into(),
        CrcValue::Crc16Empty => "E16".into(),
        CrcValue::Crc32Empty => "E32".into(),
        CrcValue::Crc16(b) => format!("V16 {}", show_bytes(b)),
        CrcValue::Crc32(b) => format!("V32 {}", show_bytes(b)),
        CrcValue::Unknown(k) => format!("U {}", k),
    }
}
pub fn show_eid(e: &EndpointID) -> String {
    match e {
        EndpointID::Dtn(c, a) => format!("DTN {} {}", c, show_bytes(a.to_string().as_bytes())),
        EndpointID::DtnNone(c, a) => format!("NONE {} {}", c, a),
        EndpointID::Ipn(c, a) => format!("IPN {} {} {}", c, a.node_number(), a.service_number()),
    }
}
pub fn show_data(d: &CanonicalData) -> String {
    match d {
        CanonicalData::Data(b) => format!("DATA {}", show_bytes(b)),
        CanonicalData::BundleAge(a) => format!("AGE {}", a),
        CanonicalData::HopCount(l, c) => format!("HOP {} {}", l, c),
        CanonicalData::PreviousNode(e) => format!("PREV {}", show_eid(e)),
        CanonicalData::Unknown(b) => format!("UNK {}", show_bytes(b)),
        CanonicalData::DecodingError => "DERR".into(),
    }
}
pub fn primary_version(p: &PrimaryBlock) -> u64 {
    // `version` is private and has no getter: read it back from the block's own encoding
    use bp7::bundle::Block;
    let mut q = p.clone();
    q.crc = CrcValue::CrcNo;
    let v: serde_cbor::Value = serde_cbor::from_slice(&q.to_cbor()).expect("primary re-decodes");
    match v {
        serde_cbor::Value::Array(a) => match a.first() {
            Some(serde_cbor::Value::Integer(i)) => *i as u64,
            _ => u64::MAX,
        },
        _ => u64::MAX,
    }
}
pub fn show_primary(p: &PrimaryBlock) -> String {
    format!(
        "P {} {} {} {} {} {} {} {} {} {} {}",
        primary_version(p),
        p.bundle_control_flags,
        show_crc(&p.crc),
        show_eid(&p.destination),
        show_eid(&p.source),
        show_eid(&p.report_to),
        p.creation_timestamp.dtntime(),
        p.creation_timestamp.seqno(),
        p.lifetime.as_millis(),
        p.fragmentation_offset,
        p.total_data_length
    )
}
pub fn show_canonical(c: &CanonicalBlock) -> String {
    format!(
        "C {} {} {} {} {}",
        c.block_type,
        c.block_number,
        c.block_control_flags,
        show_crc(&c.crc),
        show_data(c.data())
    )
}
pub fn show_bundle(b: &Bundle) -> String {
    let mut s = format!("B {} [", show_primary(&b.primary));
    for c in &b.canonicals {
        s.push(' ');
        s.push_str(&show_canonical(c));
    }
    s.push_str(" ]");
    s
}

pub struct Toks<'a> {
    pub t: &'a [&'a str],
    pub i: usize,
}
impl<'a> Toks<'a> {
    pub fn new(t: &'a [&'a str]) -> Self {
        Toks { t, i: 0 }
    }
    pub fn next(&mut self) -> Option<&'a str> {
        let r = self.t.get(self.i).copied();
        self.i += 1;
        r
    }
    pub fn peek(&self) -> Option<&'a str> {
        self.t.get(self.i).copied()
    }
    pub fn n(&mut self) -> Option<u128> {
        get_n(self.next()?)
    }
    pub fn u64(&mut self) -> Option<u64> {
        u64::try_from(self.n()?).ok()
    }
    pub fn u8(&mut self) -> Option<u8> {
        u8::try_from(self.n()?).ok()
    }
    pub fn bytes(&mut self) -> Option<Vec<u8>> {
        get_bytes(self.next()?)
    }
    pub fn tag(&mut self, s: &str) -> Option<()> {
        if self.next()? == s {
            Some(())
        } else {
            None
        }
    }
    pub fn done(&self) -> bool {
        self.i >= self.t.len()
    }
}

/// None = not expressible through the public API (counted as SKIP by the caller)
pub fn parse_crc(t: &mut Toks) -> Option<CrcValue> {
    Some(match t.next()? {
        "N" => CrcValue::CrcNo,
        "E16" => CrcValue::Crc16Empty,
        "E32" => CrcValue::Crc32Empty,
        "V16" => {
            let b = t.bytes()?;
            CrcValue::Crc16(<[u8; 2]>::try_from(b.as_slice()).ok()?)
        }
        "V32" => {
            let b = t.bytes()?;
            CrcValue::Crc32(<[u8; 4]>::try_from(b.as_slice()).ok()?)
        }
        "U" => CrcValue::Unknown(t.u8()?),
        _ => return None,
    })
}
pub fn dtn_address(ssp: &[u8]) -> Option<DtnAddress> {
    // DtnAddress(String) has a private field; its derived Deserialize is the only way to an arbitrary ssp
    let s = String::from_utf8(ssp.to_vec()).ok()?;
    let enc = serde_cbor::to_vec(&s).ok()?;
    serde_cbor::from_slice::<DtnAddress>(&enc).ok()
}
pub fn parse_eid(t: &mut Toks) -> Option<EndpointID> {
    Some(match t.next()? {
        "DTN" => {
            let c = t.u8()?;
            let ssp = t.bytes()?;
            EndpointID::Dtn(c, dtn_address(&ssp)?)
        }
        "NONE" => EndpointID::DtnNone(t.u8()?, t.u8()?),
        "IPN" => {
            let c = t.u8()?;
            EndpointID::Ipn(c, IpnAddress::new(t.u64()?, t.u64()?))
        }
        _ => return None,
    })
}
pub fn parse_data(t: &mut Toks) -> Option<CanonicalData> {
    Some(match t.next()? {
        "DATA" => CanonicalData::Data(t.bytes()?),
        "AGE" => CanonicalData::BundleAge(t.u64()?),
        "HOP" => CanonicalData::HopCount(t.u8()?, t.u8()?),
        "PREV" => CanonicalData::PreviousNode(parse_eid(t)?),
        "UNK" => CanonicalData::Unknown(t.bytes()?),
        "DERR" => CanonicalData::DecodingError,
        _ => return None,
    })
}
pub fn parse_primary(t: &mut Toks) -> Option<PrimaryBlock> {
    t.tag("P")?;
    let version = t.u64()?;
    if version != 7 {
        return None; // the version field cannot be set through the public API
    }
    let mut p = PrimaryBlock::new();
    p.bundle_control_flags = t.u64()?;
    p.crc = parse_crc(t)?;
    p.destination = parse_eid(t)?;
    p.source = parse_eid(t)?;
    p.report_to = parse_eid(t)?;
    let time = t.u64()?;
    let seq = t.u64()?;
    p.creation_timestamp = CreationTimestamp::with_time_and_seq(time, seq);
    p.lifetime = Duration::from_millis(t.u64()?);
    p.fragmentation_offset = t.u64()?;
    p.total_data_length = t.u64()?;
    Some(p)
}
pub fn parse_canonical(t: &mut Toks) -> Option<CanonicalBlock> {
    t.tag("C")?;
    let ty = t.u64()?;
    let num = t.u64()?;
    let fl = t.u8()?;
    let crc = parse_crc(t)?;
    let data = parse_data(t)?;
    CanonicalBlockBuilder::default()
        .block_type(ty)
        .block_number(num)
        .block_control_flags(fl)
        .crc(crc)
        .data(data)
        .build()
        .ok()
}
pub fn parse_bundle(t: &mut Toks) -> Option<Bundle> {
    t.tag("B")?;
    let p = parse_primary(t)?;
    t.tag("[")?;
    let mut cs = Vec::new();
    loop {
        if t.peek()? == "]" {
            t.next();
            break;
        }
        cs.push(parse_canonical(t)?);
    }
    Some(Bundle::new(p, cs))
}

/// `Bundle::crc_valid` asked three times on the same bundle: "T" / "F" when the answers agree and the check left the bundle
/// as it was (a CHECK must not repair, re-stamp or otherwise change what it checks), "U" (unstable) otherwise.
pub fn crc_valid_stable(b: &mut bp7::Bundle) -> &'static str {
    let before = b.clone();
    let v1 = b.crc_valid();
    let unchanged = *b == before;
    let v2 = b.crc_valid();
    let v3 = b.crc_valid();
    if v1 == v2 && v2 == v3 && unchanged && *b == before {
        crate::proto::show_bool(v1)
    } else {
        "U"
    }
}

/// The crate offers several public routes for the same step: Bundle::try_from(&[u8]) / try_from(Vec<u8>) / serde_cbor::from_slice /
/// serde_cbor::from_reader for decoding, Bundle::to_cbor / serde's Serialize for encoding.  `b` is a bundle right after to_cbor() gave
/// `bytes`, `main` what try_from(&[u8]) made of them.  Returns the first route that does not agree with the main one.
pub fn alt_route_diff(b: &Bundle, bytes: &[u8], main: &Option<Bundle>) -> Option<&'static str> {
    use std::convert::TryFrom;
    let same = |r: Option<Bundle>| match (&r, main) {
        (Some(x), Some(y)) => x == y,
        (None, None) => true,
        _ => false,
    };
    if !same(Bundle::try_from(bytes.to_vec()).ok()) {
        return Some("try_from(Vec<u8>)");
    }
    if !same(serde_cbor::from_slice::<Bundle>(bytes).ok()) {
        return Some("serde_cbor::from_slice");
    }
    if !same(serde_cbor::from_reader::<Bundle, _>(bytes).ok()) {
        return Some("serde_cbor::from_reader");
    }
    // serde's Serialize for Bundle writes the stored CRC values (to_cbor has just calculated them): what it emits decodes to the bundle
    match serde_cbor::to_vec(b) {
        Ok(v) => match Bundle::try_from(v.as_slice()) {
            Ok(d) if main.is_none() || d == *b => None,
            Ok(_) => Some("serde_cbor::to_vec(&bundle) then try_from"),
            Err(_) if main.is_none() => None,
            Err(_) => Some("serde_cbor::to_vec(&bundle) does not decode"),
        },
        Err(_) => Some("serde_cbor::to_vec(&bundle) fails"),
    }
}
