//! K-adm (C12): administrative records and status-report bundles on the real code.
//!
//! Case-line grammar (same as coq/theories/Run/RunAdmin.v; `<eid>` / `<bundle>` as in bio.rs):
//!   <bool>   ::= T | F
//!   <item>   ::= I <asserted:bool> <time> <status_requested:bool>
//!   <record> ::= SR <n> <item>*n <reason> <source:eid> <time> <seq> <frag_offset> <frag_len>
//!              | UNK <code> <data> | MIS <code> <data>
//!   <data>   ::= x<hex> | r<count>x<hex>     (the hex pattern repeated <count> <= 2^20 times)
//!   ADMENC <record>   -> OK x<bytes> DEC <record> | OK x<bytes> DEC ERR     (to_vec, then from_slice of the result)
//!   ADMSPEC <record>  -> OK x<bytes>                                        (to_vec; the model answers with the RFC layout)
//!   ADMDEC x<bytes>   -> OK <record> | ERR
//!   SRB <clock_ms> <crc_type> <pos> <reason> <src:eid> <bundle B>
//!                     -> OK <bundle R> V <VALID | INVALID n> REC <record | ERR | NOPAYLOAD>  |  PANIC
//!
//! `CreationTimestamp::now()` keeps a process-global static, so every SRB case runs in a fresh child
//! process (`<harness> --one-srb`, case line on stdin): the call is the first one of its process, like
//! the model's `gen = None`.  The clock comes from `bp7::verif_hooks::set_thread_clock_ms`.
use crate::bio::*;
use crate::proto::*;
use bp7::administrative_record::{
    new_status_report_bundle, AdministrativeRecord, BundleStatusItem, StatusReport,
};
use bp7::{Bundle, CreationTimestamp, EndpointID};
use std::io::{BufRead, Write};
use std::process::{Command, Stdio};

const WATCHDOG_SECS: u64 = 20;

fn get_bool(t: &str) -> Option<bool> {
    match t {
        "T" => Some(true),
        "F" => Some(false),
        _ => None,
    }
}

fn show_item(i: &BundleStatusItem) -> String {
    format!(
        "I {} {} {}",
        show_bool(i.asserted),
        i.time,
        show_bool(i.status_requested)
    )
}

pub fn show_record(r: &AdministrativeRecord) -> String {
    match r {
        AdministrativeRecord::BundleStatusReport(sr) => {
            let mut s = format!("SR {}", sr.status_information.len());
            for i in &sr.status_information {
                s.push(' ');
                s.push_str(&show_item(i));
            }
            s.push_str(&format!(
                " {} {} {} {} {} {}",
                sr.report_reason,
                show_eid(&sr.source_node),
                sr.timestamp.dtntime(),
                sr.timestamp.seqno(),
                sr.frag_offset,
                sr.frag_len
            ));
            s
        }
        AdministrativeRecord::Unknown(c, d) => format!("UNK {} {}", c, show_bytes(d)),
        AdministrativeRecord::Mismatched(c, d) => format!("MIS {} {}", c, show_bytes(d)),
    }
}

fn get_data(t: &str) -> Option<Vec<u8>> {
    match t.strip_prefix('r') {
        Some(rest) => {
            let x = rest.find('x')?;
            let n = get_n(&rest[..x])?;
            let pat = get_bytes(&rest[x..])?;
            if n > 1_048_576 {
                return None;
            }
            Some(pat.repeat(n as usize))
        }
        None => get_bytes(t),
    }
}

/// Err(true) = malformed case line, Err(false) = not expressible in the Rust types (SKIP)
fn parse_record(t: &mut Toks) -> Result<AdministrativeRecord, bool> {
    match t.next().ok_or(true)? {
        "SR" => {
            let n = t.n().ok_or(true)?;
            if n > t.t.len() as u128 {
                return Err(true);
            }
            let mut items = Vec::new();
            for _ in 0..n {
                t.tag("I").ok_or(true)?;
                let asserted = get_bool(t.next().ok_or(true)?).ok_or(true)?;
                let time = t.n().ok_or(true)?;
                let status_requested = get_bool(t.next().ok_or(true)?).ok_or(true)?;
                items.push(BundleStatusItem {
                    asserted,
                    time: u64::try_from(time).map_err(|_| false)?,
                    status_requested,
                });
            }
            let reason = t.n().ok_or(true)?;
            let src = parse_eid(t).ok_or(false)?;
            let time = t.n().ok_or(true)?;
            let seq = t.n().ok_or(true)?;
            let off = t.n().ok_or(true)?;
            let len = t.n().ok_or(true)?;
            let u = |x: u128| u64::try_from(x).map_err(|_| false);
            Ok(AdministrativeRecord::BundleStatusReport(StatusReport {
                status_information: items,
                report_reason: u32::try_from(reason).map_err(|_| false)?,
                source_node: src,
                timestamp: CreationTimestamp::with_time_and_seq(u(time)?, u(seq)?),
                frag_offset: u(off)?,
                frag_len: u(len)?,
            }))
        }
        k @ ("UNK" | "MIS") => {
            let code = t.n().ok_or(true)?;
            let data = get_data(t.next().ok_or(true)?).ok_or(true)?;
            let code = u32::try_from(code).map_err(|_| false)?;
            Ok(if k == "UNK" {
                AdministrativeRecord::Unknown(code, data)
            } else {
                AdministrativeRecord::Mismatched(code, data)
            })
        }
        _ => Err(true),
    }
}

fn record_arg(args: &[&str]) -> Result<AdministrativeRecord, String> {
    let mut t = Toks::new(args);
    match parse_record(&mut t) {
        Ok(r) if t.done() => Ok(r),
        Ok(_) | Err(true) => Err("BADCASE".into()),
        Err(false) => Err("SKIP".into()),
    }
}

fn show_dec(bytes: &[u8]) -> String {
    match serde_cbor::from_slice::<AdministrativeRecord>(bytes) {
        Ok(r) => show_record(&r),
        Err(_) => "ERR".into(),
    }
}

/// ADMENC <record>
pub fn admenc(args: &[&str]) -> String {
    let r = match record_arg(args) {
        Ok(r) => r,
        Err(e) => return e,
    };
    match serde_cbor::to_vec(&r) {
        Ok(bytes) => format!("OK {} DEC {}", show_bytes(&bytes), show_dec(&bytes)),
        Err(_) => "ERR".into(),
    }
}

/// ADMSPEC <record>
pub fn admspec(args: &[&str]) -> String {
    let r = match record_arg(args) {
        Ok(r) => r,
        Err(e) => return e,
    };
    match serde_cbor::to_vec(&r) {
        Ok(bytes) => format!("OK {}", show_bytes(&bytes)),
        Err(_) => "ERR".into(),
    }
}

/// ADMDEC x<bytes>
pub fn admdec(args: &[&str]) -> String {
    match args {
        [t] => match get_bytes(t) {
            Some(b) => match serde_cbor::from_slice::<AdministrativeRecord>(&b) {
                Ok(r) => format!("OK {}", show_record(&r)),
                Err(_) => "ERR".into(),
            },
            None => "BADCASE".into(),
        },
        _ => "BADCASE".into(),
    }
}

struct SrbCase {
    clock: u64,
    crc_type: u8,
    pos: u32,
    reason: u32,
    src: EndpointID,
    b: Bundle,
}

fn parse_srb(args: &[&str]) -> Result<SrbCase, &'static str> {
    let mut t = Toks::new(args);
    let clock = t.n().ok_or("BADCASE")?;
    let crc = t.n().ok_or("BADCASE")?;
    let pos = t.n().ok_or("BADCASE")?;
    let reason = t.n().ok_or("BADCASE")?;
    let clock = u64::try_from(clock).map_err(|_| "SKIP")?;
    let crc_type = u8::try_from(crc).map_err(|_| "SKIP")?;
    let pos = u32::try_from(pos).map_err(|_| "SKIP")?;
    let reason = u32::try_from(reason).map_err(|_| "SKIP")?;
    let src = parse_eid(&mut t).ok_or("SKIP")?;
    let b = parse_bundle(&mut t).ok_or("SKIP")?;
    if !t.done() {
        return Err("BADCASE");
    }
    Ok(SrbCase {
        clock,
        crc_type,
        pos,
        reason,
        src,
        b,
    })
}

fn execute_srb(c: SrbCase) -> String {
    bp7::verif_hooks::set_thread_clock_ms(Some(c.clock));
    let SrbCase {
        crc_type,
        pos,
        reason,
        src,
        b,
        ..
    } = c;
    let res =
        std::panic::catch_unwind(move || new_status_report_bundle(&b, src, crc_type, pos, reason));
    bp7::verif_hooks::set_thread_clock_ms(None);
    match res {
        Err(_) => "PANIC".into(),
        Ok(r) => {
            let validity = match r.validate() {
                Ok(()) => "VALID".to_string(),
                Err(e) => format!("INVALID {}", e.len()),
            };
            let rec = match r.payload() {
                Some(d) => show_dec(d),
                None => "NOPAYLOAD".into(),
            };
            format!("OK {} V {} REC {}", show_bundle(&r), validity, rec)
        }
    }
}

/// Parent side: run one SRB case in a freshly spawned copy of this executable.
pub fn srb(args: &[&str]) -> String {
    if let Err(e) = parse_srb(args) {
        return e.into();
    }
    let exe = match std::env::current_exe() {
        Ok(e) => e,
        Err(_) => return "ABORT".into(),
    };
    let child = Command::new(exe)
        .arg("--one-srb")
        .stdin(Stdio::piped())
        .stdout(Stdio::piped())
        .stderr(Stdio::null())
        .spawn();
    let mut child = match child {
        Ok(c) => c,
        Err(_) => return "ABORT".into(),
    };
    {
        let mut stdin = child.stdin.take().expect("piped stdin");
        let _ = writeln!(stdin, "SRB {}", args.join(" "));
    }
    match child.wait_with_output() {
        Ok(o) => {
            let text = String::from_utf8_lossy(&o.stdout);
            match text.lines().next() {
                Some(l) if !l.is_empty() => l.to_string(),
                _ => "ABORT".into(),
            }
        }
        Err(_) => "ABORT".into(),
    }
}

/// `PAIR SRB .. || SRB ..`: all the reports are made one after the other by ONE thread of one fresh child process (state that a
/// report generator keeps between calls is shared); answers joined by ` || `.
pub fn srb_many(segs: &[&[&str]]) -> String {
    for s in segs {
        if s.first() != Some(&"SRB") || parse_srb(&s[1..]).is_err() {
            return segs.iter().map(|s| if s.first() == Some(&"SRB") { srb(&s[1..]) } else { "BADCASE".to_string() }).collect::<Vec<_>>().join(" || ");
        }
    }
    let exe = match std::env::current_exe() {
        Ok(e) => e,
        Err(_) => return "ABORT".into(),
    };
    let mut child = match Command::new(exe).arg("--one-srb").stdin(Stdio::piped()).stdout(Stdio::piped()).stderr(Stdio::null()).spawn() {
        Ok(c) => c,
        Err(_) => return "ABORT".into(),
    };
    {
        let mut stdin = child.stdin.take().expect("piped stdin");
        let body: Vec<String> = segs.iter().map(|s| s[1..].join(" ")).collect();
        let _ = writeln!(stdin, "SRBS {}", body.join(" || "));
    }
    match child.wait_with_output() {
        Ok(o) => {
            let text = String::from_utf8_lossy(&o.stdout);
            match text.lines().next() {
                Some(l) if !l.is_empty() => l.to_string(),
                _ => "ABORT".into(),
            }
        }
        Err(_) => "ABORT".into(),
    }
}

/// Child side (`--one-srb`): read one case line from stdin, execute it, print one result line.
pub fn srb_child_main() {
    std::panic::set_hook(Box::new(|_| {}));
    std::thread::spawn(|| {
        std::thread::sleep(std::time::Duration::from_secs(WATCHDOG_SECS));
        println!("TIMEOUT");
        std::process::exit(3);
    });
    let mut line = String::new();
    let _ = std::io::stdin().lock().read_line(&mut line);
    let toks: Vec<&str> = line.split_whitespace().collect();
    let out = if toks.first() == Some(&"SRBS") {
        toks[1..]
            .split(|t| *t == "||")
            .map(|seg| match parse_srb(seg) {
                Ok(c) => execute_srb(c),
                Err(e) => e.to_string(),
            })
            .collect::<Vec<_>>()
            .join(" || ")
    } else {
        let args: &[&str] = match toks.first() {
            Some(&"SRB") => &toks[1..],
            _ => &toks[..],
        };
        match parse_srb(args) {
            Ok(c) => execute_srb(c),
            Err(e) => e.to_string(),
        }
    };
    println!("{}", out);
    let _ = std::io::stdout().flush();
    std::process::exit(0);
}
