//! K-api: the public constructors, builders and per-block operations (mirrors coq/theories/Run/RunApi.v).
use crate::bio::*;
use crate::proto::*;
use bp7::bundle::{Bundle, BundleBuilder};
use bp7::canonical::*;
use bp7::flags::BlockControlFlags;
use bp7::primary::{PrimaryBlock, PrimaryBlockBuilder};
use bp7::CreationTimestamp;
use std::time::Duration;

fn bcf(x: u8) -> BlockControlFlags {
    BlockControlFlags::from_bits_retain(x)
}
fn opt<T>(o: Option<T>, f: impl Fn(T) -> String) -> String {
    match o {
        Some(x) => f(x),
        None => "-".into(),
    }
}
fn show_accessors(c: &CanonicalBlock) -> String {
    format!(
        "PD {} HG {} HX {} AG {} PG {} EV {}",
        opt(c.payload_data(), |d| show_bytes(d)),
        opt(c.hop_count_get(), |(l, k)| format!("{} {}", l, k)),
        show_bool(c.hop_count_exceeded()),
        opt(c.bundle_age_get(), |a| a.to_string()),
        opt(c.previous_node_get(), show_eid),
        show_bool(c.extension_validation().is_ok())
    )
}
fn show_block(c: &CanonicalBlock) -> String {
    format!("{} {}", show_canonical(c), show_accessors(c))
}
fn show_validity(b: &Bundle) -> String {
    match b.validate() {
        Ok(()) => "VALID".into(),
        Err(e) => format!("INVALID {}", e.len()),
    }
}
/// `- ` = setter not called, `+ v` = called with v
fn popt<T>(t: &mut Toks, p: impl Fn(&mut Toks) -> Option<T>) -> Option<Option<T>> {
    match t.next()? {
        "-" => Some(None),
        "+" => Some(Some(p(t)?)),
        _ => None,
    }
}

fn blk(t: &mut Toks) -> Option<String> {
    let c = match t.next()? {
        "HOP" => {
            let (n, f, l) = (t.u64()?, t.u8()?, t.u8()?);
            new_hop_count_block(n, bcf(f), l)
        }
        "AGE" => {
            let (n, f, a) = (t.u64()?, t.u8()?, t.u64()?);
            new_bundle_age_block(n, bcf(f), a)
        }
        "PREV" => {
            let (n, f) = (t.u64()?, t.u8()?);
            let e = parse_eid(t)?;
            new_previous_node_block(n, bcf(f), e)
        }
        "PAYLOAD" => {
            let f = t.u8()?;
            new_payload_block(bcf(f), t.bytes()?)
        }
        "CANON" => {
            let (ty, n, f) = (t.u64()?, t.u64()?, t.u8()?);
            new_canonical_block(ty, n, f, parse_data(t)?)
        }
        "NEW" => CanonicalBlock::new(),
        "DEFAULT" => CanonicalBlock::default(),
        "BUILD" => {
            let mut b = CanonicalBlockBuilder::new();
            if let Some(x) = popt(t, |t| t.u64())? {
                b = b.block_type(x);
            }
            if let Some(x) = popt(t, |t| t.u64())? {
                b = b.block_number(x);
            }
            if let Some(x) = popt(t, |t| t.u8())? {
                b = b.block_control_flags(x);
            }
            if let Some(x) = popt(t, parse_crc)? {
                b = b.crc(x);
            }
            if let Some(x) = popt(t, parse_data)? {
                b = b.data(x);
            }
            if !t.done() {
                return None;
            }
            return Some(match b.build() {
                Ok(c) => format!("OK {}", show_block(&c)),
                Err(_) => "ERR".into(),
            });
        }
        _ => return None,
    };
    if !t.done() {
        return None;
    }
    Some(format!("OK {}", show_block(&c)))
}

fn bops(t: &mut Toks) -> Option<String> {
    let mut c = parse_canonical(t)?;
    let mut out = String::from("OK");
    while !t.done() {
        t.tag(";")?;
        let ret = match t.next()? {
            "HOPINC" => c.hop_count_increase(),
            "AGEUPD" => {
                let n = t.n()?;
                c.bundle_age_update(n)
            }
            "PREVUPD" => {
                let e = parse_eid(t)?;
                c.previous_node_update(e)
            }
            _ => return None,
        };
        out.push_str(&format!(" ; {} {}", show_bool(ret), show_block(&c)));
    }
    Some(out)
}

fn show_primary_validity(p: &PrimaryBlock) -> String {
    match p.validate() {
        Ok(()) => "VALID".into(),
        Err(e) => format!("INVALID {}", e.len()),
    }
}
fn pb(t: &mut Toks) -> Option<String> {
    let mut b = PrimaryBlockBuilder::new();
    if let Some(x) = popt(t, |t| t.u64())? {
        b = b.bundle_control_flags(x);
    }
    if let Some(x) = popt(t, parse_crc)? {
        b = b.crc(x);
    }
    if let Some(x) = popt(t, parse_eid)? {
        b = b.destination(x);
    }
    if let Some(x) = popt(t, parse_eid)? {
        b = b.source(x);
    }
    if let Some(x) = popt(t, parse_eid)? {
        b = b.report_to(x);
    }
    if let Some((time, seq)) = popt(t, |t| Some((t.u64()?, t.u64()?)))? {
        b = b.creation_timestamp(CreationTimestamp::with_time_and_seq(time, seq));
    }
    if let Some(x) = popt(t, |t| t.u64())? {
        b = b.lifetime(Duration::from_millis(x));
    }
    if let Some(x) = popt(t, |t| t.u64())? {
        b = b.fragmentation_offset(x);
    }
    if let Some(x) = popt(t, |t| t.u64())? {
        b = b.total_data_length(x);
    }
    if !t.done() {
        return None;
    }
    Some(match b.build() {
        Ok(p) => format!("OK {} {}", show_primary(&p), show_primary_validity(&p)),
        Err(_) => "ERR".into(),
    })
}

fn newprim(t: &mut Toks) -> Option<String> {
    let d = String::from_utf8(t.bytes()?).ok()?;
    let s = String::from_utf8(t.bytes()?).ok()?;
    let (time, seq, life) = (t.u64()?, t.u64()?, t.u64()?);
    if !t.done() {
        return None;
    }
    let p = bp7::primary::new_primary_block(&d, &s, CreationTimestamp::with_time_and_seq(time, seq), Duration::from_millis(life));
    Some(format!("OK {}", show_primary(&p)))
}

fn blocks(t: &mut Toks) -> Option<Vec<CanonicalBlock>> {
    t.tag("[")?;
    let mut cs = Vec::new();
    loop {
        if t.peek()? == "]" {
            t.next();
            return Some(cs);
        }
        cs.push(parse_canonical(t)?);
    }
}
fn bb(t: &mut Toks) -> Option<String> {
    let mut b = BundleBuilder::new();
    if let Some(p) = popt(t, parse_primary)? {
        b = b.primary(p);
    }
    if let Some(cs) = popt(t, blocks)? {
        b = b.canonicals(cs);
    }
    if let Some(d) = popt(t, |t| t.bytes())? {
        b = b.payload(d);
    }
    if !t.done() {
        return None;
    }
    Some(match b.build() {
        Ok(b) => format!("OK {} {}", show_bundle(&b), show_validity(&b)),
        Err(_) => "ERR".into(),
    })
}

fn std_bundle(t: &mut Toks) -> Option<String> {
    let s = parse_eid(t)?;
    let d = parse_eid(t)?;
    let data = t.bytes()?;
    let clock = t.u64()?;
    if !t.done() {
        return None;
    }
    bp7::verif_hooks::set_thread_clock_ms(Some(clock));
    let r = std::panic::catch_unwind(|| bp7::bundle::new_std_payload_bundle(s, d, data));
    bp7::verif_hooks::set_thread_clock_ms(None);
    Some(match r {
        Ok(mut b) => {
            // the sequence number comes from the process-wide generator (property C09): not part of this comparison
            b.primary.creation_timestamp = CreationTimestamp::with_time_and_seq(b.primary.creation_timestamp.dtntime(), 0);
            format!("OK {} {}", show_bundle(&b), show_validity(&b))
        }
        Err(_) => "PANIC".into(),
    })
}

/// API <sub-command> ...
pub fn api(args: &[&str]) -> String {
    let mut t = Toks::new(args);
    let r = match t.next() {
        Some("BLK") => blk(&mut t),
        Some("BOPS") => bops(&mut t),
        Some("PB") => pb(&mut t),
        Some("PNEW") => Some(format!("OK {} {}", show_primary(&PrimaryBlock::new()), show_primary(&PrimaryBlock::default()))),
        Some("NEWPRIM") => newprim(&mut t),
        Some("BB") => bb(&mut t),
        Some("BDEFAULT") => {
            let b = Bundle::default();
            Some(format!("OK {} {}", show_bundle(&b), show_validity(&b)))
        }
        Some("STD") => std_bundle(&mut t),
        Some("PREVNODE") => parse_bundle(&mut t).map(|b| format!("OK {}", opt(b.previous_node(), show_eid))),
        _ => None,
    };
    r.unwrap_or_else(|| "SKIP".into())
}
