use crate::bio::*;
use crate::proto::*;
use bp7::Bundle;
use std::convert::TryFrom;

/// DEC x<bytes>  ->  OK <bundle> | ERR
pub fn dec(args: &[&str]) -> String {
    match args {
        [t] => match get_bytes(t) {
            Some(b) => match Bundle::try_from(b.as_slice()) {
                Ok(bndl) => format!("OK {}", show_bundle(&bndl)),
                Err(_) => "ERR".into(),
            },
            None => "BADCASE".into(),
        },
        _ => "BADCASE".into(),
    }
}
/// ENC <bundle>  ->  OK x<bytes> <bundle after to_cbor>
pub fn enc(args: &[&str]) -> String {
    let mut t = Toks::new(args);
    match parse_bundle(&mut t) {
        Some(mut b) if t.done() => {
            let bytes = b.to_cbor();
            format!("OK {} {}", show_bytes(&bytes), show_bundle(&b))
        }
        _ => "SKIP".into(),
    }
}
/// CRCV x<bytes>  ->  OK T|F (decode, then crc_valid) | ERR
pub fn crcv(args: &[&str]) -> String {
    match args {
        [t] => match get_bytes(t) {
            Some(b) => match Bundle::try_from(b.as_slice()) {
                Ok(mut bndl) => format!("OK {}", crc_valid_stable(&mut bndl)),
                Err(_) => "ERR".into(),
            },
            None => "BADCASE".into(),
        },
        _ => "BADCASE".into(),
    }
}

/// RT <bundle> -> OK x<bytes> <b'> DECODED (OK <bundle> | ERR) AGAIN x<bytes2>
pub fn rt(args: &[&str]) -> String {
    let mut t = Toks::new(args);
    match parse_bundle(&mut t) {
        Some(mut b) if t.done() => {
            let bytes = b.to_cbor();
            let shown = show_bundle(&b);
            let main = Bundle::try_from(bytes.as_slice()).ok();
            if let Some(route) = crate::bio::alt_route_diff(&b, &bytes, &main) {
                return format!("ALTDIFF {}", route);
            }
            let dec = match main {
                Some(d) => format!("OK {}", show_bundle(&d)),
                None => "ERR".into(),
            };
            let bytes2 = b.to_cbor();
            format!("OK {} {} DECODED {} AGAIN {}", show_bytes(&bytes), shown, dec, show_bytes(&bytes2))
        }
        _ => "SKIP".into(),
    }
}
/// RTV <bundle> -> OK MEM T|F WIRE (OK T|F | ERR): crc_valid of the bundle just encoded and of its decoded wire image
pub fn rtv(args: &[&str]) -> String {
    let mut t = Toks::new(args);
    match parse_bundle(&mut t) {
        Some(mut b) if t.done() => {
            let bytes = b.to_cbor();
            let mem = crc_valid_stable(&mut b);
            let wire = match Bundle::try_from(bytes.as_slice()) {
                Ok(mut d) => format!("OK {}", crc_valid_stable(&mut d)),
                Err(_) => "ERR".into(),
            };
            format!("OK MEM {} WIRE {}", mem, wire)
        }
        _ => "SKIP".into(),
    }
}
/// SERDE <bundle> -> OK x<serde_cbor::to_vec(&bundle) after to_cbor> DECODED OK <bundle> | ERR
pub fn serde(args: &[&str]) -> String {
    let mut t = Toks::new(args);
    match parse_bundle(&mut t) {
        Some(mut b) if t.done() => {
            let _ = b.to_cbor();
            let bytes = serde_cbor::to_vec(&b).expect("Bundle serializes");
            let dec = match Bundle::try_from(bytes.as_slice()) {
                Ok(d) => format!("OK {}", show_bundle(&d)),
                Err(_) => "ERR".into(),
            };
            format!("OK {} DECODED {}", show_bytes(&bytes), dec)
        }
        _ => "SKIP".into(),
    }
}
/// SPEC <bundle> -> OK x<bytes of to_cbor>   (the model side prints the RFC 9171 specification encoding)
pub fn spec(args: &[&str]) -> String {
    let mut t = Toks::new(args);
    match parse_bundle(&mut t) {
        Some(mut b) if t.done() => format!("OK {}", show_bytes(&b.to_cbor())),
        _ => "SKIP".into(),
    }
}
/// DECRT x<bytes> -> OK <bundle> V T|F RE x<bytes> | ERR
pub fn decrt(args: &[&str]) -> String {
    match args {
        [t] => match get_bytes(t) {
            Some(b) => match Bundle::try_from(b.as_slice()) {
                Ok(mut bndl) => {
                    let shown = show_bundle(&bndl);
                    let v = crc_valid_stable(&mut bndl);
                    let re = bndl.to_cbor();
                    format!("OK {} V {} RE {}", shown, v, show_bytes(&re))
                }
                Err(_) => "ERR".into(),
            },
            None => "BADCASE".into(),
        },
        _ => "BADCASE".into(),
    }
}
pub fn crc16(args: &[&str]) -> String {
    match args {
        [t] => match get_bytes(t) {
            Some(b) => format!("OK {}", bp7::crc::X25.checksum(&b)),
            None => "BADCASE".into(),
        },
        _ => "BADCASE".into(),
    }
}
pub fn crc32(args: &[&str]) -> String {
    match args {
        [t] => match get_bytes(t) {
            Some(b) => format!("OK {}", bp7::crc::CASTAGNOLI.checksum(&b)),
            None => "BADCASE".into(),
        },
        _ => "BADCASE".into(),
    }
}

/// DECA x<bytes> -> (OK|ERR) PEAK <bytes>: decode under the counting allocator; PEAK = high-water mark of the bytes
/// allocated by the decoder above the level before the call (implementation only; the model prints NA)
pub fn deca(args: &[&str]) -> String {
    match args {
        [t] => match get_bytes(t) {
            Some(b) => {
                let base = crate::chan_ffi::live_bytes();
                crate::chan_ffi::peak_reset();
                let r = Bundle::try_from(b.as_slice());
                let peak = crate::chan_ffi::peak_above(base);
                let tag = if r.is_ok() { "OK" } else { "ERR" };
                drop(r);
                format!("{} PEAK {}", tag, peak)
            }
            None => "BADCASE".into(),
        },
        _ => "BADCASE".into(),
    }
}

/// RTBIG <n extension blocks> <payload length> <crc kind 0|1|2|3=mixed> -> OK RT T|F IDEM T|F V T|F|U LEN <n> H <fnv-1a 64 of the bytes>
/// Sizes the Coq model cannot evaluate in reasonable time (>= 65536 array elements, blocks beyond 64 KiB); implementation only,
/// judged by the oracle: the bundle is built by a fixed rule from the three numbers (tools/genb.py big_bundle builds the same one
/// for the reference encoder), extension block i (type 192, number i + 2, flags i mod 3, data = decimal digits of i), payload
/// byte j = (7 j + 3) mod 251.
pub fn rtbig(args: &[&str]) -> String {
    let (n, plen, kind) = match args {
        [a, b, c] => match (get_u64(a), get_u64(b), get_u64(c)) {
            (Some(a), Some(b), Some(c)) if a <= 200_000 && b <= 4_000_000 && c <= 3 => (a, b, c),
            _ => return "BADCASE".into(),
        },
        _ => return "BADCASE".into(),
    };
    let crc_of = |i: u64| -> &'static str {
        match if kind == 3 { i % 3 } else { kind } {
            0 => "N",
            1 => "E16",
            _ => "E32",
        }
    };
    let mut line = format!("B P 7 0 {} DTN 1 x2f2f6e6f6465322f696e DTN 1 x2f2f6e6f6465312f6f7574 NONE 1 0 1000 1 3600000 0 0 [", crc_of(1));
    for i in (0..n).rev() {
        let digits: String = i.to_string().bytes().map(|b| format!("{:02x}", b)).collect();
        line.push_str(&format!(" C 192 {} {} {} UNK x{}", i + 2, i % 3, crc_of(i), digits));
    }
    let payload: String = (0..plen).map(|j| format!("{:02x}", (7 * j + 3) % 251)).collect();
    line.push_str(&format!(" C 1 1 0 {} DATA x{} ]", crc_of(2), payload));
    let toks: Vec<&str> = line.split(' ').collect();
    let mut t = Toks::new(&toks);
    let mut b = match parse_bundle(&mut t) {
        Some(b) => b,
        None => return "BADCASE".into(),
    };
    let bytes = b.to_cbor();
    let (rt, v) = match Bundle::try_from(bytes.as_slice()) {
        Ok(mut d) => (d == b, crc_valid_stable(&mut d)),
        Err(_) => (false, "F"),
    };
    let again = b.to_cbor();
    let mut h: u64 = 0xcbf29ce484222325;
    for x in &bytes {
        h ^= *x as u64;
        h = h.wrapping_mul(0x100000001b3);
    }
    format!("OK RT {} IDEM {} V {} LEN {} H {}", show_bool(rt), show_bool(again == bytes), v, bytes.len(), h)
}
