use crate::bio::*;
use crate::proto::*;
use bp7::Bundle;
use std::convert::TryFrom;

/// DEC x<bytes>  ->  OK <bundle> | ERR
pub fn dec(args: &[&str]) -> String {
    match args {
        [t] => match get_bytes(t) {
            Some(b) => match Bundle::try_from(b.as_slice()) {
                Ok(bndl) => format!("OK {}", show_bundle(&bndl)),
                Err(_) => "ERR".into(),
            },
            None => "BADCASE".into(),
        },
        _ => "BADCASE".into(),
    }
}
/// ENC <bundle>  ->  OK x<bytes> <bundle after to_cbor>
pub fn enc(args: &[&str]) -> String {
    let mut t = Toks::new(args);
    match parse_bundle(&mut t) {
        Some(mut b) if t.done() => {
            let bytes = b.to_cbor();
            format!("OK {} {}", show_bytes(&bytes), show_bundle(&b))
        }
        _ => "SKIP".into(),
    }
}
/// CRCV x<bytes>  ->  OK T|F (decode, then crc_valid) | ERR
pub fn crcv(args: &[&str]) -> String {
    match args {
        [t] => match get_bytes(t) {
            Some(b) => match Bundle::try_from(b.as_slice()) {
                Ok(mut bndl) => format!("OK {}", show_bool(bndl.crc_valid())),
                Err(_) => "ERR".into(),
            },
            None => "BADCASE".into(),
        },
        _ => "BADCASE".into(),
    }
}

/// RT <bundle> -> OK x<bytes> <b'> DECODED (OK <bundle> | ERR) AGAIN x<bytes2>
pub fn rt(args: &[&str]) -> String {
    let mut t = Toks::new(args);
    match parse_bundle(&mut t) {
        Some(mut b) if t.done() => {
            let bytes = b.to_cbor();
            let shown = show_bundle(&b);
            let dec = match Bundle::try_from(bytes.as_slice()) {
                Ok(d) => format!("OK {}", show_bundle(&d)),
                Err(_) => "ERR".into(),
            };
            let bytes2 = b.to_cbor();
            format!("OK {} {} DECODED {} AGAIN {}", show_bytes(&bytes), shown, dec, show_bytes(&bytes2))
        }
        _ => "SKIP".into(),
    }
}
/// RTV <bundle> -> OK MEM T|F WIRE (OK T|F | ERR): crc_valid of the bundle just encoded and of its decoded wire image
pub fn rtv(args: &[&str]) -> String {
    let mut t = Toks::new(args);
    match parse_bundle(&mut t) {
        Some(mut b) if t.done() => {
            let bytes = b.to_cbor();
            let mem = b.crc_valid();
            let wire = match Bundle::try_from(bytes.as_slice()) {
                Ok(mut d) => format!("OK {}", show_bool(d.crc_valid())),
                Err(_) => "ERR".into(),
            };
            format!("OK MEM {} WIRE {}", show_bool(mem), wire)
        }
        _ => "SKIP".into(),
    }
}
/// SPEC <bundle> -> OK x<bytes of to_cbor>   (the model side prints the RFC 9171 specification encoding)
pub fn spec(args: &[&str]) -> String {
    let mut t = Toks::new(args);
    match parse_bundle(&mut t) {
        Some(mut b) if t.done() => format!("OK {}", show_bytes(&b.to_cbor())),
        _ => "SKIP".into(),
    }
}
/// DECRT x<bytes> -> OK <bundle> V T|F RE x<bytes> | ERR
pub fn decrt(args: &[&str]) -> String {
    match args {
        [t] => match get_bytes(t) {
            Some(b) => match Bundle::try_from(b.as_slice()) {
                Ok(mut bndl) => {
                    let shown = show_bundle(&bndl);
                    let v = bndl.crc_valid();
                    let re = bndl.to_cbor();
                    format!("OK {} V {} RE {}", shown, show_bool(v), show_bytes(&re))
                }
                Err(_) => "ERR".into(),
            },
            None => "BADCASE".into(),
        },
        _ => "BADCASE".into(),
    }
}
pub fn crc16(args: &[&str]) -> String {
    match args {
        [t] => match get_bytes(t) {
            Some(b) => format!("OK {}", bp7::crc::X25.checksum(&b)),
            None => "BADCASE".into(),
        },
        _ => "BADCASE".into(),
    }
}
pub fn crc32(args: &[&str]) -> String {
    match args {
        [t] => match get_bytes(t) {
            Some(b) => format!("OK {}", bp7::crc::CASTAGNOLI.checksum(&b)),
            None => "BADCASE".into(),
        },
        _ => "BADCASE".into(),
    }
}

/// DECA x<bytes> -> (OK|ERR) PEAK <bytes>: decode under the counting allocator; PEAK = high-water mark of the bytes
/// allocated by the decoder above the level before the call (implementation only; the model prints NA)
pub fn deca(args: &[&str]) -> String {
    match args {
        [t] => match get_bytes(t) {
            Some(b) => {
                let base = crate::chan_ffi::live_bytes();
                crate::chan_ffi::peak_reset();
                let r = Bundle::try_from(b.as_slice());
                let peak = crate::chan_ffi::peak_above(base);
                let tag = if r.is_ok() { "OK" } else { "ERR" };
                drop(r);
                format!("{} PEAK {}", tag, peak)
            }
            None => "BADCASE".into(),
        },
        _ => "BADCASE".into(),
    }
}
