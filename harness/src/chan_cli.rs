//! K-cli: run the real `bp7` binary as a child process (case-line grammar: coq/theories/Run/RunCli.v).
//!
//!   CLI <clock> <nargs> x<arg0> .. x<argN-1> x<stdin> <nfiles> x<name> x<content> ..
//!   (every x<hex> byte string may be continued by +<hex> tokens)
//!
//! The binary is taken from the environment variable BP7_CLI_BIN (built from /repo with
//! RUSTFLAGS="--cfg bp7_verif", so that helpers::ts_ms() honours BP7_VERIF_CLOCK_MS).  Files are written
//! to a fresh directory below BP7_CLI_TMP (default /verif/.cache/cli-tmp); the child's working directory is
//! an empty sub-directory of it; everything is removed afterwards.
use crate::proto::*;
use bp7::Bundle;
use std::convert::TryFrom;
use std::ffi::OsString;
use std::io::Write;
use std::os::unix::ffi::OsStringExt;
use std::os::unix::process::{CommandExt, ExitStatusExt};
use std::path::PathBuf;
use std::process::{Command, Stdio};
use std::sync::atomic::{AtomicUsize, Ordering};

static COUNTER: AtomicUsize = AtomicUsize::new(0);

struct Case {
    clock: u64,
    argv: Vec<Vec<u8>>,
    stdin: Vec<u8>,
    files: Vec<(Vec<u8>, Vec<u8>)>,
}

fn small_count(t: &str, bound: usize) -> Option<usize> {
    let n = get_n(t)?;
    if n <= bound as u128 {
        Some(n as usize)
    } else {
        None
    }
}

/// one byte string: a token x<hex> followed by any number of continuation tokens +<hex>
fn take_bytes(ts: &[&str], pos: &mut usize) -> Option<Vec<u8>> {
    let mut out = get_bytes(ts.get(*pos)?)?;
    *pos += 1;
    while let Some(t) = ts.get(*pos) {
        let h = match t.strip_prefix('+') {
            Some(h) => h,
            None => break,
        };
        // a malformed continuation is left in place (the line is then rejected as a whole)
        match get_bytes(&format!("x{}", h)) {
            Some(b) => out.extend(b),
            None => break,
        }
        *pos += 1;
    }
    Some(out)
}

fn parse(args: &[&str]) -> Option<Case> {
    if args.len() < 2 {
        return None;
    }
    let clock = get_n(args[0])?;
    let rest = &args[2..];
    let nargs = small_count(args[1], rest.len())?;
    let mut pos = 0;
    let mut argv = Vec::new();
    for _ in 0..nargs {
        argv.push(take_bytes(rest, &mut pos)?);
    }
    let stdin = take_bytes(rest, &mut pos)?;
    let tf = rest.get(pos)?;
    pos += 1;
    let nf = small_count(tf, rest.len() - pos)?;
    let mut files = Vec::new();
    for _ in 0..nf {
        let name = take_bytes(rest, &mut pos)?;
        let content = take_bytes(rest, &mut pos)?;
        files.push((name, content));
    }
    if pos != rest.len() {
        return None;
    }
    let clock = u64::try_from(clock).ok()?;
    if nargs == 0 || argv.iter().any(|a| a.contains(&0)) {
        return None;
    }
    if !files.iter().all(|(n, _)| n.first() == Some(&b'@') && !n.contains(&0)) {
        return None;
    }
    Some(Case { clock, argv, stdin, files })
}

struct TmpDir(PathBuf);
impl Drop for TmpDir {
    fn drop(&mut self) {
        let _ = std::fs::remove_dir_all(&self.0);
    }
}

/// What `rnd` must satisfy: stdout (hex text, surrounding white space ignored; or raw bytes with -r) decodes to a bundle that
/// validates, and stderr is that bundle's id (surrounding white space ignored).
fn rnd_oracle(argv: &[Vec<u8>], stdout: &[u8], stderr: &[u8]) -> (bool, bool) {
    let raw = argv.len() == 3 && argv[2] == b"-r";
    let bytes: Option<Vec<u8>> = if raw {
        Some(stdout.to_vec())
    } else {
        std::str::from_utf8(stdout)
            .ok()
            .and_then(|s| bp7::helpers::unhexify(s.trim()).ok())
    };
    let bndl = bytes.and_then(|b| std::panic::catch_unwind(|| Bundle::try_from(b).ok()).ok().flatten());
    match bndl {
        Some(b) => {
            let valid = b.validate().is_ok();
            let id = b.id();
            (valid, std::str::from_utf8(stderr).map(|e| e.trim() == id.trim()).unwrap_or(false))
        }
        None => (false, false),
    }
}

pub fn cli(args: &[&str]) -> String {
    let case = match parse(args) {
        Some(c) => c,
        None => return "BADCASE".into(),
    };
    let bin = match std::env::var_os("BP7_CLI_BIN") {
        Some(b) => b,
        None => return "NOBIN".into(),
    };
    let base = std::env::var_os("BP7_CLI_TMP").unwrap_or_else(|| OsString::from("/verif/.cache/cli-tmp"));
    let n = COUNTER.fetch_add(1, Ordering::SeqCst);
    let dir = TmpDir(PathBuf::from(base).join(format!("{}-{}", std::process::id(), n)));
    // the child runs in an empty sub-directory, so that a relative argument never names one of the files
    let cwd = dir.0.join("cwd");
    if std::fs::create_dir_all(&cwd).is_err() {
        return "NOTMP".into();
    }
    // the first pair with a given name wins (Cli.lookup)
    let mut paths: Vec<(Vec<u8>, PathBuf)> = Vec::new();
    for (k, (name, content)) in case.files.iter().enumerate() {
        if paths.iter().any(|(n, _)| n == name) {
            continue;
        }
        let p = dir.0.join(format!("f{}", k));
        if std::fs::write(&p, content).is_err() {
            return "NOTMP".into();
        }
        paths.push((name.clone(), p));
    }
    let mut cmd = Command::new(&bin);
    cmd.arg0(OsString::from_vec(case.argv[0].clone()));
    for (k, a) in case.argv.iter().enumerate().skip(1) {
        let sub = if k >= 2 { paths.iter().find(|(n, _)| n == a) } else { None };
        match sub {
            Some((_, p)) => cmd.arg(p),
            None => cmd.arg(OsString::from_vec(a.clone())),
        };
    }
    cmd.env("BP7_VERIF_CLOCK_MS", case.clock.to_string())
        .env_remove("RUST_BACKTRACE")
        .current_dir(&cwd)
        .stdin(Stdio::piped())
        .stdout(Stdio::piped())
        .stderr(Stdio::piped());
    let mut child = match cmd.spawn() {
        Ok(c) => c,
        Err(_) => return "NOSPAWN".into(),
    };
    let mut sin = child.stdin.take().expect("stdin");
    let data = case.stdin.clone();
    // feed stdin from a second thread: the child may start writing before it has read everything
    let writer = std::thread::spawn(move || {
        let _ = sin.write_all(&data);
    });
    let out = match child.wait_with_output() {
        Ok(o) => o,
        Err(_) => return "NOWAIT".into(),
    };
    let _ = writer.join();
    // a Rust panic ends the process with exit code 101; a signal (abort, stack overflow) has no code
    let status = match out.status.code() {
        Some(101) => "ABORT".to_string(),
        Some(c) => c.to_string(),
        None => match out.status.signal() {
            Some(_) => "ABORT".to_string(),
            None => "UNKNOWN".to_string(),
        },
    };
    if case.argv.len() >= 2 && case.argv[1] == b"rnd" && status == "0" {
        let (valid, idok) = rnd_oracle(&case.argv, &out.stdout, &out.stderr);
        return format!("RND 0 {} {}", show_bool(valid), show_bool(idok));
    }
    let is_dump = status == "0"
        && case.argv[1..].first().map(|c| c == b"decode").unwrap_or(false)
        && (case.argv.len() == 3 || (case.argv.len() == 4 && case.argv[3] != b"-p"));
    if is_dump {
        // the Debug dump itself is not modelled; it must at least be there
        return format!("OK 0 {} {}", show_bool(!out.stderr.is_empty()), if out.stdout.is_empty() { "x" } else { "?" });
    }
    format!("OK {} {} {}", status, show_bool(!out.stderr.is_empty()), show_bytes(&out.stdout))
}
