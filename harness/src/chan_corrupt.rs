//! K-corrupt channel (C05).
//! CORR x<bytes> [<tag>] -> OK V <T|F> SAME <T|F> LENS <n0> <n1> ... CRCS <code0> <code1> ... | ERR
//! decode; V = Bundle::crc_valid; SAME = 0x9f ++ every block's Block::to_cbor() (STORED CRC value, nothing is
//! recalculated) ++ 0xff equals the input; LENS = byte length of each block's to_cbor(); CRCS = CRC type codes.
//! The optional second token (the generator's description of the corruption) is ignored.
use crate::proto::*;
use bp7::bundle::Block;
use bp7::crc::CrcBlock;
use bp7::Bundle;
use std::convert::TryFrom;

pub fn corr(args: &[&str]) -> String {
    match args {
        [t] | [t, _] => match get_bytes(t) {
            Some(input) => match Bundle::try_from(input.as_slice()) {
                Ok(mut bndl) => {
                    let mut blocks: Vec<Vec<u8>> = Vec::with_capacity(1 + bndl.canonicals.len());
                    let mut codes: Vec<u8> = Vec::with_capacity(1 + bndl.canonicals.len());
                    blocks.push(bndl.primary.to_cbor());
                    codes.push(bndl.primary.crc_type());
                    for c in &bndl.canonicals {
                        blocks.push(c.to_cbor());
                        codes.push(c.crc_type());
                    }
                    let mut re: Vec<u8> = vec![0x9f];
                    for b in &blocks {
                        re.extend_from_slice(b);
                    }
                    re.push(0xff);
                    let same = re == input;
                    let valid = crate::bio::crc_valid_stable(&mut bndl);
                    let lens: Vec<String> = blocks.iter().map(|b| show_n(b.len() as u128)).collect();
                    let crcs: Vec<String> = codes.iter().map(|c| show_n(*c as u128)).collect();
                    format!(
                        "OK V {} SAME {} LENS {} CRCS {}",
                        valid,
                        show_bool(same),
                        lens.join(" "),
                        crcs.join(" ")
                    )
                }
                Err(_) => "ERR".into(),
            },
            None => "BADCASE".into(),
        },
        _ => "BADCASE".into(),
    }
}

/// REENC x<bytes> x<payload> -> OK MEM <T|F> WIRE <T|F|ERR> | ERR
/// decode, change the bundle (set_payload, lifetime 12345 ms), to_cbor: the emitted bundle is uncorrupted, it must pass the check in
/// memory and after decoding
pub fn reenc(args: &[&str]) -> String {
    match args {
        [t, p] => match (get_bytes(t), get_bytes(p)) {
            (Some(input), Some(payload)) => match Bundle::try_from(input.as_slice()) {
                Ok(mut bndl) => {
                    bndl.set_payload(payload);
                    bndl.primary.lifetime = std::time::Duration::from_millis(12345);
                    let bytes = bndl.to_cbor();
                    let mem = crate::bio::crc_valid_stable(&mut bndl);
                    let wire = match Bundle::try_from(bytes.as_slice()) {
                        Ok(mut b2) => crate::bio::crc_valid_stable(&mut b2).to_string(),
                        Err(_) => "ERR".into(),
                    };
                    format!("OK MEM {} WIRE {}", mem, wire)
                }
                Err(_) => "ERR".into(),
            },
            _ => "BADCASE".into(),
        },
        _ => "BADCASE".into(),
    }
}
