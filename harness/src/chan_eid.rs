//! K-eid channel on the real API (mirrors coq/theories/Run/RunEid.v). Nothing is caught here:
//! main.rs wraps every line in catch_unwind and prints PANIC.
use crate::bio::*;
use crate::proto::*;
use bp7::eid::{EndpointID, EndpointIdError};
use std::convert::TryFrom;

fn show_opt(o: Option<String>) -> String {
    match o {
        Some(s) => show_bytes(s.as_bytes()),
        None => "-".into(),
    }
}
fn show_kind(e: &EndpointIdError) -> &'static str {
    match e {
        EndpointIdError::SchemeMissing => "SchemeMissing",
        EndpointIdError::SchemeMismatch(_, _) => "SchemeMismatch",
        EndpointIdError::UnknownScheme(_) => "UnknownScheme",
        EndpointIdError::InvalidNodeNumber(_) => "InvalidNodeNumber",
        EndpointIdError::WrongNumberOfFieldsInIpn(_) => "WrongNumberOfFieldsInIpn",
        EndpointIdError::InvalidService(_) => "InvalidService",
        EndpointIdError::NoneHasNoService => "NoneHasNoService",
        EndpointIdError::NoneNotZero => "NoneNotZero",
        EndpointIdError::InvalidUrlFormat => "InvalidUrlFormat",
        EndpointIdError::NoneNotValidHost => "NoneNotValidHost",
        EndpointIdError::CouldNotParseNumber(_) => "CouldNotParseNumber",
        EndpointIdError::Unknown => "Unknown",
    }
}

fn eid_info(e: &EndpointID) -> String {
    let printed = e.to_string();
    let rt = match EndpointID::try_from(printed.as_str()) {
        Ok(e2) => e2 == *e,
        Err(_) => false,
    };
    let enc = serde_cbor::to_vec(e).expect("EndpointID serializes");
    let cb = match serde_cbor::from_slice::<EndpointID>(&enc) {
        Ok(e2) => e2 == *e,
        Err(_) => false,
    };
    let node = e.node();
    let node_id = e.node_id();
    let (nr, ni): (String, String) = match &node_id {
        None => ("-".into(), "-".into()),
        Some(id) => match EndpointID::try_from(id.as_str()) {
            Ok(e2) => (
                match e2.node() {
                    Some(n) => show_bytes(n.as_bytes()),
                    None => "NONE".into(),
                },
                show_bool(e2.is_node_id()).into(),
            ),
            Err(_) => ("ERR".into(), "-".into()),
        },
    };
    format!(
        "{} P {} N {} NID {} SVC {} ISN {} NS {} RT {} CB {} NR {} NI {}",
        show_eid(e),
        show_bytes(printed.as_bytes()),
        show_opt(node),
        show_opt(node_id),
        show_opt(e.service_name()),
        show_bool(e.is_node_id()),
        show_bool(e.is_non_singleton()),
        show_bool(rt),
        show_bool(cb),
        nr,
        ni
    )
}
fn show_result(r: Result<EndpointID, EndpointIdError>) -> String {
    match r {
        Ok(e) => format!("OK {}", eid_info(&e)),
        Err(k) => format!("ERR {}", show_kind(&k)),
    }
}
fn get_str(t: &str) -> Option<String> {
    String::from_utf8(get_bytes(t)?).ok()
}

/// EID x<utf8>
pub fn eid(args: &[&str]) -> String {
    match args {
        [t] => match get_str(t) {
            Some(s) => {
                // the two textual entry points (TryFrom<&str>, TryFrom<String>) are one parser: same verdict, same endpoint ID
                let a = EndpointID::try_from(s.as_str());
                let b = EndpointID::try_from(s.clone());
                let agree = match (&a, &b) {
                    (Ok(x), Ok(y)) => x == y,
                    (Err(_), Err(_)) => true,
                    _ => false,
                };
                if !agree {
                    return format!("UNSTABLE TryFrom<&str> gives {} but TryFrom<String> gives {}", show_result(a), show_result(b));
                }
                show_result(a)
            }
            None => "BADCASE".into(),
        },
        _ => "BADCASE".into(),
    }
}
/// EIDDTN x<utf8>
pub fn eiddtn(args: &[&str]) -> String {
    match args {
        [t] => match get_str(t) {
            Some(s) => show_result(EndpointID::with_dtn(&s)),
            None => "BADCASE".into(),
        },
        _ => "BADCASE".into(),
    }
}
/// EIDIPN <node> <service>
pub fn eidipn(args: &[&str]) -> String {
    match args {
        [a, b] => match (get_u64(a), get_u64(b)) {
            (Some(n), Some(s)) => show_result(EndpointID::with_ipn(n, s)),
            _ => "BADCASE".into(),
        },
        _ => "BADCASE".into(),
    }
}
/// EIDNEW <eid> x<utf8>
pub fn eidnew(args: &[&str]) -> String {
    if args.is_empty() {
        return "BADCASE".into();
    }
    let (eid_toks, last) = args.split_at(args.len() - 1);
    let n_eid = match eid_toks.first() {
        Some(&"DTN") | Some(&"NONE") => 3,
        Some(&"IPN") => 4,
        _ => return "BADCASE".into(),
    };
    if eid_toks.len() != n_eid {
        return "BADCASE".into();
    }
    let ep = match get_str(last[0]) {
        Some(s) => s,
        None => return "BADCASE".into(),
    };
    // the tokens must at least be well-formed (numbers, x<hex>); what is well-formed but not expressible is SKIP
    for (i, t) in eid_toks.iter().enumerate().skip(1) {
        let ok = if eid_toks[0] == "DTN" && i == 2 {
            get_bytes(t).is_some()
        } else {
            get_n(t).is_some()
        };
        if !ok {
            return "BADCASE".into();
        }
    }
    let mut t = Toks::new(eid_toks);
    let e = match parse_eid(&mut t) {
        Some(e) => e,
        None => return "SKIP".into(),
    };
    let sn = e.node();
    format!("{} SN {}", show_result(e.new_endpoint(&ep)), show_opt(sn))
}
/// EIDCBOR x<bytes>
pub fn eidcbor(args: &[&str]) -> String {
    match args {
        [t] => match get_bytes(t) {
            Some(b) => match serde_cbor::from_slice::<EndpointID>(&b) {
                Ok(e) => format!("OK {}", eid_info(&e)),
                Err(_) => "DECERR".into(),
            },
            None => "BADCASE".into(),
        },
        _ => "BADCASE".into(),
    }
}
