//! K-ffi (C14): call sequences against the real `extern "C"` interface of bp7 (src/ffi.rs), one case per
//! CHILD process (`<harness> --one-ffi`, case line on stdin), under a counting global allocator.
//!
//! Case line (same grammar as coq/theories/Run/RunFfi.v):
//!   FFI <op> ; <op> ; ...
//!   op ::= MK x<bytes>          the C caller builds a Buffer {data, len} over its own memory     -> handle
//!        | MKNULL               the C caller builds the empty Buffer {NULL, 0}                    -> handle
//!        | TESTBUF              bp7_buffer_test()                                                 -> handle (library buffer)
//!        | RND                  helper_rnd_bundle()      (harness only: the model cannot know the random bytes)
//!        | FROM <h>             bundle_from_cbor(buffer h)                                        -> NULL | handle (bundle)
//!        | TOCBOR <h>           bundle_to_cbor(bundle h)                                          -> handle (library buffer)
//!        | META <h>             bundle_get_metadata(bundle h)                                     -> NULL | handle (metadata)
//!        | PAYLOAD <h>          bundle_payload(bundle h)                                          -> handle (library buffer)
//!        | VALID <h>            bundle_is_valid(bundle h)                                         -> T | F
//!        | NEW x<src> x<dst> <lifetime_ms> <h> <clock_ms>   bundle_new_default(src, dst, lifetime, buffer h); the clock hook
//!                               supplies <clock_ms> (Unix ms) to CreationTimestamp::now()         -> handle (bundle)
//!        | BFREE <h> | BNDFREE <h> | MFREE <h>    buffer_free / bundle_free / bundle_metadata_free
//!        | DROP <h>             the C caller releases a Buffer it built itself (MK / MKNULL)
//! Handles are numbered 0, 1, 2, ... in creation order; a NULL return does not consume a number.
//!
//! Result: `OK <r> ; <r> ; ... ; NET <n> LIVE <k>` with one <r> per op:
//!   H<k> [x<bytes>|NODATA] [metadata fields] d<delta>  |  NULL d0  |  T d0 | F d0  |  - d<delta>  |  H<k> / - (MK, MKNULL, DROP)
//! where <delta> is the change in the number of live heap allocations across the library call (counting
//! allocator), NET the sum of all deltas and LIVE the number of library objects not yet freed.
//! The sequence stops at the first `ABORT` (the child process died inside the call: a panic crossing `extern "C"`)
//! or `PROTOCOL` (the op would use a dead / unknown / wrong-kind handle: undefined behaviour in C, never executed).
use crate::proto::*;
use std::alloc::{GlobalAlloc, Layout, System};
use std::cell::Cell;
use std::ffi::{CStr, CString};
use std::io::{BufRead, Write};
use std::os::raw::c_char;
use std::process::{Command, Stdio};

// ---- counting allocator: a thin wrapper around the system allocator that only counts ----
// The count is per thread (allocations minus deallocations performed by the calling thread): the FFI functions
// are single-threaded, and a per-thread count is not disturbed by the start-up / tear-down allocations of other
// threads (the child's watchdog thread).  The cell is const-initialised and has no destructor, so touching it
// from inside the allocator is safe at any point of a thread's life (`try_with` covers the rest).
pub struct CountingAlloc;
thread_local! {
    static LIVE_ALLOCS: Cell<isize> = const { Cell::new(0) };
    // bytes currently allocated by the calling thread and their high-water mark (K-dec allocation measurement, C06)
    static LIVE_BYTES: Cell<isize> = const { Cell::new(0) };
    static PEAK_BYTES: Cell<isize> = const { Cell::new(0) };
}
#[inline]
fn bump(d: isize) {
    let _ = LIVE_ALLOCS.try_with(|c| c.set(c.get() + d));
}
#[inline]
fn bump_bytes(d: isize) {
    let _ = LIVE_BYTES.try_with(|c| {
        let v = c.get() + d;
        c.set(v);
        let _ = PEAK_BYTES.try_with(|p| {
            if v > p.get() {
                p.set(v)
            }
        });
    });
}
/// start a measurement: peak := current
pub fn peak_reset() {
    let cur = LIVE_BYTES.try_with(|c| c.get()).unwrap_or(0);
    let _ = PEAK_BYTES.try_with(|p| p.set(cur));
}
/// bytes allocated above the level at the last peak_reset(), at the high-water mark
pub fn peak_above(base: isize) -> isize {
    PEAK_BYTES.try_with(|p| p.get()).unwrap_or(0) - base
}
pub fn live_bytes() -> isize {
    LIVE_BYTES.try_with(|c| c.get()).unwrap_or(0)
}
unsafe impl GlobalAlloc for CountingAlloc {
    unsafe fn alloc(&self, l: Layout) -> *mut u8 {
        let p = System.alloc(l);
        if !p.is_null() {
            bump(1);
            bump_bytes(l.size() as isize);
        }
        p
    }
    unsafe fn alloc_zeroed(&self, l: Layout) -> *mut u8 {
        let p = System.alloc_zeroed(l);
        if !p.is_null() {
            bump(1);
            bump_bytes(l.size() as isize);
        }
        p
    }
    unsafe fn dealloc(&self, p: *mut u8, l: Layout) {
        bump(-1);
        bump_bytes(-(l.size() as isize));
        System.dealloc(p, l)
    }
    unsafe fn realloc(&self, p: *mut u8, l: Layout, n: usize) -> *mut u8 {
        let q = System.realloc(p, l, n); // one allocation before, one after: the count does not change
        if !q.is_null() {
            bump_bytes(n as isize - l.size() as isize);
        }
        q
    }
}
#[global_allocator]
static GLOBAL: CountingAlloc = CountingAlloc;
/// live allocations made (and not yet released) by the calling thread
fn live() -> isize {
    LIVE_ALLOCS.try_with(|c| c.get()).unwrap_or(0)
}

// ---- the C view of the two structs of bp7.h (their Rust fields are private; layout is #[repr(C)]) ----
#[repr(C)]
struct CBuffer {
    data: *mut u8,
    len: u32,
}
#[repr(C)]
struct CMeta {
    src: *mut c_char,
    dst: *mut c_char,
    timestamp: u64,
    seqno: u64,
    lifetime: u64,
}

const WATCHDOG_SECS: u64 = 20;

#[derive(Clone, Debug)]
enum Op {
    Mk(Vec<u8>),
    MkNull,
    TestBuf,
    Rnd,
    From(usize),
    ToCbor(usize),
    Meta(usize),
    Payload(usize),
    Valid(usize),
    New(Vec<u8>, Vec<u8>, u64, usize, u64),
    BFree(usize),
    BndFree(usize),
    MFree(usize),
    Drop(usize),
}

fn get_h(t: Option<&&str>) -> Option<usize> {
    let n = get_u64(t?)?;
    if n > 1_000_000 {
        return None;
    }
    usize::try_from(n).ok()
}

fn parse(args: &[&str]) -> Option<Vec<Op>> {
    let mut ops = Vec::new();
    for grp in args.split(|t| *t == ";") {
        let op = match grp.first().copied()? {
            "MK" if grp.len() == 2 => Op::Mk(get_bytes(grp[1])?),
            "MKNULL" if grp.len() == 1 => Op::MkNull,
            "TESTBUF" if grp.len() == 1 => Op::TestBuf,
            "RND" if grp.len() == 1 => Op::Rnd,
            "FROM" if grp.len() == 2 => Op::From(get_h(grp.get(1))?),
            "TOCBOR" if grp.len() == 2 => Op::ToCbor(get_h(grp.get(1))?),
            "META" if grp.len() == 2 => Op::Meta(get_h(grp.get(1))?),
            "PAYLOAD" if grp.len() == 2 => Op::Payload(get_h(grp.get(1))?),
            "VALID" if grp.len() == 2 => Op::Valid(get_h(grp.get(1))?),
            "NEW" if grp.len() == 6 => Op::New(
                get_bytes(grp[1])?,
                get_bytes(grp[2])?,
                get_u64(grp[3])?,
                get_h(grp.get(4))?,
                get_u64(grp[5])?,
            ),
            "BFREE" if grp.len() == 2 => Op::BFree(get_h(grp.get(1))?),
            "BNDFREE" if grp.len() == 2 => Op::BndFree(get_h(grp.get(1))?),
            "MFREE" if grp.len() == 2 => Op::MFree(get_h(grp.get(1))?),
            "DROP" if grp.len() == 2 => Op::Drop(get_h(grp.get(1))?),
            _ => return None,
        };
        ops.push(op);
    }
    Some(ops)
}

/// Parent side: run one FFI case in a freshly spawned copy of this executable.
pub fn ffi(args: &[&str]) -> String {
    let nops = match parse(args) {
        Some(o) => o.len(),
        None => return "BADCASE".into(),
    };
    let exe = match std::env::current_exe() {
        Ok(e) => e,
        Err(_) => return "SPAWNFAIL".into(),
    };
    let child = Command::new(exe)
        .arg("--one-ffi")
        .stdin(Stdio::piped())
        .stdout(Stdio::piped())
        .stderr(Stdio::null())
        .spawn();
    let mut child = match child {
        Ok(c) => c,
        Err(_) => return "SPAWNFAIL".into(),
    };
    {
        let mut stdin = child.stdin.take().expect("piped stdin");
        let _ = writeln!(stdin, "FFI {}", args.join(" "));
    }
    let o = match child.wait_with_output() {
        Ok(o) => o,
        Err(_) => return "SPAWNFAIL".into(),
    };
    let text = String::from_utf8_lossy(&o.stdout);
    let mut parts: Vec<String> = Vec::new();
    let mut ended = false;
    for l in text.lines() {
        if l == "END" {
            ended = true;
            break;
        }
        parts.push(l.to_string());
    }
    if !ended {
        // the child died inside the op after the last completed one (or timed out)
        let what = if text.lines().any(|l| l == "TIMEOUT") {
            "TIMEOUT"
        } else {
            "ABORT"
        };
        parts.retain(|l| l != "TIMEOUT");
        parts.truncate(nops);
        parts.push(what.into());
    }
    format!("OK {}", parts.join(" ; "))
}

enum Obj {
    /// the caller's Buffer struct and the memory its `data` points into (kept alive until DROP)
    Caller(*mut CBuffer, #[allow(dead_code)] Option<Vec<u8>>),
    LibBuf(*mut CBuffer),
    Bundle(*mut bp7::Bundle),
    Meta(*mut CMeta),
    Dead,
}

fn show_buf(p: *mut CBuffer) -> String {
    unsafe {
        let b = &*p;
        if b.data.is_null() {
            "NODATA".to_string()
        } else {
            show_bytes(std::slice::from_raw_parts(b.data, b.len as usize))
        }
    }
}

/// Child side (`--one-ffi`): read one case line, execute op after op, one flushed result line per op, then
/// `NET .. LIVE ..` and `END`.
pub fn ffi_child_main() {
    std::panic::set_hook(Box::new(|_| {}));
    std::thread::spawn(|| {
        std::thread::sleep(std::time::Duration::from_secs(WATCHDOG_SECS));
        println!("TIMEOUT");
        let _ = std::io::stdout().flush();
        std::process::exit(3);
    });
    let mut line = String::new();
    let _ = std::io::stdin().lock().read_line(&mut line);
    let toks: Vec<&str> = line.split_whitespace().collect();
    let args: &[&str] = match toks.first() {
        Some(&"FFI") => &toks[1..],
        _ => &toks[..],
    };
    let ops = match parse(args) {
        Some(o) => o,
        None => {
            println!("BADCASE");
            println!("END");
            std::process::exit(0);
        }
    };
    let stdout = std::io::stdout();
    let mut objs: Vec<Obj> = Vec::new();
    let mut net: isize = 0;
    let emit = |s: String| {
        let mut o = stdout.lock();
        let _ = writeln!(o, "{}", s);
        let _ = o.flush();
    };
    macro_rules! lib_buf {
        ($h:expr) => {
            match objs.get($h) {
                Some(Obj::LibBuf(p)) => Some(*p),
                Some(Obj::Caller(p, _)) => Some(*p),
                _ => None,
            }
        };
    }
    macro_rules! bundle {
        ($h:expr) => {
            match objs.get($h) {
                Some(Obj::Bundle(p)) => Some(*p),
                _ => None,
            }
        };
    }
    let mut stopped = false;
    for op in ops {
        let r: Option<String> = unsafe {
            match op {
                Op::Mk(bytes) => {
                    let mut data = bytes;
                    // a C caller's malloc'ed block; for an empty buffer a non-null pointer to no bytes
                    let p = Box::into_raw(Box::new(CBuffer {
                        data: data.as_mut_ptr(),
                        len: data.len() as u32,
                    }));
                    objs.push(Obj::Caller(p, Some(data)));
                    Some(format!("H{}", objs.len() - 1))
                }
                Op::MkNull => {
                    let p = Box::into_raw(Box::new(CBuffer {
                        data: std::ptr::null_mut(),
                        len: 0,
                    }));
                    objs.push(Obj::Caller(p, None));
                    Some(format!("H{}", objs.len() - 1))
                }
                Op::TestBuf => {
                    let before = live();
                    let p = bp7::ffi::bp7_buffer_test() as *mut CBuffer;
                    let d = live() - before;
                    net += d;
                    objs.push(Obj::LibBuf(p));
                    Some(format!("H{} {} d{}", objs.len() - 1, show_buf(p), d))
                }
                Op::Rnd => {
                    let before = live();
                    let p = bp7::ffi::helper_rnd_bundle() as *mut CBuffer;
                    let d = live() - before;
                    net += d;
                    objs.push(Obj::LibBuf(p));
                    Some(format!("H{} {} d{}", objs.len() - 1, show_buf(p), d))
                }
                Op::From(h) => lib_buf!(h).map(|p| {
                    let before = live();
                    let b = bp7::ffi::bundle_from_cbor(p as *mut bp7::ffi::Buffer);
                    let d = live() - before;
                    net += d;
                    if b.is_null() {
                        format!("NULL d{}", d)
                    } else {
                        objs.push(Obj::Bundle(b));
                        format!("H{} d{}", objs.len() - 1, d)
                    }
                }),
                Op::ToCbor(h) => bundle!(h).map(|b| {
                    let before = live();
                    let p = bp7::ffi::bundle_to_cbor(b) as *mut CBuffer;
                    let d = live() - before;
                    net += d;
                    objs.push(Obj::LibBuf(p));
                    format!("H{} {} d{}", objs.len() - 1, show_buf(p), d)
                }),
                Op::Payload(h) => bundle!(h).map(|b| {
                    let before = live();
                    let p = bp7::ffi::bundle_payload(b) as *mut CBuffer;
                    let d = live() - before;
                    net += d;
                    objs.push(Obj::LibBuf(p));
                    format!("H{} {} d{}", objs.len() - 1, show_buf(p), d)
                }),
                Op::Meta(h) => bundle!(h).map(|b| {
                    let before = live();
                    let m = bp7::ffi::bundle_get_metadata(b) as *mut CMeta;
                    let d = live() - before;
                    net += d;
                    if m.is_null() {
                        // an EID text with a NUL character is not a C string
                        return format!("NULL d{}", d);
                    }
                    objs.push(Obj::Meta(m));
                    let mm = &*m;
                    format!(
                        "H{} {} {} {} {} {} d{}",
                        objs.len() - 1,
                        show_bytes(CStr::from_ptr(mm.src).to_bytes()),
                        show_bytes(CStr::from_ptr(mm.dst).to_bytes()),
                        mm.timestamp,
                        mm.seqno,
                        mm.lifetime,
                        d
                    )
                }),
                Op::Valid(h) => bundle!(h).map(|b| {
                    let before = live();
                    let v = bp7::ffi::bundle_is_valid(b);
                    let d = live() - before;
                    net += d;
                    format!("{} d{}", show_bool(v), d)
                }),
                Op::New(src, dst, lifetime, h, clock) => lib_buf!(h).and_then(|p| {
                    // a C string ends at its first NUL byte
                    let cut = |v: Vec<u8>| -> CString {
                        let n = v.iter().position(|&c| c == 0).unwrap_or(v.len());
                        CString::new(&v[..n]).expect("no interior NUL")
                    };
                    let (s, t) = (cut(src), cut(dst));
                    bp7::verif_hooks::set_thread_clock_ms(Some(clock));
                    let before = live();
                    let b = bp7::ffi::bundle_new_default(
                        s.as_ptr(),
                        t.as_ptr(),
                        lifetime,
                        p as *mut bp7::ffi::Buffer,
                    );
                    let d = live() - before;
                    bp7::verif_hooks::set_thread_clock_ms(None);
                    net += d;
                    if b.is_null() {
                        Some(format!("NULL d{}", d))
                    } else {
                        objs.push(Obj::Bundle(b));
                        Some(format!("H{} d{}", objs.len() - 1, d))
                    }
                }),
                Op::BFree(h) => match objs.get(h) {
                    Some(Obj::LibBuf(p)) => {
                        let p = *p;
                        let before = live();
                        bp7::ffi::buffer_free(p as *mut bp7::ffi::Buffer);
                        let d = live() - before;
                        net += d;
                        objs[h] = Obj::Dead;
                        Some(format!("- d{}", d))
                    }
                    _ => None,
                },
                Op::BndFree(h) => bundle!(h).map(|b| {
                    let before = live();
                    bp7::ffi::bundle_free(b);
                    let d = live() - before;
                    net += d;
                    objs[h] = Obj::Dead;
                    format!("- d{}", d)
                }),
                Op::MFree(h) => match objs.get(h) {
                    Some(Obj::Meta(m)) => {
                        let m = *m;
                        let before = live();
                        bp7::ffi::bundle_metadata_free(m as *mut bp7::ffi::BundleMetaData);
                        let d = live() - before;
                        net += d;
                        objs[h] = Obj::Dead;
                        Some(format!("- d{}", d))
                    }
                    _ => None,
                },
                Op::Drop(h) => match objs.get(h) {
                    Some(Obj::Caller(p, _)) => {
                        let p = *p;
                        drop(Box::from_raw(p));
                        objs[h] = Obj::Dead; // drops the data Vec as well
                        Some("-".to_string())
                    }
                    _ => None,
                },
            }
        };
        match r {
            Some(s) => emit(s),
            None => {
                emit("PROTOCOL".to_string());
                stopped = true;
                break;
            }
        }
    }
    if !stopped {
        let live_objs = objs
            .iter()
            .filter(|o| matches!(o, Obj::LibBuf(_) | Obj::Bundle(_) | Obj::Meta(_)))
            .count();
        emit(format!("NET {} LIVE {}", net, live_objs));
    }
    emit("END".to_string());
    std::process::exit(0);
}
