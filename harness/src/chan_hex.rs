use crate::proto::*;

pub fn hex(args: &[&str]) -> String {
    match args {
        [t] => match get_bytes(t) {
            Some(b) => format!("S {}", show_bytes(bp7::helpers::hexify(&b).as_bytes())),
            None => "BADCASE".into(),
        },
        _ => "BADCASE".into(),
    }
}
pub fn unhex(args: &[&str]) -> String {
    match args {
        [t] => match get_bytes(t) {
            Some(b) => match String::from_utf8(b) {
                // the API takes &str: inputs that are not UTF-8 cannot be passed at all
                Err(_) => "NOTUTF8".into(),
                Ok(s) => match bp7::helpers::unhexify(&s) {
                    Ok(v) => format!("OK {}", show_bytes(&v)),
                    Err(_) => "ERR".into(),
                },
            },
            None => "BADCASE".into(),
        },
        _ => "BADCASE".into(),
    }
}
