//! K-id channel on the real API (mirrors coq/theories/Run/RunId.v). Nothing is caught here:
//! main.rs wraps every line in catch_unwind and prints PANIC.
use crate::bio::*;
use crate::proto::*;
use bp7::administrative_record::new_status_report;

/// ID <bundle> -> OK x<id> x<to_string>
pub fn id(args: &[&str]) -> String {
    let mut t = Toks::new(args);
    let b = match parse_bundle(&mut t) {
        Some(b) => b,
        None => return "SKIP".into(),
    };
    if !t.done() {
        return "BADCASE".into();
    }
    format!(
        "OK {} {}",
        show_bytes(b.id().as_bytes()),
        show_bytes(b.to_string().as_bytes())
    )
}

/// The same bundle with its primary block built through PrimaryBlockBuilder (every field handed to its setter, in declaration order);
/// None when the builder refuses (no destination).
fn via_builder(b: &bp7::Bundle) -> Option<bp7::Bundle> {
    let p = &b.primary;
    let q = bp7::primary::PrimaryBlockBuilder::new()
        .bundle_control_flags(p.bundle_control_flags)
        .crc(p.crc.clone())
        .destination(p.destination.clone())
        .source(p.source.clone())
        .report_to(p.report_to.clone())
        .creation_timestamp(p.creation_timestamp.clone())
        .lifetime(p.lifetime)
        .fragmentation_offset(p.fragmentation_offset)
        .total_data_length(p.total_data_length)
        .build()
        .ok()?;
    Some(bp7::Bundle::new(q, b.canonicals.clone()))
}

/// IDPAIR <bundle> | <bundle> -> OK x<id1> x<id2> <T|F>   (ALTDIFF builder: the ID of a bundle depends on whether its primary block was
/// made by setting the public fields or through PrimaryBlockBuilder with the same values)
pub fn idpair(args: &[&str]) -> String {
    let mut t = Toks::new(args);
    let b1 = match parse_bundle(&mut t) {
        Some(b) => b,
        None => return "SKIP".into(),
    };
    if t.next() != Some("|") {
        return "BADCASE".into();
    }
    let b2 = match parse_bundle(&mut t) {
        Some(b) => b,
        None => return "SKIP".into(),
    };
    if !t.done() {
        return "BADCASE".into();
    }
    let (i1, i2) = (b1.id(), b2.id());
    for (b, i) in [(&b1, &i1), (&b2, &i2)] {
        if let Some(alt) = via_builder(b) {
            if alt.id() != **i {
                return "ALTDIFF builder".into();
            }
        }
    }
    format!(
        "OK {} {} {}",
        show_bytes(i1.as_bytes()),
        show_bytes(i2.as_bytes()),
        show_bool(i1 == i2)
    )
}

/// IDREF <pos> <reason> <bundle> -> OK x<refbundle> x<id>
pub fn idref(args: &[&str]) -> String {
    let mut t = Toks::new(args);
    let pos = match t.n().and_then(|n| u32::try_from(n).ok()) {
        Some(p) => p,
        None => return "BADCASE".into(),
    };
    let reason = match t.n().and_then(|n| u32::try_from(n).ok()) {
        Some(p) => p,
        None => return "BADCASE".into(),
    };
    let b = match parse_bundle(&mut t) {
        Some(b) => b,
        None => return "SKIP".into(),
    };
    if !t.done() {
        return "BADCASE".into();
    }
    let sr = new_status_report(&b, pos, reason);
    format!(
        "OK {} {}",
        show_bytes(sr.refbundle().as_bytes()),
        show_bytes(b.id().as_bytes())
    )
}

/// SRREF x<administrative record bytes> -> OK x<refbundle()> of the decoded status report | OTHER | ERR
pub fn srref(args: &[&str]) -> String {
    match args {
        [t] => match get_bytes(t) {
            Some(b) => match serde_cbor::from_slice::<bp7::administrative_record::AdministrativeRecord>(&b) {
                Ok(bp7::administrative_record::AdministrativeRecord::BundleStatusReport(sr)) => {
                    format!("OK {}", show_bytes(sr.refbundle().as_bytes()))
                }
                Ok(_) => "OTHER".into(),
                Err(_) => "ERR".into(),
            },
            None => "BADCASE".into(),
        },
        _ => "BADCASE".into(),
    }
}

/// SRREFE x<administrative record bytes> -> as SRREF, after the decoded record went through the crate's ENCODER and decoder once more
pub fn srrefe(args: &[&str]) -> String {
    use bp7::administrative_record::AdministrativeRecord;
    match args {
        [t] => match get_bytes(t) {
            Some(b) => match serde_cbor::from_slice::<AdministrativeRecord>(&b) {
                Ok(AdministrativeRecord::BundleStatusReport(sr0)) => {
                    let again = serde_cbor::to_vec(&AdministrativeRecord::BundleStatusReport(sr0)).expect("record serializes");
                    match serde_cbor::from_slice::<AdministrativeRecord>(&again) {
                        Ok(AdministrativeRecord::BundleStatusReport(sr)) => format!("OK {}", show_bytes(sr.refbundle().as_bytes())),
                        Ok(_) => "OTHER2".into(),
                        Err(_) => "ERR2".into(),
                    }
                }
                Ok(_) => "OTHER".into(),
                Err(_) => "ERR".into(),
            },
            None => "BADCASE".into(),
        },
        _ => "BADCASE".into(),
    }
}
