//! K-json channel (C15): `Bundle::to_json` / `Bundle::try_from(String)`.
//!   JSON <bundle>        -> OK x<utf8 of to_json text> <bundle after to_json> BACK (OK <bundle> | ERR)
//!   JTOK <token tree>    -> OK <bundle> | ERR       (try_from on the compact JSON text of the tree)
//!   JSONDEC x<utf8 json> -> OK <bundle> | ERR       (implementation only, no model counterpart)
//! Token trees (mirrors coq/theories/Run/RunJson.v): N <dec> | S x<utf8> | T | F | Z | [ tree* ]
use crate::bio::*;
use crate::proto::*;
use bp7::Bundle;
use std::convert::TryFrom;

fn back(json: String) -> String {
    match Bundle::try_from(json) {
        Ok(d) => format!("OK {}", show_bundle(&d)),
        Err(_) => "ERR".into(),
    }
}

pub fn json(args: &[&str]) -> String {
    let mut t = Toks::new(args);
    match parse_bundle(&mut t) {
        Some(mut b) if t.done() => {
            let text = b.to_json();
            let shown = show_bundle(&b);
            format!("OK {} {} BACK {}", show_bytes(text.as_bytes()), shown, back(text))
        }
        _ => "SKIP".into(),
    }
}

pub fn jsondec(args: &[&str]) -> String {
    match args {
        [t] => match get_bytes(t).and_then(|b| String::from_utf8(b).ok()) {
            Some(s) => back(s),
            None => "BADCASE".into(),
        },
        _ => "BADCASE".into(),
    }
}

/// JSON text of a string token; only has to be *accepted* by serde_json as that string
/// (every control character as \u00XX), it is not compared with serde_json's own output.
fn quote(s: &str, out: &mut String) {
    out.push('"');
    for c in s.chars() {
        match c {
            '"' => out.push_str("\\\""),
            '\\' => out.push_str("\\\\"),
            c if (c as u32) < 0x20 => out.push_str(&format!("\\u{:04x}", c as u32)),
            c => out.push(c),
        }
    }
    out.push('"');
}

/// one tree starting at args[*i]; appends its compact JSON text
fn tree(args: &[&str], i: &mut usize, depth: usize, out: &mut String) -> Option<()> {
    if depth > 64 {
        return None;
    }
    let t = *args.get(*i)?;
    *i += 1;
    match t {
        "N" => {
            let n = *args.get(*i)?;
            *i += 1;
            get_n(n)?;
            // canonical decimal, as the model prints it
            let n = n.trim_start_matches('0');
            out.push_str(if n.is_empty() { "0" } else { n });
        }
        "S" => {
            let b = get_bytes(args.get(*i)?)?;
            *i += 1;
            quote(&String::from_utf8(b).ok()?, out);
        }
        "T" => out.push_str("true"),
        "F" => out.push_str("false"),
        "Z" => out.push_str("null"),
        "[" => {
            out.push('[');
            let mut first = true;
            loop {
                if *args.get(*i)? == "]" {
                    *i += 1;
                    break;
                }
                if !first {
                    out.push(',');
                }
                first = false;
                tree(args, i, depth + 1, out)?;
            }
            out.push(']');
        }
        _ => return None,
    }
    Some(())
}

pub fn jtok(args: &[&str]) -> String {
    let mut i = 0;
    let mut text = String::new();
    match tree(args, &mut i, 0, &mut text) {
        Some(()) if i == args.len() => back(text),
        _ => "BADCASE".into(),
    }
}
