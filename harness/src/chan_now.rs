//! K-now (C09): `CreationTimestamp::now` on N OS threads, stepped deterministically by the scheduler hook.
//!
//! Case line (same grammar as coq/theories/Run/RunClock.v):
//!   SCHED <n> T <r> <r> ... T <r> ...  S <tid> <tid> ...     one scheduler grant per entry
//!   SCHED <n> T <r> <r> ... T <r> ...  O <tid> <tid> ...     one whole call per entry (no overlap)
//! n threads (1..=64), exactly n `T` groups; group i holds the clock readings (Unix ms, >= 946684800000)
//! that thread i's successive `now()` calls see through the clock hook.  A grant lets the thread run from
//! where it is parked to its next yield point (`bp7::verif_hooks::yield_point`) or to the end of its call;
//! the first grant of a call enters `now()` (clock read) and runs to the first yield point.  Grants to a
//! finished thread are no-ops.  When the schedule ends, unfinished calls are completed thread after
//! thread in thread-id order.  Result: `OK <tid>:<time>:<seq> ...` in completion order.
//!
//! The static inside `now()` is process-global, so every case runs in a fresh child process
//! (`<harness> --one-sched`, case line on stdin): each case starts from the initial state, like the model.
use crate::proto::*;
use std::io::{BufRead, Write};
use std::process::{Command, Stdio};
use std::sync::{Arc, Condvar, Mutex};

const MS1970_TO2K: u64 = 946_684_800_000;
const MAX_THREADS: usize = 64;
const WATCHDOG_SECS: u64 = 120; // a 66 000-call burst takes 3-6 s; 20 s was hit once on a momentarily slow host (false TIMEOUT)

struct Case {
    readings: Vec<Vec<u64>>,
    whole_calls: bool,
    entries: Vec<usize>,
}

fn parse(args: &[&str]) -> Option<Case> {
    let n = usize::try_from(get_u64(args.first()?)?).ok()?;
    if n < 1 || n > MAX_THREADS {
        return None;
    }
    let mut readings: Vec<Vec<u64>> = Vec::new();
    let mut i = 1;
    let whole_calls;
    loop {
        let t = *args.get(i)?; // the S / O section is mandatory
        i += 1;
        match t {
            "T" => readings.push(Vec::new()),
            "S" => {
                whole_calls = false;
                break;
            }
            "O" => {
                whole_calls = true;
                break;
            }
            _ => {
                let r = get_u64(t)?;
                if r < MS1970_TO2K {
                    return None;
                }
                readings.last_mut()?.push(r);
            }
        }
    }
    if readings.len() != n {
        return None;
    }
    let mut entries = Vec::new();
    for t in &args[i..] {
        let k = usize::try_from(get_u64(t)?).ok()?;
        if k >= n {
            return None;
        }
        entries.push(k);
    }
    Some(Case {
        readings,
        whole_calls,
        entries,
    })
}

/// Parent side: run one SCHED case in a freshly spawned copy of this executable.
pub fn sched(args: &[&str]) -> String {
    sched_cmd("SCHED", args)
}
/// SCHEDX: same grammar and same expected result as SCHED, but the calls go through the crate's OTHER public entry points that
/// generate a fresh creation timestamp (new_std_payload_bundle, new_status_report_bundle) in rotation with `now()`.
pub fn schedx(args: &[&str]) -> String {
    sched_cmd("SCHEDX", args)
}
/// SCHEDT: same grammar as SCHED, but the clock TICKS inside every call: the first clock read of a call sees the reading written in
/// the case line, every further read of the same call sees one millisecond more (a call that reads the clock once behaves as under
/// SCHED).  Whatever the implementation does with several readings, the returned (time, seq) pairs must be distinct.
pub fn schedt(args: &[&str]) -> String {
    sched_cmd("SCHEDT", args)
}
/// SCHEDR: same grammar as SCHED, the calls go through the random-bundle helpers (helpers::rnd_bundle(CreationTimestamp::now()) and
/// the C interface's helper_rnd_bundle in turn).  One such call draws two timestamps and hands out the first, so the sequence numbers are
/// not those of SCHED: only uniqueness of the pairs handed out is judged.
pub fn schedr(args: &[&str]) -> String {
    sched_cmd("SCHEDR", args)
}
/// STRESS <threads> <calls>: a fresh process, <threads> OS threads released together by a barrier, each making <calls> calls of
/// CreationTimestamp::now() on the REAL clock with no scheduler hook (the free-running stress of the property text, including the
/// very first calls of a process racing each other)  ->  OK <threads*calls> UNIQUE | DUP <time>:<seq>
pub fn stress(args: &[&str]) -> String {
    match args {
        [t, c] if t.parse::<usize>().map(|x| (1..=256).contains(&x)).unwrap_or(false) && c.parse::<usize>().map(|x| (1..=100000).contains(&x)).unwrap_or(false) => {}
        _ => return "BADCASE".into(),
    }
    sched_cmd_unchecked("STRESS", args)
}
fn stress_child(threads: usize, calls: usize) -> String {
    let barrier = std::sync::Arc::new(std::sync::Barrier::new(threads));
    let hs: Vec<_> = (0..threads)
        .map(|_| {
            let b = barrier.clone();
            std::thread::spawn(move || {
                b.wait();
                (0..calls).map(|_| bp7::CreationTimestamp::now()).map(|ts| (ts.dtntime(), ts.seqno())).collect::<Vec<_>>()
            })
        })
        .collect();
    let mut all: Vec<(u64, u64)> = Vec::new();
    for h in hs {
        match h.join() {
            Ok(v) => all.extend(v),
            Err(_) => return "PANIC".into(),
        }
    }
    let n = all.len();
    all.sort();
    for w in all.windows(2) {
        if w[0] == w[1] {
            return format!("DUP {}:{}", w[0].0, w[0].1);
        }
    }
    format!("OK {} UNIQUE", n)
}
fn sched_cmd(cmd: &str, args: &[&str]) -> String {
    if parse(args).is_none() {
        return "BADCASE".into();
    }
    sched_cmd_unchecked(cmd, args)
}
fn sched_cmd_unchecked(cmd: &str, args: &[&str]) -> String {
    let exe = match std::env::current_exe() {
        Ok(e) => e,
        Err(_) => return "ABORT".into(),
    };
    let child = Command::new(exe)
        .arg("--one-sched")
        .stdin(Stdio::piped())
        .stdout(Stdio::piped())
        .stderr(Stdio::null())
        .spawn();
    let mut child = match child {
        Ok(c) => c,
        Err(_) => return "ABORT".into(),
    };
    {
        let mut stdin = child.stdin.take().expect("piped stdin");
        let _ = writeln!(stdin, "{} {}", cmd, args.join(" "));
    }
    match child.wait_with_output() {
        Ok(o) => {
            let text = String::from_utf8_lossy(&o.stdout);
            match text.lines().next() {
                Some(l) if !l.is_empty() => l.to_string(),
                _ => "ABORT".into(),
            }
        }
        Err(_) => "ABORT".into(),
    }
}

/// Child side (`--one-sched`): read one case line from stdin, execute it, print one result line.
pub fn sched_child_main() {
    std::panic::set_hook(Box::new(|_| {}));
    let mut line = String::new();
    let _ = std::io::stdin().lock().read_line(&mut line);
    // the watchdog grows with the schedule: 20 s for ordinary cases, WATCHDOG_SECS for the bursts of tens of thousands of calls
    let secs = if line.len() > 50_000 { WATCHDOG_SECS } else { 20 };
    std::thread::spawn(move || {
        std::thread::sleep(std::time::Duration::from_secs(secs));
        println!("TIMEOUT");
        std::process::exit(3);
    });
    let toks: Vec<&str> = line.split_whitespace().collect();
    if toks.first() == Some(&"STRESS") && toks.len() == 3 {
        println!("{}", stress_child(toks[1].parse().unwrap_or(1), toks[2].parse().unwrap_or(1)));
        let _ = std::io::stdout().flush();
        std::process::exit(0);
    }
    let args: &[&str] = match toks.first() {
        Some(&"SCHED") => &toks[1..],
        Some(&"SCHEDX") => {
            ENTRY_MIX.store(true, std::sync::atomic::Ordering::SeqCst);
            &toks[1..]
        }
        Some(&"SCHEDT") => {
            TICKING.store(true, std::sync::atomic::Ordering::SeqCst);
            &toks[1..]
        }
        Some(&"SCHEDR") => {
            RND_ROUTE.store(true, std::sync::atomic::Ordering::SeqCst);
            &toks[1..]
        }
        _ => &toks[..],
    };
    let out = match parse(args) {
        Some(c) => execute(c),
        None => "BADCASE".to_string(),
    };
    println!("{}", out);
    let _ = std::io::stdout().flush();
    std::process::exit(0);
}

static ENTRY_MIX: std::sync::atomic::AtomicBool = std::sync::atomic::AtomicBool::new(false);
static TICKING: std::sync::atomic::AtomicBool = std::sync::atomic::AtomicBool::new(false);
static RND_ROUTE: std::sync::atomic::AtomicBool = std::sync::atomic::AtomicBool::new(false);

/// the C caller's view of bp7::ffi::Buffer (cbindgen header: `struct Buffer { uint8_t *data; uint32_t len; }`)
#[repr(C)]
struct CBuf {
    data: *mut u8,
    len: u32,
}

/// One call that generates a fresh creation timestamp, through the entry point number `k`.
fn fresh_timestamp(k: usize) -> bp7::CreationTimestamp {
    use bp7::EndpointID;
    if RND_ROUTE.load(std::sync::atomic::Ordering::SeqCst) {
        if k % 2 == 0 {
            return bp7::helpers::rnd_bundle(bp7::CreationTimestamp::now()).primary.creation_timestamp;
        }
        unsafe {
            let p = bp7::ffi::helper_rnd_bundle();
            let c = p as *mut CBuf;
            let bytes = std::slice::from_raw_parts((*c).data, (*c).len as usize).to_vec();
            bp7::ffi::buffer_free(p);
            return bp7::Bundle::try_from(bytes).expect("helper_rnd_bundle decodes").primary.creation_timestamp;
        }
    }
    if !ENTRY_MIX.load(std::sync::atomic::Ordering::SeqCst) {
        return bp7::CreationTimestamp::now();
    }
    let src = EndpointID::with_dtn("//src/app").expect("eid");
    let dst = EndpointID::with_dtn("//dst/app").expect("eid");
    // (helper_rnd_bundle is not in the rotation: it draws two timestamps per call - new_std_payload_bundle inside rnd_bundle draws one
    // that is then overwritten - so it is not ONE call of the generator)
    match k % 4 {
        0 => bp7::CreationTimestamp::now(),
        3 => {
            // the C interface: bundle_new_default(src, dst, lifetime, payload buffer)
            let s = std::ffi::CString::new("dtn://src/app").expect("cstring");
            let t = std::ffi::CString::new("dtn://dst/app").expect("cstring");
            let mut data = vec![1u8, 2, 3];
            let mut buf = CBuf { data: data.as_mut_ptr(), len: data.len() as u32 };
            unsafe {
                let b = bp7::ffi::bundle_new_default(s.as_ptr(), t.as_ptr(), 3600000, &mut buf as *mut CBuf as *mut bp7::ffi::Buffer);
                let ts = (*b).primary.creation_timestamp.clone();
                bp7::ffi::bundle_free(b);
                ts
            }
        }
        1 => bp7::bundle::new_std_payload_bundle(src, dst, b"x".to_vec()).primary.creation_timestamp,
        _ => {
            // a subject bundle that does not request status times: the report bundle's own creation timestamp is the only fresh one
            let mut p = bp7::primary::PrimaryBlock::new();
            p.destination = dst;
            p.source = src.clone();
            p.report_to = src.clone();
            p.creation_timestamp = bp7::CreationTimestamp::with_time_and_seq(1, 0);
            p.lifetime = std::time::Duration::from_secs(3600);
            let subject = bp7::Bundle::new(
                p,
                vec![bp7::canonical::new_payload_block(bp7::flags::BlockControlFlags::empty(), b"y".to_vec())],
            );
            bp7::administrative_record::new_status_report_bundle(
                &subject,
                src,
                bp7::crc::CRC_NO,
                bp7::administrative_record::RECEIVED_BUNDLE,
                bp7::administrative_record::NO_INFORMATION,
            )
            .primary
            .creation_timestamp
        }
    }
}

struct St {
    granted: Option<usize>,          // the thread allowed to run its next step
    parked: Vec<bool>, // thread waits at a yield point (or at the start of its next call)
    done: Vec<bool>,   // thread has returned from all its calls
    returned: Vec<usize>, // calls completed per thread
    results: Vec<(usize, u64, u64)>, // (tid, time, seq) in completion order
    panicked: bool,
}
type Shared = Arc<(Mutex<St>, Condvar)>;

/// Park the calling worker until the driver grants it one step.
fn park(sh: &Shared, id: usize) {
    let (m, cv) = &**sh;
    let mut st = m.lock().unwrap();
    st.parked[id] = true;
    cv.notify_all();
    while st.granted != Some(id) {
        st = cv.wait(st).unwrap();
    }
    st.granted = None;
    st.parked[id] = false;
}

fn worker(sh: Shared, id: usize, readings: Vec<u64>) {
    let hook_sh = sh.clone();
    bp7::verif_hooks::set_yield_hook(Some(Box::new(move |_op| park(&hook_sh, id))));
    for (k, r) in readings.into_iter().enumerate() {
        park(&sh, id); // the grant that starts the call
        if TICKING.load(std::sync::atomic::Ordering::SeqCst) {
            bp7::verif_hooks::set_thread_clock_script(Some(vec![r, r.saturating_add(1)]));
        } else {
            bp7::verif_hooks::set_thread_clock_ms(Some(r));
        }
        let res = std::panic::catch_unwind(move || fresh_timestamp(id + k + 1));
        let (m, _) = &*sh;
        let mut st = m.lock().unwrap();
        match res {
            Ok(ts) => st.results.push((id, ts.dtntime(), ts.seqno())),
            Err(_) => st.panicked = true,
        }
        st.returned[id] += 1;
    }
    bp7::verif_hooks::set_yield_hook(None);
    let (m, cv) = &*sh;
    m.lock().unwrap().done[id] = true;
    cv.notify_all();
}

/// One scheduler grant: returns when thread t is parked again or has finished. No-op on a finished thread.
fn grant(sh: &Shared, t: usize) {
    let (m, cv) = &**sh;
    let mut st = m.lock().unwrap();
    while !(st.parked[t] || st.done[t]) {
        st = cv.wait(st).unwrap();
    }
    if st.done[t] {
        return;
    }
    st.granted = Some(t);
    cv.notify_all();
    while st.granted.is_some() || !(st.parked[t] || st.done[t]) {
        st = cv.wait(st).unwrap();
    }
}

fn execute(c: Case) -> String {
    let n = c.readings.len();
    let sh: Shared = Arc::new((
        Mutex::new(St {
            granted: None,
            parked: vec![false; n],
            done: vec![false; n],
            returned: vec![0; n],
            results: Vec::new(),
            panicked: false,
        }),
        Condvar::new(),
    ));
    let calls: Vec<usize> = c.readings.iter().map(|r| r.len()).collect();
    let mut handles = Vec::new();
    for (id, r) in c.readings.into_iter().enumerate() {
        let s = sh.clone();
        handles.push(std::thread::spawn(move || worker(s, id, r)));
    }
    let is_done = |t: usize| sh.0.lock().unwrap().done[t];
    let returned = |t: usize| sh.0.lock().unwrap().returned[t];
    // run thread t until it has returned once more (or has no call left); false = no progress
    let finish_call = |t: usize| -> bool {
        let before = returned(t);
        for _ in 0..64 {
            if is_done(t) || returned(t) > before {
                return true;
            }
            grant(&sh, t);
        }
        is_done(t) || returned(t) > before
    };
    for &t in &c.entries {
        if c.whole_calls {
            if !finish_call(t) {
                return "STUCK".into();
            }
        } else {
            grant(&sh, t);
        }
    }
    // completion: thread after thread
    for t in 0..n {
        for _ in 0..=calls[t] {
            if is_done(t) {
                break;
            }
            if !finish_call(t) {
                return "STUCK".into();
            }
        }
        if !is_done(t) {
            return "STUCK".into();
        }
    }
    for h in handles {
        let _ = h.join();
    }
    let st = sh.0.lock().unwrap();
    if st.panicked {
        return "PANIC".into();
    }
    let mut out = String::from("OK");
    for (t, time, seq) in &st.results {
        out.push_str(&format!(" {}:{}:{}", t, time, seq));
    }
    out
}
