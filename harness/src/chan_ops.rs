use crate::bio::*;
use crate::proto::*;
use bp7::Bundle;
use std::convert::TryFrom;

fn show_validity(b: &Bundle) -> String {
    match b.validate() {
        Ok(()) => "VALID".into(),
        Err(e) => format!("INVALID {}", e.len()),
    }
}

/// VALIDATE x<bytes> -> VALID | INVALID <n> | DECERR
pub fn validate(args: &[&str]) -> String {
    match args {
        [t] => match get_bytes(t) {
            Some(b) => match Bundle::try_from(b.as_slice()) {
                Ok(bndl) => show_validity(&bndl),
                Err(_) => "DECERR".into(),
            },
            None => "BADCASE".into(),
        },
        _ => "BADCASE".into(),
    }
}

/// OPS <clock_ms> <bundle> ; op ; op ...
pub fn ops(args: &[&str]) -> String {
    let mut t = Toks::new(args);
    let clock = match t.u64() {
        Some(c) => c,
        None => return "BADCASE".into(),
    };
    let mut b = if t.peek() == Some("X") {
        t.next();
        let bytes = match t.bytes() {
            Some(b) => b,
            None => return "BADCASE".into(),
        };
        match Bundle::try_from(bytes.as_slice()) {
            Ok(b) => b,
            Err(_) => return "DECERR".into(),
        }
    } else {
        match parse_bundle(&mut t) {
            Some(b) => b,
            None => return "SKIP".into(),
        }
    };
    bp7::verif_hooks::set_thread_clock_ms(Some(clock));
    let mut out = String::from("OK");
    while !t.done() {
        if t.next() != Some(";") {
            return "BADCASE".into();
        }
        let ret: String = match t.next() {
            Some("ADD") => match parse_canonical(&mut t) {
                Some(c) => {
                    b.add_canonical_block(c);
                    "-".into()
                }
                None => return "SKIP".into(),
            },
            Some("SETPAYLOAD") => match t.bytes() {
                Some(d) => {
                    b.set_payload(d);
                    "-".into()
                }
                None => return "BADCASE".into(),
            },
            Some("SETPB") => match parse_canonical(&mut t) {
                Some(c) => {
                    b.set_payload_block(c);
                    "-".into()
                }
                None => return "SKIP".into(),
            },
            Some("SETCRC") => match t.u8() {
                Some(k) => {
                    b.set_crc(k);
                    "-".into()
                }
                None => return "SKIP".into(),
            },
            Some("UPD") => {
                let e = match parse_eid(&mut t) {
                    Some(e) => e,
                    None => return "SKIP".into(),
                };
                let n = match t.n() {
                    Some(n) => n,
                    None => return "BADCASE".into(),
                };
                show_bool(b.update_extensions(e, n)).into()
            }
            Some("Q") => {
                let crc = b.clone().crc_valid();
                let prev = match b.previous_node() {
                    Some(e) => show_eid(e),
                    None => "-".into(),
                };
                let opt = |o: Option<String>| match o {
                    Some(x) => show_bytes(x.as_bytes()),
                    None => "-".to_string(),
                };
                let mut eids = vec![b.primary.destination.clone(), b.primary.source.clone(), b.primary.report_to.clone()];
                if let Some(e) = b.previous_node() {
                    eids.push(e.clone());
                }
                // what a receiver does with the payload of an administrative-record bundle
                let rec = if b.is_administrative_record() {
                    match b.payload() {
                        Some(d) => match serde_cbor::from_slice::<bp7::administrative_record::AdministrativeRecord>(d) {
                            Ok(_) => "OK",
                            Err(_) => "ERR",
                        },
                        None => "NOPL",
                    }
                } else {
                    "-"
                };
                let mut q = format!(
                    "CRC {} ADM {} REC {} PREV {} LTX {} TS {}",
                    show_bool(crc),
                    show_bool(b.is_administrative_record()),
                    rec,
                    prev,
                    show_bool(b.primary.is_lifetime_exceeded()),
                    show_bytes(b.primary.creation_timestamp.to_string().as_bytes())
                );
                for e in &eids {
                    q.push_str(&format!(
                        " E {} {} {} {} {} {}",
                        show_bytes(e.to_string().as_bytes()),
                        opt(e.node()),
                        opt(e.node_id()),
                        opt(e.service_name()),
                        show_bool(e.is_node_id()),
                        show_bool(e.is_non_singleton())
                    ));
                }
                q
            }
            Some("SORT") => {
                b.sort_canonicals();
                "-".into()
            }
            // BUILD: the bundle goes through BundleBuilder (primary + canonicals as they are now); BUILDP x<payload>: canonicals, then
            // payload() pushes the payload block; build() sorts and insists on payload data in the last block
            Some(k @ "BUILD") | Some(k @ "BUILDP") => {
                let mut bb = bp7::bundle::BundleBuilder::new().primary(b.primary.clone()).canonicals(b.canonicals.clone());
                if k == "BUILDP" {
                    match t.bytes() {
                        Some(d) => bb = bb.payload(d),
                        None => return "BADCASE".into(),
                    }
                }
                match bb.build() {
                    Ok(nb) => {
                        b = nb;
                        "OK".into()
                    }
                    Err(_) => "ERR".into(),
                }
            }
            // ADDC: add_canonical_block with a block made by the public constructor for its type (new_hop_count_block,
            // new_bundle_age_block, new_previous_node_block, new_payload_block, new_canonical_block) where the block's shape allows
            Some("ADDC") => match parse_canonical(&mut t) {
                Some(c) => {
                    use bp7::canonical::*;
                    use bp7::flags::BlockControlFlags;
                    let f = BlockControlFlags::from_bits_retain(c.block_control_flags);
                    let made = if c.crc != bp7::crc::CrcValue::CrcNo {
                        c.clone()
                    } else {
                        match (c.block_type, c.data()) {
                            (HOP_COUNT_BLOCK, CanonicalData::HopCount(l, 0)) => new_hop_count_block(c.block_number, f, *l),
                            (BUNDLE_AGE_BLOCK, CanonicalData::BundleAge(a)) => new_bundle_age_block(c.block_number, f, *a),
                            (PREVIOUS_NODE_BLOCK, CanonicalData::PreviousNode(e)) => new_previous_node_block(c.block_number, f, e.clone()),
                            (PAYLOAD_BLOCK, CanonicalData::Data(d)) if c.block_number == 1 => new_payload_block(f, d.clone()),
                            (ty, d) => new_canonical_block(ty, c.block_number, c.block_control_flags, d.clone()),
                        }
                    };
                    b.add_canonical_block(made);
                    "-".into()
                }
                None => return "SKIP".into(),
            },
            // LIFENS <n < 1000000>: the lifetime Duration gets a sub-millisecond part (only possible through the API, not from the
            // wire); the property counts the lifetime in whole milliseconds, so nothing observable may change
            Some("LIFENS") => match t.u64() {
                Some(n) if n < 1_000_000 => {
                    b.primary.lifetime += std::time::Duration::from_nanos(n);
                    "-".into()
                }
                _ => return "SKIP".into(),
            },
            _ => return "BADCASE".into(),
        };
        out.push_str(&format!(" ; {} {}", ret, show_bundle(&b)));
    }
    bp7::verif_hooks::set_thread_clock_ms(None);
    let validity = show_validity(&b);
    let pl = match b.payload() {
        Some(d) => show_bytes(d),
        None => "NONE".into(),
    };
    let bytes = b.to_cbor();
    // the wire carries whole milliseconds: a sub-millisecond part put into the lifetime by LIFENS cannot (and need not) come back
    b.primary.lifetime = std::time::Duration::from_millis(b.primary.lifetime.as_millis() as u64);
    let main = Bundle::try_from(bytes.as_slice()).ok();
    // .. through every public route (try_from(Vec<u8>), serde_cbor::from_slice / from_reader, serde's Serialize for Bundle)
    let alt = crate::bio::alt_route_diff(&b, &bytes, &main);
    let rt = match main {
        Some(d) => d == b && alt.is_none(),
        None => false,
    };
    format!("{} FINAL {} PL {} RT {}", out, validity, pl, show_bool(rt))
}
