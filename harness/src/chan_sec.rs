//! K-sec channel (property C16): BPSec integrity — IPPT assembly, HMAC results, abstract security block.
//! Mirrors coq/theories/Run/RunSec.v.  Everything is driven through the public API of bp7::security
//! (feature `bpsec`): IpptBuilder / IntegrityProtectedPlaintext::create, BibSecurityContextParameter::new,
//! IntegrityBlockBuilder, IntegrityBlock::compute_hmac / to_cbor, new_integrity_block.
//!
//! stdout discipline: `IntegrityProtectedPlaintext::create` prints the IPPT with `println!` from inside
//! the library.  The harness' result lines travel over the same file descriptor, so every call into
//! bp7::security runs inside a `Quiet` guard: the std stdout buffer is flushed first (nothing of ours
//! can be lost), fd 1 is pointed at /dev/null with dup2, the library is called, std stdout is flushed
//! again (the library's line goes to /dev/null), and fd 1 is restored — also when the call panics (Drop).
//! dup/dup2/open/close are taken from the C library std already links against; no extra crate is needed.
use crate::bio::*;
use crate::proto::*;
use bp7::canonical::CanonicalBlock;
use bp7::flags::BlockControlFlags;
use bp7::primary::PrimaryBlock;
use bp7::security::*;
use bp7::{Bundle, EndpointID};
use std::convert::{TryFrom, TryInto};
use std::io::Write;

extern "C" {
    fn dup(fd: i32) -> i32;
    fn dup2(old: i32, new: i32) -> i32;
    fn close(fd: i32) -> i32;
    fn open(path: *const u8, flags: i32, ...) -> i32;
}

struct Quiet {
    saved: i32,
}
impl Quiet {
    fn new() -> Quiet {
        let _ = std::io::stdout().flush();
        unsafe {
            let saved = dup(1);
            let null = open(b"/dev/null\0".as_ptr(), 1 /* O_WRONLY */);
            if saved >= 0 && null >= 0 {
                dup2(null, 1);
            }
            if null >= 0 {
                close(null);
            }
            Quiet { saved }
        }
    }
}
impl Drop for Quiet {
    fn drop(&mut self) {
        let _ = std::io::stdout().flush();
        unsafe {
            if self.saved >= 0 {
                dup2(self.saved, 1);
                close(self.saved);
            }
        }
    }
}

fn u16_of(t: &mut Toks) -> Option<u16> {
    u16::try_from(t.n()?).ok()
}

/// `-` | `P ...`
fn opt_primary(t: &mut Toks) -> Result<Option<PrimaryBlock>, &'static str> {
    if t.peek() == Some("-") {
        t.next();
        return Ok(None);
    }
    parse_primary(t).map(Some).ok_or("SKIP")
}
/// `-` | `H <type> <number> <flags>`
fn opt_sec_header(t: &mut Toks) -> Result<Option<SecurityBlockHeader>, &'static str> {
    if t.peek() == Some("-") {
        t.next();
        return Ok(None);
    }
    if t.next() != Some("H") {
        return Err("BADCASE");
    }
    let ty = t.u64().ok_or("SKIP")?;
    let num = t.u64().ok_or("SKIP")?;
    let fl = t.u8().ok_or("SKIP")?;
    Ok(Some((ty, num, fl)))
}

fn new_ippt(flags: u16, primary: &Option<PrimaryBlock>, sh: &Option<SecurityBlockHeader>) -> bp7::security::IntegrityProtectedPlaintext {
    let mut b = IpptBuilder::new().scope_flags(flags);
    if let Some(p) = primary {
        b = b.primary_block(p.clone());
    }
    if let Some(h) = sh {
        b = b.security_header(*h);
    }
    b.build()
}
/// The other public ways to the same object: builder obtained through Default, target contents preset on the builder (create()
/// computes them from the target and must not keep what was there), a clone of the built object, and - when nothing but the
/// defaults is asked for - IntegrityProtectedPlaintext::new() / default().  RFC 9173 3.7 fixes the plaintext by (scope flags,
/// primary block, target, security header) alone, so every one of them must give the plaintext of the plain builder path.
#[inline(never)]
fn fill_ippt(mut b: IpptBuilder, flags: u16, primary: &Option<PrimaryBlock>, sh: &Option<SecurityBlockHeader>) -> IpptBuilder {
    b = b.scope_flags(flags);
    if let Some(p) = primary {
        b = b.primary_block(p.clone());
    }
    if let Some(h) = sh {
        b = b.security_header(*h);
    }
    b
}
fn alt_ippts(flags: u16, primary: &Option<PrimaryBlock>, sh: &Option<SecurityBlockHeader>) -> Vec<bp7::security::IntegrityProtectedPlaintext> {
    let mut v = Vec::new();
    v.push(fill_ippt(IpptBuilder::default(), flags, primary, sh).build());
    v.push(fill_ippt(IpptBuilder::new(), flags, primary, sh).security_target_contents(vec![0x42, 0x01, 0x02]).build());
    v.push(fill_ippt(IpptBuilder::new().security_target_contents(b"stale".to_vec()), flags, primary, sh).build());
    let orig = new_ippt(flags, primary, sh);
    v.push(orig.clone());
    v.push(fill_ippt(IpptBuilder::new(), flags, primary, sh).clone().build());
    if flags == 7 && primary.is_none() && sh.is_none() {
        v.push(bp7::security::IntegrityProtectedPlaintext::new());
        v.push(bp7::security::IntegrityProtectedPlaintext::default());
    }
    v
}
/// One plaintext from a fresh object.  `create` takes `&mut self`, so the object can be used again: the same call repeated on the
/// same object must give the same plaintext (an empty vector marks the case where it does not - never a valid IPPT); the same holds
/// for the objects of `alt_ippts`.
fn make_ippt(flags: u16, primary: &Option<PrimaryBlock>, sh: &Option<SecurityBlockHeader>, target: &CanonicalBlock) -> Vec<u8> {
    let mut ippt = new_ippt(flags, primary, sh);
    let _q = Quiet::new();
    let first = ippt.create(target);
    let second = ippt.create(target);
    if first != second {
        return Vec::new();
    }
    for mut other in alt_ippts(flags, primary, sh) {
        if other.create(target) != first {
            return Vec::new();
        }
    }
    first
}
/// The plaintexts of several targets from ONE object (the way an application signs a multi-target BIB).
fn make_ippts(flags: u16, primary: &Option<PrimaryBlock>, sh: &Option<SecurityBlockHeader>, targets: &[&CanonicalBlock]) -> Vec<Vec<u8>> {
    let mut ippt = new_ippt(flags, primary, sh);
    let _q = Quiet::new();
    targets.iter().map(|t| ippt.create(t)).collect()
}

/// IPPT <scope flags> <primary | -> <H type num flags | -> <canonical>   ->   OK x<ippt>
pub fn ippt(args: &[&str]) -> String {
    let mut t = Toks::new(args);
    let flags = match u16_of(&mut t) {
        Some(f) => f,
        None => return "BADCASE".into(),
    };
    let primary = match opt_primary(&mut t) {
        Ok(p) => p,
        Err(e) => return e.into(),
    };
    let sh = match opt_sec_header(&mut t) {
        Ok(h) => h,
        Err(e) => return e.into(),
    };
    let target = match parse_canonical(&mut t) {
        Some(c) => c,
        None => return "SKIP".into(),
    };
    if !t.done() {
        return "BADCASE".into();
    }
    format!("OK {}", show_bytes(&make_ippt(flags, &primary, &sh, &target)))
}

/// `-` | `<id> <value>`
fn opt_pair_n(t: &mut Toks) -> Result<Option<(u8, u16)>, &'static str> {
    if t.peek() == Some("-") {
        t.next();
        return Ok(None);
    }
    let id = t.u8().ok_or("SKIP")?;
    let v = u16_of(t).ok_or("SKIP")?;
    Ok(Some((id, v)))
}
fn opt_pair_b(t: &mut Toks) -> Result<Option<(u8, Vec<u8>)>, &'static str> {
    if t.peek() == Some("-") {
        t.next();
        return Ok(None);
    }
    let id = t.u8().ok_or("SKIP")?;
    let v = t.bytes().ok_or("BADCASE")?;
    Ok(Some((id, v)))
}

/// BIB x<key> {RESIGN x<old key> <k> <number>*k}.. <scope flags> <ctx flags> <source eid> (NOPAR | PAR <sha> <wrapped key> <scope>)
///     <bib number> <bib flags> <bundle> T <target numbers...> I <block numbers an IPPT is built for, in this order...>
/// Each RESIGN round is an EARLIER `compute_hmac(old key, IPPTs of the listed block numbers)` on the SAME IntegrityBlock (key
/// rotation / re-signing); rounds run in the order written, then the final `compute_hmac(key, I list)`.
///  -> OK IPPT <k> x.. .. RES <k> (<n> (<id> x<mac>)*)* ASB x.. BLK x.. BUNDLE x..  |  BUILDERR | NOBLOCK | PANIC
/// where <sha>/<scope> ::= - | <id> <value>,  <wrapped key> ::= - | <id> x<bytes>.
/// The glue between the library calls is the one of tests/security_tests.rs (RFC 9173 A.1):
/// security header = (INTEGRITY_BLOCK, bib number, bib flags); one IPPT per listed block number, created from the first
/// block of the bundle carrying that number; compute_hmac(key, [(number, ippt)]); to_cbor; new_integrity_block;
/// the BIB appended to the bundle's blocks, sort_canonicals, Bundle::to_cbor.
pub fn bib(args: &[&str]) -> String {
    let mut t = Toks::new(args);
    let key = match t.bytes() {
        Some(k) => k,
        None => return "BADCASE".into(),
    };
    let mut rounds: Vec<(Vec<u8>, Vec<u64>)> = Vec::new();
    let mut rounds_skip = false;
    while t.peek() == Some("RESIGN") {
        t.next();
        let k = match t.bytes() {
            Some(k) => k,
            None => return "BADCASE".into(),
        };
        let n = match t.n() {
            Some(n) if n < 1000 => n,
            _ => return "BADCASE".into(),
        };
        let mut nums = Vec::new();
        for _ in 0..n {
            match t.n() {
                Some(x) => match u64::try_from(x) {
                    Ok(x) => nums.push(x),
                    Err(_) => rounds_skip = true,
                },
                None => return "BADCASE".into(),
            }
        }
        rounds.push((k, nums));
    }
    let flags = match u16_of(&mut t) {
        Some(f) => f,
        None => return "BADCASE".into(),
    };
    let ctx_flags = match t.u8() {
        Some(f) => f,
        None => return "SKIP".into(),
    };
    let source: EndpointID = match parse_eid(&mut t) {
        Some(e) => e,
        None => return "SKIP".into(),
    };
    let params = match t.next() {
        Some("NOPAR") => None,
        Some("PAR") => {
            let sv = match opt_pair_n(&mut t) {
                Ok(x) => x,
                Err(e) => return e.into(),
            };
            let wk = match opt_pair_b(&mut t) {
                Ok(x) => x,
                Err(e) => return e.into(),
            };
            let isf = match opt_pair_n(&mut t) {
                Ok(x) => x,
                Err(e) => return e.into(),
            };
            Some(BibSecurityContextParameter::new(sv, wk, isf))
        }
        _ => return "BADCASE".into(),
    };
    let bib_num = match t.u64() {
        Some(n) => n,
        None => return "SKIP".into(),
    };
    let bib_flags = match t.u8() {
        Some(n) => n,
        None => return "SKIP".into(),
    };
    let bundle = match parse_bundle(&mut t) {
        Some(b) => b,
        None => return "SKIP".into(),
    };
    if t.next() != Some("T") {
        return "BADCASE".into();
    }
    let mut targets: Vec<u64> = Vec::new();
    loop {
        match t.peek() {
            Some("I") => {
                t.next();
                break;
            }
            Some(_) => match t.u64() {
                Some(n) => targets.push(n),
                None => return "SKIP".into(),
            },
            None => return "BADCASE".into(),
        }
    }
    let mut ippt_nums: Vec<u64> = Vec::new();
    while !t.done() {
        match t.u64() {
            Some(n) => ippt_nums.push(n),
            None => return "SKIP".into(),
        }
    }
    // the key type of compute_hmac is [u8; 16]: other key lengths cannot be expressed
    let key16: [u8; 16] = match key.as_slice().try_into() {
        Ok(k) => k,
        Err(_) => return "SKIP".into(),
    };
    if rounds_skip {
        return "SKIP".into();
    }
    let mut rounds16: Vec<([u8; 16], Vec<u64>)> = Vec::new();
    for (k, nums) in rounds {
        match <[u8; 16]>::try_from(k.as_slice()) {
            Ok(k16) => rounds16.push((k16, nums)),
            Err(_) => return "SKIP".into(),
        }
    }

    let sh: SecurityBlockHeader = (INTEGRITY_BLOCK, bib_num, bib_flags);
    let primary = Some(bundle.primary.clone());
    let mut ippt_targets: Vec<&CanonicalBlock> = Vec::new();
    for n in &ippt_nums {
        match bundle.canonicals.iter().find(|c| c.block_number == *n) {
            Some(c) => ippt_targets.push(c),
            None => return "NOBLOCK".into(),
        }
    }
    let ippts: Vec<(u64, Vec<u8>)> =
        ippt_nums.iter().cloned().zip(make_ippts(flags, &primary, &Some(sh), &ippt_targets)).collect();
    let mut old_ippts: Vec<([u8; 16], Vec<(u64, Vec<u8>)>)> = Vec::new();
    for (k16, nums) in &rounds16 {
        let mut l: Vec<(u64, Vec<u8>)> = Vec::new();
        for n in nums {
            match bundle.canonicals.iter().find(|c| c.block_number == *n) {
                Some(c) => l.push((*n, make_ippt(flags, &primary, &Some(sh), c))),
                None => return "NOBLOCK".into(),
            }
        }
        old_ippts.push((*k16, l));
    }
    let builder_targets = targets.clone();
    let builder_source = source.clone();
    let builder_params = params.clone();
    let mut builder = IntegrityBlockBuilder::new()
        .security_targets(targets)
        .security_context_flags(ctx_flags)
        .security_source(source);
    if let Some(p) = params {
        builder = builder.security_context_parameters(p);
    }
    // the other public ways to the same block: builder through Default, stale results preset on the builder (compute_hmac
    // replaces the results), a clone taken before signing; BibSecurityContextParameter::default() when the parameters are the defaults
    let alt_builders = vec![
        builder.clone().security_results(vec![vec![(9, b"stale".to_vec())]]),
        {
            let mut b = IntegrityBlockBuilder::default()
                .security_targets(builder_targets.clone())
                .security_context_flags(ctx_flags)
                .security_source(builder_source.clone());
            if let Some(p) = &builder_params {
                b = b.security_context_parameters(if *p == BibSecurityContextParameter::default() { BibSecurityContextParameter::default() } else { p.clone() });
            }
            b
        },
    ];
    let mut ib = match builder.build() {
        Ok(ib) => ib,
        Err(_) => return "BUILDERR".into(),
    };
    let mut alts: Vec<IntegrityBlock> = alt_builders.into_iter().filter_map(|b| b.build().ok()).collect();
    alts.push(ib.clone());
    // earlier signatures on the same block, oldest first
    for (k16, l) in &old_ippts {
        let list: Vec<(u64, &Vec<u8>)> = l.iter().map(|(n, b)| (*n, b)).collect();
        let _q = Quiet::new();
        ib.compute_hmac(*k16, list);
    }
    let list: Vec<(u64, &Vec<u8>)> = ippts.iter().map(|(n, b)| (*n, b)).collect();
    {
        let _q = Quiet::new();
        ib.compute_hmac(key16, list);
    }
    let mut out = format!("OK IPPT {}", ippts.len());
    for (_, b) in &ippts {
        out.push(' ');
        out.push_str(&show_bytes(b));
    }
    out.push_str(&format!(" RES {}", ib.security_results.len()));
    for r in &ib.security_results {
        out.push_str(&format!(" {}", r.len()));
        for (id, mac) in r {
            out.push_str(&format!(" {} {}", id, show_bytes(mac)));
        }
    }
    let asb = {
        let _q = Quiet::new();
        ib.to_cbor()
    };
    for mut other in alts {
        let _q = Quiet::new();
        for (k16, l) in &old_ippts {
            let list: Vec<(u64, &Vec<u8>)> = l.iter().map(|(n, b)| (*n, b)).collect();
            other.compute_hmac(*k16, list);
        }
        let list: Vec<(u64, &Vec<u8>)> = ippts.iter().map(|(n, b)| (*n, b)).collect();
        other.compute_hmac(key16, list);
        if other.security_results != ib.security_results || other.to_cbor() != asb {
            drop(_q);
            return "UNSTABLE another public way of building the same integrity block gives other results".into();
        }
    }
    out.push_str(&format!(" ASB {}", show_bytes(&asb)));
    let blk = new_integrity_block(bib_num, BlockControlFlags::from_bits_truncate(bib_flags), asb);
    let blk_bytes = serde_cbor::to_vec(&blk).expect("canonical block encodes");
    out.push_str(&format!(" BLK {}", show_bytes(&blk_bytes)));
    let mut cs = bundle.canonicals.clone();
    cs.push(blk);
    let mut b2 = Bundle::new(bundle.primary.clone(), cs);
    b2.sort_canonicals();
    out.push_str(&format!(" BUNDLE {}", show_bytes(&b2.to_cbor())));
    out
}
