use crate::proto::*;
use bp7::dtntime::{CreationTimestamp, DtnTimeHelpers};

pub fn unix(args: &[&str]) -> String {
    match args {
        [t] => match get_u64(t) {
            Some(t) => format!("OK {}", t.unix()),
            None => "BADCASE".into(),
        },
        _ => "BADCASE".into(),
    }
}
pub fn tstr(args: &[&str]) -> String {
    match args {
        [t] => match get_u64(t) {
            Some(t) => format!("OK {}", show_bytes(t.string().as_bytes())),
            None => "BADCASE".into(),
        },
        _ => "BADCASE".into(),
    }
}
pub fn tsfmt(args: &[&str]) -> String {
    match args {
        [t, s] => match (get_u64(t), get_u64(s)) {
            (Some(t), Some(s)) => {
                let ts = CreationTimestamp::with_time_and_seq(t, s);
                format!("OK {}", show_bytes(ts.to_string().as_bytes()))
            }
            _ => "BADCASE".into(),
        },
        _ => "BADCASE".into(),
    }
}
pub fn now(args: &[&str]) -> String {
    match args {
        [t] => match get_u64(t) {
            Some(c) => {
                bp7::verif_hooks::set_thread_clock_ms(Some(c));
                let r = std::panic::catch_unwind(bp7::dtn_time_now);
                bp7::verif_hooks::set_thread_clock_ms(None);
                match r {
                    Ok(v) => format!("OK {}", v),
                    Err(_) => "PANIC".into(),
                }
            }
            None => "BADCASE".into(),
        },
        _ => "BADCASE".into(),
    }
}

/// TICK <r1> <r2> .. -> OK <dtn_time_now()> READS <n> FIRST <r1> LAST <last reading taken> | PANIC
/// (ticking clock hook: every clock read of this thread takes the next reading, the last one repeats)
pub fn tick(args: &[&str]) -> String {
    let rs: Option<Vec<u64>> = args.iter().map(|t| get_u64(t)).collect();
    match rs {
        Some(rs) if !rs.is_empty() => {
            bp7::verif_hooks::set_thread_clock_script(Some(rs.clone()));
            let r = std::panic::catch_unwind(bp7::dtn_time_now);
            let n = bp7::verif_hooks::thread_clock_reads();
            bp7::verif_hooks::set_thread_clock_script(None);
            match r {
                Ok(v) => format!("OK {} READS {} FIRST {} LAST {}", v, n, rs[0], rs[n.max(1).min(rs.len()) - 1]),
                Err(_) => "PANIC".into(),
            }
        }
        _ => "BADCASE".into(),
    }
}
