use crate::proto::*;
use bp7::dtntime::{CreationTimestamp, DtnTimeHelpers};

pub fn unix(args: &[&str]) -> String {
    match args {
        [t] => match get_u64(t) {
            Some(t) => format!("OK {}", t.unix()),
            None => "BADCASE".into(),
        },
        _ => "BADCASE".into(),
    }
}
pub fn tstr(args: &[&str]) -> String {
    match args {
        [t] => match get_u64(t) {
            Some(t) => format!("OK {}", show_bytes(t.string().as_bytes())),
            None => "BADCASE".into(),
        },
        _ => "BADCASE".into(),
    }
}
/// TSTRESS <t0> <step> <count>: the times t0, t0+step, .. formatted first by this thread alone (the reference), then by 8 threads at once,
/// 300 rounds each in different orders: formatting is a function of the time, whoever else is formatting  ->  OK <count> SAME | DIFF <t>
pub fn tstress(args: &[&str]) -> String {
    let (t0, step, count) = match args {
        [a, b, c] => match (get_u64(a), get_u64(b), get_u64(c)) {
            (Some(a), Some(b), Some(c)) if (1..=64).contains(&c) => (a, b, c),
            _ => return "BADCASE".into(),
        },
        _ => return "BADCASE".into(),
    };
    let times: Vec<u64> = (0..count).map(|i| t0.wrapping_add(step.wrapping_mul(i))).collect();
    let reference: Vec<(String, String)> =
        times.iter().map(|t| (t.string(), CreationTimestamp::with_time_and_seq(*t, 7).to_string())).collect();
    let times = std::sync::Arc::new(times);
    let reference = std::sync::Arc::new(reference);
    let barrier = std::sync::Arc::new(std::sync::Barrier::new(8));
    let hs: Vec<_> = (0..8usize)
        .map(|k| {
            let (times, reference, barrier) = (times.clone(), reference.clone(), barrier.clone());
            std::thread::spawn(move || {
                barrier.wait();
                for round in 0..300usize {
                    for j in 0..times.len() {
                        let i = (j * (2 * k + 1) + round + k) % times.len();
                        let t = times[i];
                        if t.string() != reference[i].0 || CreationTimestamp::with_time_and_seq(t, 7).to_string() != reference[i].1 {
                            return Some(t);
                        }
                    }
                }
                None
            })
        })
        .collect();
    let mut bad = None;
    for h in hs {
        match h.join() {
            Ok(Some(t)) => bad = Some(t),
            Ok(None) => {}
            Err(_) => return "PANIC".into(),
        }
    }
    match bad {
        Some(t) => format!("DIFF {}", t),
        None => format!("OK {} SAME", count),
    }
}
pub fn tsfmt(args: &[&str]) -> String {
    match args {
        [t, s] => match (get_u64(t), get_u64(s)) {
            (Some(t), Some(s)) => {
                let ts = CreationTimestamp::with_time_and_seq(t, s);
                format!("OK {}", show_bytes(ts.to_string().as_bytes()))
            }
            _ => "BADCASE".into(),
        },
        _ => "BADCASE".into(),
    }
}
pub fn now(args: &[&str]) -> String {
    match args {
        [t] => match get_u64(t) {
            Some(c) => {
                bp7::verif_hooks::set_thread_clock_ms(Some(c));
                let r = std::panic::catch_unwind(bp7::dtn_time_now);
                bp7::verif_hooks::set_thread_clock_ms(None);
                match r {
                    Ok(v) => format!("OK {}", v),
                    Err(_) => "PANIC".into(),
                }
            }
            None => "BADCASE".into(),
        },
        _ => "BADCASE".into(),
    }
}

/// TICK <r1> <r2> .. -> OK <dtn_time_now()> READS <n> FIRST <r1> LAST <last reading taken> | PANIC
/// (ticking clock hook: every clock read of this thread takes the next reading, the last one repeats)
pub fn tick(args: &[&str]) -> String {
    let rs: Option<Vec<u64>> = args.iter().map(|t| get_u64(t)).collect();
    match rs {
        Some(rs) if !rs.is_empty() => {
            bp7::verif_hooks::set_thread_clock_script(Some(rs.clone()));
            let r = std::panic::catch_unwind(bp7::dtn_time_now);
            let n = bp7::verif_hooks::thread_clock_reads();
            bp7::verif_hooks::set_thread_clock_script(None);
            match r {
                Ok(v) => format!("OK {} READS {} FIRST {} LAST {}", v, n, rs[0], rs[n.max(1).min(rs.len()) - 1]),
                Err(_) => "PANIC".into(),
            }
        }
        _ => "BADCASE".into(),
    }
}

/// REALNOW <n> -> OK | OK BAD <unix ms before> <dtn_time_now()> <unix ms after>
/// The REAL clock (no hook active): n times, dtn_time_now() is bracketed by two SystemTime readings taken by the harness;
/// floor(before) - offset <= answer <= floor(after) - offset must hold (samples during which the system clock stepped back are skipped).
pub fn realnow(args: &[&str]) -> String {
    let n = match args {
        [t] => match get_u64(t) {
            Some(n) if n <= 10_000_000 => n,
            _ => return "BADCASE".into(),
        },
        _ => return "BADCASE".into(),
    };
    bp7::verif_hooks::set_thread_clock_ms(None);
    bp7::verif_hooks::set_thread_clock_script(None);
    if bp7::verif_hooks::clock_ms().is_some() {
        return "SKIP".into(); // a process-wide override is active: not the real clock
    }
    let unix_ms = || std::time::SystemTime::now().duration_since(std::time::UNIX_EPOCH).map(|d| d.as_millis() as u64).unwrap_or(0);
    const OFFSET: u64 = 946_684_800_000;
    for i in 0..n {
        if i % 64 == 0 {
            std::thread::sleep(std::time::Duration::from_micros(137)); // drift through the sub-millisecond phases
        }
        let before = unix_ms();
        let r = std::panic::catch_unwind(bp7::dtn_time_now);
        let after = unix_ms();
        let v = match r {
            Ok(v) => v,
            Err(_) => return "PANIC".into(),
        };
        if after < before || before < OFFSET {
            continue;
        }
        if !(before - OFFSET <= v && v <= after - OFFSET) {
            return format!("OK BAD {} {} {}", before, v, after);
        }
    }
    "OK".into()
}
