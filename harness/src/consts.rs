//! `--consts`: print every protocol constant the Coq model mentions, as the COMPILED crate has it
//! (one `NAME VALUE` line each).  tools/gen_consts.py turns this into coq/theories/Gen/Consts.v, so the model is
//! regenerated from what the code says now, however the constants are spelled in the source (literal, expression,
//! const or static, derived from another constant).  Constants that are private to the crate are observed through
//! the public behaviour that exposes them.
use bp7::flags::*;

fn p<T: std::fmt::Display>(name: &str, v: T) {
    println!("{} {}", name, v);
}

fn scheme_code(eid: &bp7::EndpointID) -> u64 {
    match serde_cbor::value::to_value(eid) {
        Ok(serde_cbor::Value::Array(a)) => match a.first() {
            Some(serde_cbor::Value::Integer(i)) => *i as u64,
            _ => u64::MAX,
        },
        _ => u64::MAX,
    }
}

pub fn main() {
    use bp7::administrative_record as adm;
    use bp7::canonical as can;
    p("DTN_VERSION", bp7::bundle::DTN_VERSION);
    // pub(crate) in the crate: the block number new_payload_block hands out
    p("PAYLOAD_BLOCK_NUMBER", can::new_payload_block(BlockControlFlags::empty(), vec![]).block_number);
    p("PAYLOAD_BLOCK", can::PAYLOAD_BLOCK);
    p("PREVIOUS_NODE_BLOCK", can::PREVIOUS_NODE_BLOCK);
    p("BUNDLE_AGE_BLOCK", can::BUNDLE_AGE_BLOCK);
    p("HOP_COUNT_BLOCK", can::HOP_COUNT_BLOCK);
    p("CRC_NO", bp7::crc::CRC_NO);
    p("CRC_16", bp7::crc::CRC_16);
    p("CRC_32", bp7::crc::CRC_32);
    // private in eid.rs: the scheme code on the wire
    p("ENDPOINT_URI_SCHEME_DTN", scheme_code(&bp7::EndpointID::with_dtn("//a/b").expect("dtn eid")));
    p("ENDPOINT_URI_SCHEME_IPN", scheme_code(&bp7::EndpointID::with_ipn(1, 2).expect("ipn eid")));
    p("SECONDS1970_TO2K", bp7::dtntime::SECONDS1970_TO2K);
    // private in dtntime.rs: clock reading minus dtn_time_now() under the clock hook
    let c: u64 = 4_000_000_000_000;
    bp7::verif_hooks::set_thread_clock_ms(Some(c));
    p("MS1970_TO2K", c - bp7::dtn_time_now());
    bp7::verif_hooks::set_thread_clock_ms(None);
    p("DTN_TIME_EPOCH", bp7::dtntime::DTN_TIME_EPOCH);
    p("BUNDLE_STATUS_REPORT_TYPE_CODE", adm::BUNDLE_STATUS_REPORT_TYPE_CODE);
    p("MAX_STATUS_INFORMATION_POS", adm::MAX_STATUS_INFORMATION_POS);
    p("RECEIVED_BUNDLE", adm::RECEIVED_BUNDLE);
    p("FORWARDED_BUNDLE", adm::FORWARDED_BUNDLE);
    p("DELIVERED_BUNDLE", adm::DELIVERED_BUNDLE);
    p("DELETED_BUNDLE", adm::DELETED_BUNDLE);
    p("NO_INFORMATION", adm::NO_INFORMATION);
    p("LIFETIME_EXPIRED", adm::LIFETIME_EXPIRED);
    p("HOP_LIMIT_EXCEEDED", adm::HOP_LIMIT_EXCEEDED);
    p("BLOCK_UNSUPPORTED", adm::BLOCK_UNSUPPORTED);
    println!("#begin BlockControlFlags");
    for (n, f) in BlockControlFlags::all().iter_names() {
        p(n, f.bits());
    }
    println!("#end");
    p("BLOCK_ALL_BITS", BlockControlFlags::all().bits());
    println!("#begin BundleControlFlags");
    for (n, f) in BundleControlFlags::all().iter_names() {
        p(n, f.bits());
    }
    println!("#end");
    p("BUNDLE_ALL_BITS", BundleControlFlags::all().bits());
    {
        use bp7::security as sec;
        p("INTEGRITY_BLOCK", sec::INTEGRITY_BLOCK);
        p("CONFIDENTIALITY_BLOCK", sec::CONFIDENTIALITY_BLOCK);
        p("HMAC_SHA_256", sec::HMAC_SHA_256);
        p("HMAC_SHA_384", sec::HMAC_SHA_384);
        p("HMAC_SHA_512", sec::HMAC_SHA_512);
        p("BIB_HMAC_SHA2_ID", sec::BIB_HMAC_SHA2_ID);
        p("BIB_HMAC_SHA2_RESULT_ID", sec::BIB_HMAC_SHA2_RESULT_ID);
        p("SEC_CONTEXT_ABSENT", sec::SEC_CONTEXT_ABSENT);
        p("SEC_CONTEXT_PRESENT", sec::SEC_CONTEXT_PRESENT);
        println!("#begin IntegrityScopeFlags");
        for (n, f) in sec::IntegrityScopeFlags::all().iter_names() {
            p(n, f.bits());
        }
        println!("#end");
        p("INTEGRITY_ALL_BITS", sec::IntegrityScopeFlags::all().bits());
    }
    let a16 = bp7::crc::X25.algorithm;
    p("crc16_width", a16.width);
    p("crc16_poly", a16.poly);
    p("crc16_init", a16.init);
    p("crc16_xorout", a16.xorout);
    p("crc16_check", a16.check);
    p("crc16_residue", a16.residue);
    p("crc16_refin", a16.refin);
    p("crc16_refout", a16.refout);
    let a32 = bp7::crc::CASTAGNOLI.algorithm;
    p("crc32_width", a32.width);
    p("crc32_poly", a32.poly);
    p("crc32_init", a32.init);
    p("crc32_xorout", a32.xorout);
    p("crc32_check", a32.check);
    p("crc32_residue", a32.residue);
    p("crc32_refin", a32.refin);
    p("crc32_refout", a32.refout);
}
