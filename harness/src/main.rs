//! Correspondence harness: one case line on stdin -> one result line on stdout.
//! The same lines are fed to the extracted Coq model (ocaml/modelrun.ml); the driver diffs.
use std::io::{self, BufRead, Write};
use std::panic;

mod proto;
use proto::*;

mod chan_hex;

fn run_line(line: &str) -> String {
    let toks: Vec<&str> = line.split(' ').filter(|t| !t.is_empty()).collect();
    if toks.is_empty() {
        return "BADCASE".into();
    }
    let args = &toks[1..];
    let r = panic::catch_unwind(|| match toks[0] {
        "HEX" => chan_hex::hex(args),
        "UNHEX" => chan_hex::unhex(args),
        _ => "BADCASE".to_string(),
    });
    match r {
        Ok(s) => s,
        Err(_) => "PANIC".into(),
    }
}

fn main() {
    panic::set_hook(Box::new(|_| {}));
    let stdin = io::stdin();
    let stdout = io::stdout();
    let mut out = io::BufWriter::new(stdout.lock());
    for line in stdin.lock().lines() {
        let line = line.expect("stdin");
        let r = run_line(&line);
        writeln!(out, "{}", r).unwrap();
    }
    let _ = show_n(0);
}
