//! Correspondence harness: one case line on stdin -> one result line on stdout.
//! The same lines are fed to the extracted Coq model (ocaml/modelrun.ml); the driver diffs.
use std::io::{self, BufRead, Write};
use std::panic;

mod consts;
mod tables;
mod proto;
use proto::*;

mod bio;
mod chan_adm;
mod chan_api;
mod chan_bundle;
mod chan_cli;
mod chan_corrupt;
mod chan_eid;
mod chan_ffi;
mod chan_hex;
mod chan_id;
mod chan_json;
mod chan_now;
mod chan_ops;
mod chan_sec;
mod chan_time;

fn mode_of_build() -> &'static str {
    if cfg!(debug_assertions) {
        "D"
    } else {
        "R"
    }
}

fn run_line(line: &str) -> String {
    let mut toks: Vec<&str> = line.split(' ').filter(|t| !t.is_empty()).collect();
    if toks.is_empty() {
        return "BADCASE".into();
    }
    if toks[0] == "D" || toks[0] == "R" {
        if toks[0] != mode_of_build() {
            return "WRONGMODE".into();
        }
        toks.remove(0);
        if toks.is_empty() {
            return "BADCASE".into();
        }
    }
    if toks[0] == "PAIR" {
        // several commands on one line, executed one after the other by this thread (state that survives between calls is shared)
        let segs: Vec<&[&str]> = toks[1..].split(|t| *t == "||").collect();
        if !segs.is_empty() && segs.iter().all(|s| s.first() == Some(&"SRB")) {
            return chan_adm::srb_many(&segs);
        }
        let outs: Vec<String> = toks[1..].split(|t| *t == "||").map(run_tokens).collect();
        return outs.join(" || ");
    }
    run_tokens(&toks)
}

fn run_tokens(toks: &[&str]) -> String {
    if toks.is_empty() {
        return "BADCASE".into();
    }
    if toks[0] == "REPEAT" && toks.len() > 2 {
        // REPEAT <n> <cmd> ..: the same command n times in a row on this thread (state that builds up over MANY calls: counters, epochs,
        // high-water marks); every answer must be the first answer
        let n: usize = match toks[1].parse() {
            Ok(n) if n >= 1 => n,
            _ => return "BADCASE".into(),
        };
        let first = run_tokens(&toks[2..]);
        for k in 1..n {
            let again = run_tokens(&toks[2..]);
            if again != first {
                return format!("{} DIFF@{} {}", first, k + 1, again);
            }
        }
        return format!("{} SAME", first);
    }
    let args = &toks[1..];
    let r = panic::catch_unwind(|| match toks[0] {
        "HEX" => chan_hex::hex(args),
        "UNHEX" => chan_hex::unhex(args),
        "UNIX" => chan_time::unix(args),
        "TSTR" => chan_time::tstr(args),
        "TSFMT" => chan_time::tsfmt(args),
        "TSTRESS" => chan_time::tstress(args),
        "NOW" => chan_time::now(args),
        "TICK" => chan_time::tick(args),
        "REALNOW" => chan_time::realnow(args),
        "SCHED" => chan_now::sched(args),
        "SCHEDX" => chan_now::schedx(args),
        "SCHEDR" => chan_now::schedr(args),
        "SCHEDT" => chan_now::schedt(args),
        "STRESS" => chan_now::stress(args),
        "VALIDATE" => chan_ops::validate(args),
        "OPS" => chan_ops::ops(args),
        "OPSA" => chan_ops::ops(args), // model side: update_extensions written with the block-level operations
        "API" => chan_api::api(args),
        "OPSX" => chan_ops::ops(args), // megabyte-sized payloads: implementation only (the model answers NA), judged by the oracle
        "CLI" => chan_cli::cli(args),
        "CLIX" => chan_cli::cli(args), // payloads of many MiB: implementation only (the model answers NA), judged by the oracle
        "ID" => chan_id::id(args),
        "IDPAIR" => chan_id::idpair(args),
        "IDREF" => chan_id::idref(args),
        "SRREF" => chan_id::srref(args),
        "SRREFE" => chan_id::srrefe(args),
        "FFI" => chan_ffi::ffi(args),
        "ADMENC" => chan_adm::admenc(args),
        "ADMSPEC" => chan_adm::admspec(args),
        "ADMDEC" => chan_adm::admdec(args),
        "SRB" => chan_adm::srb(args),
        "CORR" => chan_corrupt::corr(args),
        "REENC" => chan_corrupt::reenc(args),
        "JSON" => chan_json::json(args),
        "JSONX" => chan_json::json(args), // megabyte-sized bundles: implementation only (the model answers NA), judged by the oracle
        "JTOK" => chan_json::jtok(args),
        "JSONDEC" => chan_json::jsondec(args),
        "IPPT" => chan_sec::ippt(args),
        "BIB" => chan_sec::bib(args),
        "EID" => chan_eid::eid(args),
        "EIDDTN" => chan_eid::eiddtn(args),
        "EIDIPN" => chan_eid::eidipn(args),
        "EIDNEW" => chan_eid::eidnew(args),
        "EIDCBOR" => chan_eid::eidcbor(args),
        "DEC" => chan_bundle::dec(args),
        "DECA" => chan_bundle::deca(args),
        "ENC" => chan_bundle::enc(args),
        "CRCV" => chan_bundle::crcv(args),
        "RT" => chan_bundle::rt(args),
        "RTV" => chan_bundle::rtv(args),
        "RTBIG" => chan_bundle::rtbig(args),
        "SERDE" => chan_bundle::serde(args),
        "SPEC" => chan_bundle::spec(args),
        "SPECX" => chan_bundle::spec(args), // megabyte-sized blocks: implementation only (the model answers NA), judged against the reference encoder
        "DECRT" => chan_bundle::decrt(args),
        "CRC16" => chan_bundle::crc16(args),
        "CRC32" => chan_bundle::crc32(args),
        _ => "BADCASE".to_string(),
    });
    match r {
        Ok(s) => s,
        Err(_) => "PANIC".into(),
    }
}

fn main() {
    if std::env::args().nth(1).as_deref() == Some("--consts") {
        consts::main();
        return;
    }
    if std::env::args().nth(1).as_deref() == Some("--tables") {
        tables::main();
        return;
    }
    if std::env::args().nth(1).as_deref() == Some("--one-sched") {
        chan_now::sched_child_main();
        return;
    }
    if std::env::args().nth(1).as_deref() == Some("--one-ffi") {
        chan_ffi::ffi_child_main();
        return;
    }
    if std::env::args().nth(1).as_deref() == Some("--one-srb") {
        chan_adm::srb_child_main();
        return;
    }
    panic::set_hook(Box::new(|_| {}));
    let stdin = io::stdin();
    let stdout = io::stdout();
    let mut out = io::BufWriter::new(stdout.lock());
    for line in stdin.lock().lines() {
        let line = line.expect("stdin");
        let r = run_line(&line);
        writeln!(out, "{}", r).unwrap();
    }
    let _ = show_n(0);
}
