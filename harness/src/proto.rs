//! Case-line protocol helpers (DESIGN.md appendix A).
pub fn get_bytes(t: &str) -> Option<Vec<u8>> {
    let h = t.strip_prefix('x')?;
    if h.len() % 2 != 0 {
        return None;
    }
    let b = h.as_bytes();
    let mut out = Vec::with_capacity(b.len() / 2);
    for i in (0..b.len()).step_by(2) {
        let hi = (b[i] as char).to_digit(16)?;
        let lo = (b[i + 1] as char).to_digit(16)?;
        out.push((hi * 16 + lo) as u8);
    }
    Some(out)
}
pub fn show_bytes(b: &[u8]) -> String {
    let mut s = String::with_capacity(1 + 2 * b.len());
    s.push('x');
    for x in b {
        s.push_str(&format!("{:02x}", x));
    }
    s
}
pub fn get_n(t: &str) -> Option<u128> {
    if t.is_empty() || !t.bytes().all(|c| c.is_ascii_digit()) {
        return None;
    }
    t.parse::<u128>().ok()
}
pub fn get_u64(t: &str) -> Option<u64> {
    get_n(t).and_then(|n| u64::try_from(n).ok())
}
pub fn show_n(n: u128) -> String {
    n.to_string()
}
pub fn show_bool(b: bool) -> &'static str {
    if b {
        "T"
    } else {
        "F"
    }
}
