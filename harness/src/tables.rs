//! `--tables`: the COMPLETE behaviour of the library's finite-domain functions, as the compiled crate has it now.
//! tools/gen_tables.py turns this into coq/theories/Gen/Tables.v; Proofs/TableProofs.v proves (vm_compute over every row, lifted
//! by a lemma) that the model functions equal these tables on their whole domain - a tie that is exhaustive and checked by the
//! kernel, not sampled.  One line per table: `<NAME> <row width> <rows concatenated>`; a panic inside a row prints `!`s.
use bp7::canonical::{new_hop_count_block, CanonicalBlock, CanonicalData};
use bp7::flags::BlockControlFlags;
use bp7::{Bundle, CreationTimestamp, EndpointID};
use std::convert::TryFrom;
use std::panic::catch_unwind;

pub const BUNDLE_BITS: [u64; 14] = [0x1, 0x2, 0x4, 0x8, 0x10, 0x20, 0x40, 0x200, 0x2000, 0x4000, 0x8000, 0x10000, 0x20000, 0x40000];

fn row(width: usize, f: impl FnOnce() -> String + std::panic::UnwindSafe) -> String {
    match catch_unwind(f) {
        Ok(s) if s.len() == width => s,
        _ => "!".repeat(width),
    }
}
fn bit(b: bool) -> char {
    if b {
        '1'
    } else {
        '0'
    }
}

pub fn main() {
    std::panic::set_hook(Box::new(|_| {}));
    println!("BUNDLEBITS {}", BUNDLE_BITS.iter().map(|b| b.to_string()).collect::<Vec<_>>().join(" "));
    // Everything below is observed at the level the PROPERTIES speak about (Bundle::validate, Bundle::update_extensions, Bundle::set_crc +
    // Bundle::to_cbor), not at the level of helper functions whose conventions a maintainer may change.
    let base = || {
        let mut p = bp7::primary::PrimaryBlock::new();
        p.destination = EndpointID::try_from("dtn://d/").unwrap();
        p.source = EndpointID::try_from("dtn://s/").unwrap();
        p.report_to = EndpointID::none();
        p.creation_timestamp = CreationTimestamp::with_time_and_seq(1000, 0);
        p.lifetime = std::time::Duration::from_millis(3_600_000);
        p
    };
    // Bundle::validate of an otherwise valid one-block bundle whose payload block carries the block control flags w, for every u8
    let s: String = (0..=255u8)
        .map(|w| {
            row(1, move || {
                let mut pb = bp7::canonical::new_payload_block(BlockControlFlags::empty(), vec![0x78]);
                pb.block_control_flags = w;
                bit(Bundle::new(base(), vec![pb]).validate().is_ok()).to_string()
            })
        })
        .collect();
    println!("BLOCKFLAGS 1 {}", s);
    // Bundle::validate of an otherwise valid bundle whose bundle control flags are each combination of the nine defined flags and the
    // bits of the reserved mask
    let s: String = (0..(1u32 << BUNDLE_BITS.len()))
        .map(|i| {
            let w: u64 = BUNDLE_BITS.iter().enumerate().filter(|(j, _)| i & (1 << j) != 0).map(|(_, b)| *b).sum();
            row(1, move || {
                let mut p = base();
                p.bundle_control_flags = w;
                let pb = bp7::canonical::new_payload_block(BlockControlFlags::empty(), vec![0x78]);
                bit(Bundle::new(p, vec![pb]).validate().is_ok()).to_string()
            })
        })
        .collect();
    println!("BUNDLEFLAGS 1 {}", s);
    // Bundle::update_extensions on a bundle with hop count block (limit, count), no age block, not expired: the returned bool, and - when
    // true - the count afterwards; when false only "did the count go DOWN (wrap)?" (`ww`), which is all C08 says about that case
    let mut s = String::with_capacity(65536 * 3);
    for l in 0..=255u8 {
        for k in 0..=255u8 {
            s.push_str(&row(3, move || {
                let mut hc: CanonicalBlock = new_hop_count_block(2, BlockControlFlags::empty(), l);
                hc.set_data(CanonicalData::HopCount(l, k));
                let pb = bp7::canonical::new_payload_block(BlockControlFlags::empty(), vec![0x78]);
                let mut b = Bundle::new(base(), vec![hc, pb]);
                bp7::verif_hooks::set_thread_clock_ms(Some(946_684_802_000));
                let ret = b.update_extensions(EndpointID::try_from("dtn://h/").unwrap(), 0);
                bp7::verif_hooks::set_thread_clock_ms(None);
                let after = b.canonicals.iter().find_map(|c| match c.data() {
                    CanonicalData::HopCount(_, k2) if c.block_type == 10 => Some(*k2),
                    _ => None,
                });
                match (ret, after) {
                    (true, Some(k2)) => format!("1{:02x}", k2),
                    (false, Some(k2)) if k2 < k => "0ww".into(),
                    (false, Some(_)) => "0--".into(),
                    _ => "!!!".into(),
                }
            }));
        }
    }
    println!("HOP 3 {}", s);
    // Bundle::set_crc(k) for every u8 on a hop count + payload bundle, then Bundle::to_cbor: the bytes, padded with '.'
    let s: String = (0..=255u8)
        .map(|k| {
            row(200, move || {
                let hc = new_hop_count_block(2, BlockControlFlags::empty(), 32);
                let pb = bp7::canonical::new_payload_block(BlockControlFlags::empty(), vec![0x78]);
                let mut b = Bundle::new(base(), vec![hc, pb]);
                b.set_crc(k);
                let h = bp7::helpers::hexify(&b.to_cbor());
                format!("{:.<200}", h)
            })
        })
        .collect();
    println!("CRCCODE 200 {}", s);
    // hexify of every single byte
    let s: String = (0..=255u8).map(|b| row(2, move || bp7::helpers::hexify(&[b]))).collect();
    println!("HEXIFY 2 {}", s);
    // unhexify of every string of two ASCII characters: the byte, or `--` for an error
    let mut s = String::with_capacity(128 * 128 * 2);
    for a in 0..128u8 {
        for b in 0..128u8 {
            s.push_str(&row(2, move || {
                let t = String::from_utf8(vec![a, b]).unwrap();
                match bp7::helpers::unhexify(&t) {
                    Ok(v) if v.len() == 1 => format!("{:02x}", v[0]),
                    Ok(_) => "??".into(),
                    Err(_) => "--".into(),
                }
            }));
        }
    }
    println!("UNHEX2 2 {}", s);
    // the two checksum functions the library selects (src/crc.rs X25, CASTAGNOLI) on every one-byte message: with the fixed initial
    // register every entry of a 256-entry lookup table is used by exactly one of them
    let s: String = (0..=255u8).map(|b| row(4, move || format!("{:04x}", bp7::crc::X25.checksum(&[b])))).collect();
    println!("CRC16B 4 {}", s);
    let s: String = (0..=255u8).map(|b| row(8, move || format!("{:08x}", bp7::crc::CASTAGNOLI.checksum(&[b])))).collect();
    println!("CRC32B 8 {}", s);
    rule_space();
}

/// VALIDATE over the block-list part of C07's finite rule space: context (administrative record?, anonymous source?, creation time
/// zero?) x every list of up to 3 blocks drawn from {payload, previous node, bundle age, hop count, unknown} x block numbers {1,2,3} x
/// status-report flag on/off.  Row order: context c = 4*admin + 2*anon + time0 (0..7), then the lists in order of length and, within a
/// length, lexicographically by option index o = 6*kind + 2*(number-1) + status (kind 0..4 in the order above); 27931 lists per context.
fn rule_space() {
    use bp7::canonical::CanonicalBlockBuilder;
    let opt = |o: u32| -> CanonicalBlock {
        let (kind, num, status) = (o / 6, (o % 6) / 2 + 1, o % 2);
        let (ty, data) = match kind {
            0 => (1u64, CanonicalData::Data(vec![0x78])),
            1 => (6, CanonicalData::PreviousNode(EndpointID::try_from("dtn://n/").unwrap())),
            2 => (7, CanonicalData::BundleAge(0)),
            3 => (10, CanonicalData::HopCount(32, 0)),
            _ => (192, CanonicalData::Unknown(vec![])),
        };
        CanonicalBlockBuilder::default().block_type(ty).block_number(num as u64).block_control_flags(if status == 1 { 2 } else { 0 }).data(data).build().unwrap()
    };
    let mut lists: Vec<Vec<u32>> = vec![vec![]];
    for a in 0..30 {
        lists.push(vec![a]);
    }
    for a in 0..30 {
        for b in 0..30 {
            lists.push(vec![a, b]);
        }
    }
    for a in 0..30 {
        for b in 0..30 {
            for c in 0..30 {
                lists.push(vec![a, b, c]);
            }
        }
    }
    let mut s = String::with_capacity(8 * lists.len());
    for ctx in 0..8u32 {
        let (admin, anon, time0) = (ctx & 4 != 0, ctx & 2 != 0, ctx & 1 != 0);
        for l in &lists {
            let blocks: Vec<CanonicalBlock> = l.iter().map(|o| opt(*o)).collect();
            s.push_str(&row(1, move || {
                let mut p = bp7::primary::PrimaryBlock::new();
                p.bundle_control_flags = if admin { 2 } else { 0 };
                p.destination = EndpointID::try_from("dtn://d/").unwrap();
                p.source = if anon { EndpointID::none() } else { EndpointID::try_from("dtn://s/").unwrap() };
                p.report_to = EndpointID::none();
                p.creation_timestamp = CreationTimestamp::with_time_and_seq(if time0 { 0 } else { 1000 }, 0);
                p.lifetime = std::time::Duration::from_millis(1000);
                bit(Bundle::new(p, blocks).validate().is_ok()).to_string()
            }));
        }
    }
    println!("RULESPACE 1 {}", s);
}
