(* Line driver around the extracted model: one case line on stdin -> one result line on stdout.
   All parsing/printing of the case format is done inside the extracted Gallina (Run.Main.run_line);
   this file only converts OCaml chars to the extracted `byte` inductive and back. *)

let rec n_of_int (i : int) : Model.n =
  if i = 0 then Model.N0 else Model.Npos (pos_of_int i)
and pos_of_int (i : int) : Model.positive =
  if i = 1 then Model.XH
  else if i land 1 = 0 then Model.XO (pos_of_int (i lsr 1))
  else Model.XI (pos_of_int (i lsr 1))

let rec int_of_pos = function
  | Model.XH -> 1
  | Model.XO p -> 2 * int_of_pos p
  | Model.XI p -> 2 * int_of_pos p + 1
let int_of_n = function Model.N0 -> 0 | Model.Npos p -> int_of_pos p

let byte_tab : Model.byte array =
  Array.init 256 (fun i -> match Model.byte_of_N (n_of_int i) with Some b -> b | None -> assert false)

let bytes_of_string (s : string) : Model.byte list =
  let r = ref [] in
  for i = String.length s - 1 downto 0 do r := byte_tab.(Char.code s.[i]) :: !r done;
  !r

let string_of_bytes (l : Model.byte list) : string =
  let b = Buffer.create 256 in
  List.iter (fun x -> Buffer.add_char b (Char.chr (int_of_n (Model.byte_to_N x)))) l;
  Buffer.contents b

let () =
  let out = Buffer.create 65536 in
  (try
     while true do
       let line = input_line stdin in
       Buffer.add_string out (string_of_bytes (Model.run_line (bytes_of_string line)));
       Buffer.add_char out '\n';
       if Buffer.length out > 60000 then (print_string (Buffer.contents out); Buffer.clear out)
     done
   with End_of_file -> ());
  print_string (Buffer.contents out)
