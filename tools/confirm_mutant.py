#!/usr/bin/env python3
"""Confirm a seeded change in its scratch worktree and file it under /verif/seeded/<name>/.
usage: tools/confirm_mutant.py <worktree> <out-subdir (e.g. out/m1)> <name> <property id> <checks to run, comma separated> "<needs>"
Confirms: (a) existing tests pass with the change, (b) demo fails with it, (c) demo passes without it;
then applies the patch to /repo, runs the checks (tools/try_mutant.py), and writes patch.diff, demo.rs, meta.json."""
import json
import os
import shutil
import subprocess
import sys

VERIF = os.path.dirname(os.path.dirname(os.path.abspath(__file__)))


def run(cmd, cwd, env=None):
    p = subprocess.run(cmd, cwd=cwd, shell=True, stdout=subprocess.PIPE, stderr=subprocess.STDOUT, env=env)
    return p.returncode, p.stdout.decode("utf-8", "replace")


def main():
    wt, sub, name, pid, checks, needs = sys.argv[1:7]
    src = os.path.join(wt, sub)
    env = dict(os.environ, CARGO_TARGET_DIR=os.path.join(wt, "target"), CARGO_NET_OFFLINE="true")
    run("git checkout -- . && rm -f tests/demo.rs", wt)
    rc, out = run("git apply %s/patch.diff" % src, wt)
    if rc:
        print("patch does not apply", out)
        return 1
    rc_a, out_a = run("cargo test --offline 2>&1 | grep -E '^test result|FAILED|error' | sort | uniq -c", wt, env)
    tests_ok = "FAILED" not in out_a and "error" not in out_a and "test result: ok" in out_a
    shutil.copy(os.path.join(src, "demo.rs"), os.path.join(wt, "tests", "demo.rs"))
    feat = (" --features " + os.environ["MUT_FEATURES"]) if os.environ.get("MUT_FEATURES") else ""
    rc_b, out_b = run("cargo test --offline%s --test demo 2>&1 | tail -5" % feat, wt, env)
    demo_fails_with = "FAILED" in out_b or "failed" in out_b
    run("git checkout -- .", wt)
    rc_c, out_c = run("cargo test --offline%s --test demo 2>&1 | tail -5" % feat, wt, env)
    demo_passes_without = "test result: ok" in out_c
    os.remove(os.path.join(wt, "tests", "demo.rs"))
    print("existing tests pass with change:", tests_ok)
    print("demo fails with change:", demo_fails_with)
    print("demo passes without change:", demo_passes_without)
    if not (tests_ok and demo_fails_with and demo_passes_without):
        print(out_a, out_b, out_c)
        print("NOT CONFIRMED")
        return 1
    # run our checks against it
    p = subprocess.run([sys.executable, os.path.join(VERIF, "tools", "try_mutant.py"), os.path.join(src, "patch.diff")] + checks.split(","),
                       stdout=subprocess.PIPE, stderr=subprocess.STDOUT)
    res = p.stdout.decode()
    print(res)
    dst = os.path.join(VERIF, "seeded", name)
    os.makedirs(dst, exist_ok=True)
    shutil.copy(os.path.join(src, "patch.diff"), dst)
    shutil.copy(os.path.join(src, "demo.rs"), dst)
    if os.path.exists(os.path.join(src, "notes.md")):
        shutil.copy(os.path.join(src, "notes.md"), dst)
    verdicts = {}
    for line in res.split("\n"):
        if ": CAUGHT" in line or ": MISSED" in line:
            verdicts[line.split(":")[0]] = "caught" if "CAUGHT" in line else "missed"
    json.dump({"breaks_property": pid, "needs_to_manifest": needs,
               "confirmed": {"existing_tests_pass_with_change": tests_ok, "demo_fails_with_change": demo_fails_with,
                             "demo_passes_without_change": demo_passes_without},
               "ran": ["cargo test --offline (with change, scratch worktree)", "cargo test --offline --test demo (with / without change)",
                       "tools/try_mutant.py patch.diff " + " ".join(checks.split(","))],
               "checks": verdicts, "check_output": res[-3000:]},
              open(os.path.join(dst, "meta.json"), "w"), indent=1)
    return 0


if __name__ == "__main__":
    sys.exit(main())
