#!/usr/bin/env python3
"""Confirm a batch of seeded changes in parallel and file them under /verif/seeded/<name>/.

usage: tools/confirm_pool.py <jobs.json> [slots]
jobs.json: list of {"wt": scratch worktree, "sub": "out/m1", "name": seeded dir name, "pid": "C07", "checks": ["C07"], "needs": "...",
                    "features": "" | "bpsec"}

Phase 1 (parallel, in each change's own scratch worktree): (a) existing tests pass with the change, (b) demo fails with it,
(c) demo passes without it.  Phase 2 (parallel over <slots> private copies of /verif + scratch worktrees of /repo under /tmp/vpool,
so /repo's own working tree is never touched): apply the patch, run ./check <Cxx> --tier quick with BP7_REPO pointing at the slot's
worktree, record CAUGHT / MISSED.  Phase 3: write patch.diff, demo.rs, notes.md, meta.json under seeded/<name>/."""
import json
import os
import queue
import shutil
import subprocess
import sys
import threading

VERIF = os.path.dirname(os.path.dirname(os.path.abspath(__file__)))
POOL = "/tmp/vpool"


def run(cmd, cwd, env=None, timeout=3600):
    p = subprocess.run(cmd, cwd=cwd, shell=True, stdout=subprocess.PIPE, stderr=subprocess.STDOUT, env=env, timeout=timeout)
    return p.returncode, p.stdout.decode("utf-8", "replace")


def phase1(job):
    wt, src = job["wt"], os.path.join(job["wt"], job["sub"])
    env = dict(os.environ, CARGO_TARGET_DIR=os.path.join(wt, "target"), CARGO_NET_OFFLINE="true")
    run("git checkout -- . && rm -f tests/demo.rs", wt)
    rc, out = run("git apply %s/patch.diff" % src, wt)
    if rc:
        job["p1"] = {"error": "patch does not apply: " + out}
        return
    rc_a, out_a = run("cargo test --offline 2>&1 | grep -E '^test result|FAILED|error' | sort | uniq -c", wt, env)
    tests_ok = "FAILED" not in out_a and "error" not in out_a and "test result: ok" in out_a
    shutil.copy(os.path.join(src, "demo.rs"), os.path.join(wt, "tests", "demo.rs"))
    feat = (" --features " + job["features"]) if job.get("features") else ""
    rc_b, out_b = run("cargo test --offline%s --test demo 2>&1 | tail -5" % feat, wt, env)
    fails_with = "FAILED" in out_b or "failed" in out_b
    run("git checkout -- .", wt)
    rc_c, out_c = run("cargo test --offline%s --test demo 2>&1 | tail -5" % feat, wt, env)
    passes_without = "test result: ok" in out_c
    os.remove(os.path.join(wt, "tests", "demo.rs"))
    job["p1"] = {"existing_tests_pass_with_change": tests_ok, "demo_fails_with_change": fails_with, "demo_passes_without_change": passes_without}
    if not (tests_ok and fails_with and passes_without):
        job["p1"]["detail"] = (out_a + out_b + out_c)[-2000:]


def setup_slot(k):
    d = os.path.join(POOL, "s%d" % (k + int(os.environ.get("VPOOL_BASE", "0"))))     # VPOOL_BASE: keep clear of a run using slots 0..n
    os.makedirs(d, exist_ok=True)
    v, r = os.path.join(d, "verif"), os.path.join(d, "repo")
    run("rsync -a --delete --exclude .git --exclude replays --exclude 'thorough_*' %s/ %s/" % (VERIF, v), "/")
    os.makedirs(os.path.join(v, "replays"), exist_ok=True)
    if not os.path.exists(r):
        run("git -C /repo worktree add --detach %s HEAD" % r, "/")
    run("git checkout -q -- . && git clean -fdq src tests", r)
    run("git checkout -q --detach $(git -C /repo rev-parse HEAD)", r)     # follow /repo's HEAD (hooks / fixes committed since)
    if os.path.exists("/repo/Cargo.lock") and not os.path.exists(os.path.join(r, "Cargo.lock")):
        shutil.copy("/repo/Cargo.lock", r)
    run("sed -i 's#path = \"/repo\"#path = \"%s\"#' harness/Cargo.toml" % r, v)
    return v, r


def phase2(job, v, r):
    src = os.path.join(job["wt"], job["sub"], "patch.diff")
    run("git checkout -q -- . && git clean -fdq src tests", r)
    rc, out = run("git apply %s" % src, r)
    res = {}
    outtxt = []
    if rc:
        job["p2"] = ({}, "patch does not apply to slot repo: " + out)
        return
    try:
        for c in job["checks"]:
            env = dict(os.environ, BP7_REPO=r, VERIF_EVIDENCE_DIR=os.path.join(v, ".cache", "mutant-evidence"))
            p = subprocess.run([os.path.join(v, "check"), c, "--tier", "quick"], cwd=v, stdout=subprocess.PIPE, stderr=subprocess.PIPE, env=env)
            o = p.stdout.decode("utf-8", "replace")
            vio = [l for l in o.split("\n") if l.startswith("VIOLATION")]
            caught = p.returncode != 0 and bool(vio)
            res[c] = "caught" if caught else "missed"
            outtxt.append("%s: %s  %s" % (c, "CAUGHT" if caught else "MISSED", vio[0] if vio else ""))
            for t in [l for l in p.stderr.decode("utf-8", "replace").split("\n") if l.strip().startswith(("FAIL", "BREAK"))][:3]:
                outtxt.append("    " + t.strip()[:300])
            if not caught:
                outtxt.append("    rc=%d last: %s" % (p.returncode, o.strip().split("\n")[-1][:300]))
    finally:
        run("git checkout -q -- . && git clean -fdq src tests", r)
    job["p2"] = (res, "\n".join(outtxt))


def pool(fn, items, n):
    q = queue.Queue()
    for it in items:
        q.put(it)

    def work(k):
        while True:
            try:
                it = q.get_nowait()
            except queue.Empty:
                return
            try:
                fn(it, k)
            except Exception as e:  # pragma: no cover
                it.setdefault("errors", []).append(repr(e))
    ths = [threading.Thread(target=work, args=(k,)) for k in range(n)]
    for t in ths:
        t.start()
    for t in ths:
        t.join()


def main():
    jobs = json.load(open(sys.argv[1]))
    nslots = int(sys.argv[2]) if len(sys.argv) > 2 else 4
    # phase 1: one job per worktree at a time (two changes share a worktree)
    by_wt = {}
    for j in jobs:
        by_wt.setdefault(j["wt"], []).append(j)
    pool(lambda js, k: [phase1(j) for j in js], list(by_wt.values()), 6)
    ok = []
    for j in jobs:
        p1 = j.get("p1", {})
        good = p1.get("existing_tests_pass_with_change") and p1.get("demo_fails_with_change") and p1.get("demo_passes_without_change")
        print("%-50s phase1 %s" % (j["name"], "confirmed" if good else "NOT CONFIRMED %s" % json.dumps(p1)[:1500]))
        if good:
            ok.append(j)
    sys.stdout.flush()
    slots = [setup_slot(k) for k in range(nslots)]
    pool(lambda j, k: phase2(j, *slots[k]), ok, nslots)
    for j in ok:
        res, txt = j.get("p2", ({}, "no result %s" % j.get("errors")))
        print("== %s" % j["name"])
        print(txt)
        src = os.path.join(j["wt"], j["sub"])
        dst = os.path.join(VERIF, "seeded", j["name"])
        os.makedirs(dst, exist_ok=True)
        for f in ("patch.diff", "demo.rs", "notes.md"):
            if os.path.exists(os.path.join(src, f)):
                shutil.copy(os.path.join(src, f), dst)
        json.dump({"breaks_property": j["pid"], "needs_to_manifest": j["needs"], "round": j.get("round", 2),
                   "confirmed": {k: v for k, v in j["p1"].items() if k != "detail"},
                   "ran": ["cargo test --offline (with change, scratch worktree)", "cargo test --offline --test demo (with / without change)",
                           "./check <Cxx> --tier quick with BP7_REPO = scratch worktree carrying the patch (tools/confirm_pool.py)"],
                   "checks": res, "check_output": txt[-3000:]}, open(os.path.join(dst, "meta.json"), "w"), indent=1)
    return 0


if __name__ == "__main__":
    sys.exit(main())
