#!/bin/sh
# usage: tools/coqgoal.sh theories/Proofs/X.v <line>   - prints the goals after <line> of the file (scratch compile)
f=$1; n=$2
cd /verif/coq
head -n "$n" "$f" > /tmp/coqgoal_scratch.v
echo "Show. " >> /tmp/coqgoal_scratch.v
timeout 300 coqc -Q theories BP7 /tmp/coqgoal_scratch.v 2>&1 | tail -${3:-60}
rm -f /tmp/coqgoal_scratch.vo /tmp/coqgoal_scratch.glob /tmp/.coqgoal_scratch.aux
