#!/usr/bin/env python3
"""Which part of /repo/src do the correspondence cases execute?   (a measurement of the TIE, never a proof and never a check verdict)

usage: tools/coverage.py [--tier quick|thorough] [Cxx ...]        (default: all 20 properties, quick tier)

The theorems quantify over everything; the model/implementation diff only sees what tools/props/*.py draws (DESIGN D-15).  This tool
measures that second half: it builds the harness (and the bp7 binary for C20) with `-C instrument-coverage` on the nightly toolchain
(the only one with llvm-profdata/llvm-cov), runs the corpus + generated cases of each property through it exactly as ./check does,
and reports, per property, the lines of the files the property is anchored in (properties.jsonl: anchors.files) that no case of that
property executes, and for the union of all properties the lines of src/*.rs nobody executes.  Output: .cache/cov/report.json,
corpus/coverage_summary.txt (committed: the blind spots are part of the trusted base statement).
"""
import glob
import importlib
import json
import os
import shutil
import subprocess
import sys

sys.path.insert(0, os.path.dirname(os.path.abspath(__file__)))
import vlib  # noqa: E402

COV = os.path.join(vlib.CACHE, "cov")
TGT = os.path.join(vlib.CACHE, "target-cov")
TOOLBIN = glob.glob(os.path.expanduser("~/.rustup/toolchains/nightly-x86_64-*/lib/rustlib/*/bin"))[0]
FLAGS = "--cfg bp7_verif -C instrument-coverage"


def build():
    os.makedirs(COV, exist_ok=True)
    env = dict(vlib.ENV, RUSTFLAGS=FLAGS, CARGO_TARGET_DIR=TGT,
               LLVM_PROFILE_FILE=os.path.join(COV, "build-%p-%m.profraw"))      # instrumented build scripts write a profile too: not into /repo
    rc, out = vlib.sh(["cargo", "+nightly", "build", "--offline", "-q"], cwd=vlib.HARNESS, timeout=1800, env=env)
    if rc:
        sys.exit("coverage build of the harness failed:\n" + out[-3000:])
    env2 = dict(env, CARGO_TARGET_DIR=TGT + "-bin")
    rc, out = vlib.sh(["cargo", "+nightly", "build", "--offline", "-q", "--manifest-path", os.path.join(vlib.REPO, "Cargo.toml"), "--bin", "bp7"],
                      timeout=1800, env=env2)
    if rc:
        sys.exit("coverage build of bp7 failed:\n" + out[-3000:])
    return os.path.join(TGT, "debug", "bp7-verif-harness"), os.path.join(TGT + "-bin", "debug", "bp7")


def export(profraws, objs, out_json):
    prof = out_json + ".profdata"
    lst = out_json + ".lst"
    open(lst, "w").write("\n".join(profraws) + "\n")
    subprocess.check_call([os.path.join(TOOLBIN, "llvm-profdata"), "merge", "-sparse", "-f", lst, "-o", prof])
    cmd = [os.path.join(TOOLBIN, "llvm-cov"), "export", "-format=text", "-instr-profile", prof, objs[0]]
    for o in objs[1:]:
        cmd += ["-object", o]
    cmd += ["--ignore-filename-regex", r"\.cargo|rustc|harness/src"]
    data = json.loads(subprocess.check_output(cmd, stderr=subprocess.DEVNULL))
    res = {}
    for f in data["data"][0]["files"]:
        name = f["filename"]
        if "/src/" not in name or not name.startswith(vlib.REPO):
            continue
        rel = os.path.relpath(name, vlib.REPO)
        # segments: [line, col, count, hasCount, isRegionEntry, isGap]; line coverage = per line max count of covering segment
        lines = {}
        segs = f["segments"]
        for i, s in enumerate(segs):
            if not s[3] or s[5]:
                continue
            end_line = segs[i + 1][0] if i + 1 < len(segs) else s[0]
            end_col = segs[i + 1][1] if i + 1 < len(segs) else s[1]
            for ln in range(s[0], end_line + 1):
                if ln == end_line and end_col <= 1 and ln != s[0]:
                    continue
                cur = lines.get(ln)
                # a line counts as executed when some region starting or continuing on it was executed
                lines[ln] = max(cur, s[2]) if cur is not None else s[2]
        res[rel] = lines
    os.remove(prof)
    return res


def ranges(nums):
    nums = sorted(nums)
    out, i = [], 0
    while i < len(nums):
        j = i
        while j + 1 < len(nums) and nums[j + 1] == nums[j] + 1:
            j += 1
        out.append(str(nums[i]) if i == j else "%d-%d" % (nums[i], nums[j]))
        i = j + 1
    return ",".join(out)


def main():
    args = sys.argv[1:]
    tier = "quick"
    if "--tier" in args:
        i = args.index("--tier")
        tier = args[i + 1]
        del args[i:i + 2]
    pids = args or ["C%02d" % i for i in range(1, 21)]
    anchors = {}
    for l in open(os.path.join(vlib.VERIF, "properties.jsonl")):
        p = json.loads(l)
        anchors[p["id"]] = [f for f in p["anchors"]["files"] if f.startswith("src/")]
    exe, cli = build()
    shutil.rmtree(COV, ignore_errors=True)
    os.makedirs(COV)
    os.environ["BP7_CLI_BIN"] = cli
    tmp = os.path.join(vlib.CACHE, "cli-tmp")
    os.makedirs(tmp, exist_ok=True)
    os.environ["BP7_CLI_TMP"] = tmp
    per_prop = {}
    allraw = []
    for pid in pids:
        P = importlib.import_module("props.%s" % pid.lower())
        rng = vlib.Rng(int(os.environ.get("VERIF_SEED", "20261001")))
        lines = list(dict.fromkeys(list(P.corpus()) + list(P.cases(rng, tier))))
        d = os.path.join(COV, pid)
        os.makedirs(d)
        env = dict(os.environ, LLVM_PROFILE_FILE=os.path.join(d, "%p-%m.profraw"))
        prefix = "D " if getattr(P, "RELEASE", False) else ""
        vlib.run_lines_isolating(exe, [prefix + l for l in lines], env=env)
        raws = glob.glob(os.path.join(d, "*.profraw"))
        allraw += raws
        per_prop[pid] = export(raws, [exe, cli], os.path.join(d, "cov.json"))
        vlib.log("%s: %d case lines, %d profiles" % (pid, len(lines), len(raws)))
    union = export(allraw, [exe, cli], os.path.join(COV, "all.json"))
    report = {"tier": tier, "properties": {}, "union": {}}
    txt = ["# generated by tools/coverage.py --tier %s (debug build, cfg bp7_verif, feature bpsec); a measurement of the tie, not a proof" % tier,
           "# per property: executable lines of its anchor files (properties.jsonl) that NONE of its own cases executes", ""]
    for pid in pids:
        cov = per_prop[pid]
        entry = {}
        for f in anchors[pid]:
            ls = cov.get(f, {})
            missed = [n for n, c in ls.items() if c == 0]
            entry[f] = {"executable": len(ls), "executed": len(ls) - len(missed), "not_executed": ranges(missed)}
        report["properties"][pid] = entry
        txt.append("%s  " % pid + "; ".join("%s %d/%d" % (f, e["executed"], e["executable"]) for f, e in entry.items()))
    txt += ["", "# union of all properties' cases: lines of src/*.rs nobody executes"]
    for f in sorted(union):
        ls = union[f]
        missed = [n for n, c in ls.items() if c == 0]
        report["union"][f] = {"executable": len(ls), "executed": len(ls) - len(missed), "not_executed": ranges(missed)}
        txt.append("%-32s %4d/%4d  not executed: %s" % (f, len(ls) - len(missed), len(ls), ranges(missed) or "-"))
    vlib.write_json(os.path.join(COV, "report.json"), report)
    open(os.path.join(vlib.VERIF, "corpus", "coverage_summary.txt"), "w").write("\n".join(txt) + "\n")
    print("\n".join(txt))
    for pid in pids:
        for raw in glob.glob(os.path.join(COV, pid, "*.profraw")):
            os.remove(raw)


if __name__ == "__main__":
    main()
