/* LD_PRELOAD shim: logs the NAME of every environment variable a process looks up (getenv / secure_getenv) to the file named by
   BP7_ENVLOG, then answers as the C library would.  Used by tools/runner.py to find out whether the code under test consults the
   environment (a switch no generated input can reach) - see DESIGN D-24. */
#define _GNU_SOURCE
#include <dlfcn.h>
#include <fcntl.h>
#include <string.h>
#include <unistd.h>

static char *(*real_getenv)(const char *) = 0;
static int busy = 0;

static void log_name(const char *name) {
    if (busy || !real_getenv) return;
    busy = 1;
    const char *path = real_getenv("BP7_ENVLOG");
    if (path && name && strcmp(name, "BP7_ENVLOG") != 0) {
        int fd = open(path, O_WRONLY | O_APPEND | O_CREAT, 0644);
        if (fd >= 0) {
            char buf[300];
            size_t n = strlen(name);
            if (n > 290) n = 290;
            memcpy(buf, name, n);
            buf[n] = '\n';
            ssize_t w = write(fd, buf, n + 1);
            (void)w;
            close(fd);
        }
    }
    busy = 0;
}

char *getenv(const char *name) {
    if (!real_getenv) real_getenv = (char *(*)(const char *))dlsym(RTLD_NEXT, "getenv");
    log_name(name);
    return real_getenv ? real_getenv(name) : 0;
}

char *secure_getenv(const char *name) {
    return getenv(name);
}
