#!/usr/bin/env python3
"""Translator: regenerate coq/theories/Gen/Consts.v from /repo's *current* code.

Two sources, in this order of preference:
 (1) the values the COMPILED crate has (harness `--consts`, file given with --compiled): independent of how a constant is
     spelled in the source (literal, expression, const/static, derived from another constant, private constants observed
     through the public behaviour that exposes them);
 (2) the Rust source text (regular expressions + a small constant-expression evaluator): used for every name the compiled
     list does not provide, and for everything when the harness could not be built.

Every protocol constant, flag bit and CRC parameter set the Coq model mentions comes from here, so the
theorems (and the vector anchors of Spec/Vectors.v) are re-checked against what the code says now.
A constant that disappears or is no longer an integer literal makes the translator fail, which the
driver treats as a broken proof obligation.  Output is only rewritten when it changes."""
import glob
import os
import re
import sys

REPO = os.environ.get("BP7_REPO", "/repo")
OUT = os.path.join(os.path.dirname(os.path.dirname(os.path.abspath(__file__))), "coq", "theories", "Gen", "Consts.v")


def read(rel):
    return open(os.path.join(REPO, rel)).read()


def strip_comments(src):
    src = re.sub(r"/\*.*?\*/", "", src, flags=re.S)
    return re.sub(r"//[^\n]*", "", src)


def lit(s, src=None, depth=0):
    """integer literal, or a constant expression over literals and other constants of the same file (+ - * / << | & parentheses, `as` casts)"""
    raw = s
    s = s.strip()
    s = re.sub(r"\bas\s+(u8|u16|u32|u64|u128|usize|i32|i64)\b", "", s)
    toks = re.findall(r"0[xX][0-9a-fA-F_]+|0b[01_]+|[0-9][0-9_]*(?:u8|u16|u32|u64|u128|usize|i32|i64)?|[A-Za-z_][A-Za-z0-9_:]*|<<|>>|[-+*/|&()]|\S", s)
    out = []
    for t in toks:
        if re.fullmatch(r"0[xX][0-9a-fA-F_]+", t):
            out.append(str(int(t[2:].replace("_", ""), 16)))
        elif re.fullmatch(r"0b[01_]+", t):
            out.append(str(int(t[2:].replace("_", ""), 2)))
        elif re.match(r"[0-9]", t):
            out.append(str(int(re.sub(r"(u8|u16|u32|u64|u128|usize|i32|i64)$", "", t).replace("_", ""))))
        elif t in ("<<", ">>", "+", "-", "*", "|", "&", "(", ")"):
            out.append(t)
        elif t == "/":
            out.append("//")
        elif re.fullmatch(r"[A-Za-z_][A-Za-z0-9_:]*", t) and src is not None and depth < 8:
            out.append(str(const(src, t.split("::")[-1], depth + 1)))
        else:
            raise ValueError("not a constant integer expression: %r" % raw)
    try:
        v = eval(" ".join(out), {"__builtins__": {}}, {})
    except Exception:
        raise ValueError("not a constant integer expression: %r" % raw)
    if not isinstance(v, int) or v < 0:
        raise ValueError("not a constant integer expression: %r" % raw)
    return v


def const(src, name, depth=0):
    m = re.search(r"\b(?:const|static)\s+%s\s*:\s*[A-Za-z0-9_:<>]+\s*=\s*([^;]+);" % re.escape(name), src)
    if not m:
        raise KeyError("constant %s not found" % name)
    return lit(m.group(1), src, depth)


def bitflags_entries(src, struct):
    m = re.search(r"struct\s+%s\s*:\s*[A-Za-z0-9_]+\s*\{(.*?)\n\s*\}" % re.escape(struct), src, re.S)
    if not m:
        raise KeyError("bitflags struct %s not found" % struct)
    ents = re.findall(r"const\s+([A-Z0-9_]+)\s*=\s*([^;]+);", m.group(1))
    if not ents:
        raise KeyError("no entries in bitflags struct %s" % struct)
    return [(n, lit(v, src)) for n, v in ents]


def crc_catalog_version():
    try:
        m = re.search(r'name = "crc-catalog"\nversion = "([^"]+)"', read("Cargo.lock"))
        if m:
            return m.group(1)
    except OSError:
        pass
    pats = glob.glob(os.path.expanduser("~/.cargo/registry/src/*/crc-catalog-*/src/algorithm.rs"))
    return sorted(pats)[-1].split("crc-catalog-")[1].split("/")[0] if pats else "?"


def crc_algorithm(alg_name):
    pats = glob.glob(os.path.expanduser("~/.cargo/registry/src/*/crc-catalog-*/src/algorithm.rs"))
    try:
        lock = read("Cargo.lock")
    except OSError:     # an untracked lock file may be absent (fresh worktree): fall back to the vendored catalogue version(s)
        lock = ""
    m = re.search(r'name = "crc-catalog"\nversion = "([^"]+)"', lock)
    ver = m.group(1) if m else None
    cands = [p for p in pats if ver and ("crc-catalog-%s/" % ver) in p] or pats
    if not cands:
        raise KeyError("crc-catalog source not found")
    src = open(sorted(cands)[-1]).read()
    m = re.search(r"pub const %s\s*:\s*Algorithm<[a-z0-9]+>\s*=\s*Algorithm\s*\{(.*?)\};" % re.escape(alg_name), src, re.S)
    if not m:
        raise KeyError("crc algorithm %s not in catalogue" % alg_name)
    d = {}
    for k, v in re.findall(r"(\w+)\s*:\s*([^,\n]+)", m.group(1)):
        v = v.strip()
        d[k] = v
    return d, ver


def read_compiled(path):
    """harness --consts output: NAME VALUE lines, flag groups between `#begin <struct>` and `#end`"""
    vals, groups, cur = {}, {}, None
    for line in open(path).read().split("\n"):
        line = line.strip()
        if not line:
            continue
        if line.startswith("#begin "):
            cur = line.split(" ", 1)[1]
            groups[cur] = []
            continue
        if line.startswith("#end"):
            cur = None
            continue
        name, v = line.split(" ", 1)
        v = {"true": True, "false": False}.get(v, v)
        v = v if isinstance(v, bool) else int(v)
        vals[name] = v
        if cur is not None:
            groups[cur].append((name, v))
    return vals, groups


def main():
    compiled, cgroups = {}, {}
    if "--compiled" in sys.argv:
        cp = sys.argv[sys.argv.index("--compiled") + 1]
        if os.path.exists(cp):
            compiled, cgroups = read_compiled(cp)
    used_source = []
    out = []
    w = out.append
    w("(* GENERATED by tools/gen_consts.py from %s/src/*.rs -- do not edit. *)" % "/repo")
    w("From Coq Require Import NArith Bool.")
    w("Open Scope N_scope.")
    w("")

    def src(rel):
        return strip_comments(read(rel))

    def emit(name, getter, comment=""):
        if name in compiled:
            val = compiled[name]
        else:
            val = getter()
            used_source.append(name)
        w("Definition %s : N := %d.%s" % (name, val, ("  (* %s *)" % comment) if comment else ""))

    def flags_group(struct, rel):
        if struct in cgroups and cgroups[struct]:
            return cgroups[struct]
        used_source.append(struct)
        return bitflags_entries(src(rel), struct)

    def union(ents):
        r = 0
        for _, v in ents:
            r |= v
        return r

    w("(* src/bundle.rs *)")
    emit("DTN_VERSION", lambda: const(src("src/bundle.rs"), "DTN_VERSION"))
    w("(* src/canonical.rs *)")
    for n in ["PAYLOAD_BLOCK_NUMBER", "PAYLOAD_BLOCK", "PREVIOUS_NODE_BLOCK", "BUNDLE_AGE_BLOCK", "HOP_COUNT_BLOCK"]:
        emit(n, lambda n=n: const(src("src/canonical.rs"), n))
    w("(* src/crc.rs *)")
    for n in ["CRC_NO", "CRC_16", "CRC_32"]:
        emit(n, lambda n=n: const(src("src/crc.rs"), n))
    w("(* src/eid.rs *)")
    for n in ["ENDPOINT_URI_SCHEME_DTN", "ENDPOINT_URI_SCHEME_IPN"]:
        emit(n, lambda n=n: const(src("src/eid.rs"), n))
    w("(* src/dtntime.rs *)")
    for n in ["SECONDS1970_TO2K", "MS1970_TO2K", "DTN_TIME_EPOCH"]:
        emit(n, lambda n=n: const(src("src/dtntime.rs"), n))
    w("(* src/administrative_record.rs *)")
    for n in ["BUNDLE_STATUS_REPORT_TYPE_CODE", "MAX_STATUS_INFORMATION_POS", "RECEIVED_BUNDLE", "FORWARDED_BUNDLE",
              "DELIVERED_BUNDLE", "DELETED_BUNDLE", "NO_INFORMATION", "LIFETIME_EXPIRED", "HOP_LIMIT_EXCEEDED",
              "BLOCK_UNSUPPORTED"]:
        emit(n, lambda n=n: const(src("src/administrative_record.rs"), n))
    w("(* src/flags.rs: bitflags! BlockControlFlags *)")
    bl = flags_group("BlockControlFlags", "src/flags.rs")
    for n, v in bl:
        w("Definition %s : N := %d." % (n, v))
    w("Definition BLOCK_ALL_BITS : N := %d.  (* union of all declared flags = from_bits_truncate mask *)" % compiled.get("BLOCK_ALL_BITS", union(bl)))
    w("(* src/flags.rs: bitflags! BundleControlFlags *)")
    bu = flags_group("BundleControlFlags", "src/flags.rs")
    for n, v in bu:
        w("Definition %s : N := %d." % (n, v))
    w("Definition BUNDLE_ALL_BITS : N := %d.  (* union of all declared flags = from_bits_truncate mask *)" % compiled.get("BUNDLE_ALL_BITS", union(bu)))

    # security.rs (feature bpsec)
    sec_path = os.path.join(REPO, "src/security.rs")
    if os.path.exists(sec_path) or "INTEGRITY_BLOCK" in compiled:
        w("(* src/security.rs *)")
        for n in ["INTEGRITY_BLOCK", "CONFIDENTIALITY_BLOCK", "HMAC_SHA_256", "HMAC_SHA_384", "HMAC_SHA_512",
                  "BIB_HMAC_SHA2_ID", "BIB_HMAC_SHA2_RESULT_ID", "SEC_CONTEXT_ABSENT", "SEC_CONTEXT_PRESENT"]:
            emit(n, lambda n=n: const(src("src/security.rs"), n))
        sc = flags_group("IntegrityScopeFlags", "src/security.rs")
        for n, v in sc:
            w("Definition %s : N := %d." % (n, v))
        w("Definition INTEGRITY_ALL_BITS : N := %d.  (* union of the declared scope flags = from_bits_truncate mask *)" % compiled.get("INTEGRITY_ALL_BITS", union(sc)))

    # CRC algorithms chosen in crc.rs: parameters as compiled in, else from the vendored catalogue by the name in the source
    crc = None
    try:
        crc = src("src/crc.rs")
    except OSError:
        pass
    pat = r"pub\s+(?:const|static)\s+%s\s*:\s*Crc<u(?:16|32)>\s*=\s*Crc::<u(?:16|32)>::new\(&\s*(?:[A-Za-z_]+::)*([A-Z0-9_]+)\s*\)"
    for tag, rust_name in (("crc16", "X25"), ("crc32", "CASTAGNOLI")):
        m = re.search(pat % rust_name, crc) if crc else None
        keys = ["width", "poly", "init", "xorout", "check", "residue"]
        if all(("%s_%s" % (tag, k)) in compiled for k in keys + ["refin", "refout"]):
            d = {k: compiled["%s_%s" % (tag, k)] for k in keys}
            refs = {k: compiled["%s_%s" % (tag, k)] for k in ("refin", "refout")}
            ver = crc_catalog_version()
            w("(* src/crc.rs selects %s; parameters from crc-catalog %s *)" % (m.group(1) if m else "the algorithm compiled into bp7::crc::%s" % rust_name, ver))
        else:
            if not m:
                raise KeyError("CRC algorithm selection (%s) not found in src/crc.rs" % rust_name)
            used_source.append(tag)
            dd, ver = crc_algorithm(m.group(1))
            d = {k: lit(dd[k]) for k in keys}
            for k in ("refin", "refout"):
                if dd[k] not in ("true", "false"):
                    raise ValueError("bad bool")
            refs = {k: dd[k] == "true" for k in ("refin", "refout")}
            w("(* src/crc.rs selects %s; parameters from crc-catalog %s *)" % (m.group(1), ver))
        for k in keys:
            w("Definition %s_%s : N := %d." % (tag, k, d[k]))
        for k in ["refin", "refout"]:
            w("Definition %s_%s : bool := %s." % (tag, k, "true" if refs[k] else "false"))
    text = "\n".join(out) + "\n"
    os.makedirs(os.path.dirname(OUT), exist_ok=True)
    old = open(OUT).read() if os.path.exists(OUT) else None
    how = ("compiled values for %d names" % len(compiled)) + ("; from the source text: %s" % ", ".join(used_source) if used_source else "")
    if old != text:
        open(OUT, "w").write(text)
        print("gen_consts: wrote %s (%s)" % (OUT, how))
    else:
        print("gen_consts: unchanged (%s)" % how)
    return 0


if __name__ == "__main__":
    try:
        sys.exit(main())
    except (KeyError, ValueError, OSError) as e:
        print("gen_consts: FAILED: %s" % (e,))
        sys.exit(1)
