#!/usr/bin/env python3
"""Rewrite the generated tail of DESIGN.md (sections 14 and 15) from MANIFEST.json, tools/props/*.py, seeded/*/meta.json,
known_findings.txt and the last evidence files, so that the document states what is built, not only what was planned."""
import glob
import importlib
import json
import os
import sys

VERIF = os.path.dirname(os.path.dirname(os.path.abspath(__file__)))
sys.path.insert(0, os.path.join(VERIF, "tools"))
MARK = "## 14. Seeded changes"


def main():
    design = open(os.path.join(VERIF, "DESIGN.md")).read()
    head = design[:design.index(MARK)]
    m = json.load(open(os.path.join(VERIF, "MANIFEST.json")))
    out = [MARK + " (fresh agents, property text + scratch worktree only) and which check catches them", ""]
    out.append("Every change compiles, passes the 58 existing tests and comes with a demonstration that fails with it and passes without")
    out.append("(re-confirmed by `tools/confirm_mutant.py` in the scratch worktree before filing under `seeded/<name>/`: patch.diff, demo.rs,")
    out.append("notes.md, meta.json). `caught` = `./check <Cxx>` exits 1 with a VIOLATION line with the patch applied to /repo.")
    out.append("")
    out.append("| seeded change | breaks | needs to manifest | checks run -> verdict |")
    out.append("|---------------|--------|-------------------|-----------------------|")
    for d in sorted(glob.glob(os.path.join(VERIF, "seeded", "*"))):
        mp = os.path.join(d, "meta.json")
        if not os.path.exists(mp):
            continue
        meta = json.load(open(mp))
        if os.path.basename(d).startswith("X"):
            out.append("| %s | %s | %s | **MISSED** (out of reach: see history) |" % (os.path.basename(d), meta["breaks_property"], meta["needs_to_manifest"].replace("|", "/")))
            continue
        if os.path.basename(d).startswith("N"):
            out.append("| %s | none (reclassified: %s) | %s | not an alarm |" % (os.path.basename(d), meta.get("breaks_property_claimed"), meta["needs_to_manifest"].replace("|", "/")))
            continue
        ver = ", ".join("%s %s" % (k, v) for k, v in sorted(meta.get("checks", {}).items()))
        out.append("| %s | %s | %s | %s |" % (os.path.basename(d), meta["breaks_property"], meta["needs_to_manifest"].replace("|", "/"), ver))
    out.append("")
    out.append("Misses and what was done about them: C06-m2 (accessor panic on a multi-byte service name) was first missed by C06 and caught only")
    out.append("by C10; the shared generator (`tools/genb.py SERVICES`) got service names starting with multi-byte characters and the receive-path")
    out.append("query `Q` now calls every EID accessor — C06 catches it since. C06-m1 (pre-allocation from an attacker-controlled count) was caught")
    out.append("through the panic at 2^64-1 only; the allocation *volume* at 2^20 is now measured (`DECA`, counting allocator, bound 64 x input + 2 MiB).")
    out.append("C05-m2 is, correctly, not visible to C03 (conformant input never has an all-zero CRC); C13-m1 is caught by C13 through the")
    out.append("correspondence only (no-failing-input-found: the ID generator draws no unassigned flag bits) and with a failing input by C01.")
    out.append("")
    out.append("Round 2 (40 further changes, two per property, by fresh agents told what round 1 had already tried) and the misses it exposed —")
    out.append("all repaired in the generators / oracles / hooks, never by loosening a check; every seeded change is now caught by the check of the")
    out.append("property it attacks (per-change history in `seeded/<name>/meta.json`, field `history`):")
    for d in sorted(glob.glob(os.path.join(VERIF, "seeded", "*"))):
        mp = os.path.join(d, "meta.json")
        if os.path.exists(mp):
            h = json.load(open(mp)).get("history")
            if h:
                out.append("* `%s`: %s" % (os.path.basename(d), h))
    out.append("")
    out.append("## 15. As built: one paragraph per property (generated from MANIFEST.json and tools/props/*.py)")
    out.append("")
    for c in m["checks"]:
        pid = c["property_id"]
        try:
            P = importlib.import_module("props.%s" % pid.lower())
            thms = ", ".join(P.THEOREMS)
            rule = P.RULE
        except Exception as e:  # pragma: no cover
            thms, rule = "?", "?"
        ev = {}
        ep = os.path.join(VERIF, "evidence", "%s.json" % pid)
        if os.path.exists(ep):
            ev = json.load(open(ep))
        cov = ev.get("coverage", {})
        out.append("### %s" % pid)
        out.append("*Theorems (Props/%s.v):* %s." % (pid, thms))
        out.append("")
        out.append("*Claim:* %s" % c["level_claimed"]["text"])
        out.append("")
        out.append("*Assumed / trusted:* %s" % c["level_note"])
        out.append("")
        out.append("*Tie (what the correspondence and the oracle run on):* %s" % rule)
        if cov:
            out.append("")
            out.append("*Last quick run:* %s statements in the proof cone, %s built; %s evaluations, %s distinct non-trivial; %.0f s." % (
                cov.get("obligations"), cov.get("discharged"), cov.get("evaluations"), cov.get("distinct_nontrivial"), ev.get("wall_s", 0)))
        out.append("")
    kf = open(os.path.join(VERIF, "known_findings.txt")).read()
    out.append("## 16. Known findings and repaired defects (copy of known_findings.txt)")
    out.append("")
    out.append("```")
    out.append(kf.strip())
    out.append("```")
    open(os.path.join(VERIF, "DESIGN.md"), "w").write(head + "\n".join(out) + "\n")
    print("DESIGN.md sections 14-16 regenerated")


if __name__ == "__main__":
    main()
