"""Bundle generators, an independent Python CBOR/RFC 9171 reference encoder (with its own CRCs) and
structure-aware mutators.  Every random choice comes from the rng passed in (one PRNG state per run)."""
from vlib import rnd_u64, rnd_bytes, xhex, U64, BOUNDARY_U64

# ------------------------------------------------------------------ CBOR writer (RFC 8949) --------

def head(major, n):
    m = major << 5
    if n < 24:
        return bytes([m | n])
    if n < 256:
        return bytes([m | 24, n])
    if n < 65536:
        return bytes([m | 25]) + n.to_bytes(2, "big")
    if n < 2 ** 32:
        return bytes([m | 26]) + n.to_bytes(4, "big")
    return bytes([m | 27]) + n.to_bytes(8, "big")


def c_uint(n):
    return head(0, n)


def c_bytes(b):
    return head(2, len(b)) + bytes(b)


def c_text(b):
    return head(3, len(b)) + bytes(b)


def c_arr(items):
    return head(4, len(items)) + b"".join(items)


# ------------------------------------------------------------------ CRCs (bitwise, reflected) -------

def _crc_reflected(data, poly_r, init, xorout, width):
    s = init
    for b in data:
        s ^= b
        for _ in range(8):
            s = (s >> 1) ^ poly_r if s & 1 else s >> 1
    return (s ^ xorout) & ((1 << width) - 1)


def crc16_x25(data):
    return _crc_reflected(data, 0x8408, 0xFFFF, 0xFFFF, 16)


def crc32c(data):
    return _crc_reflected(data, 0x82F63B78, 0xFFFFFFFF, 0xFFFFFFFF, 32)


assert crc16_x25(b"123456789") == 0x906E and crc32c(b"123456789") == 0xE3069283

# ------------------------------------------------------------------ values ----------------------------
# eid:   ("DTN", code, ssp bytes) | ("NONE", code, addr) | ("IPN", code, node, svc)
# crc:   ("N",) | ("E16",) | ("E32",) | ("V16", bytes) | ("V32", bytes) | ("U", code)
# data:  ("DATA", b) | ("AGE", n) | ("HOP", l, c) | ("PREV", eid) | ("UNK", b) | ("DERR",)
# primary: dict(ver, flags, crc, dst, src, rpt, t, seq, life, foff, flen)
# canonical: dict(type, num, flags, crc, data)
# bundle: dict(p=primary, cs=[canonical])

NAMES = [b"node1", b"n", b"dtn", b"none", b"a-5", "knoten-äö".encode(), "€".encode(), b"x" * 23, b"y" * 24, b"group",
         b"home.net", b"1", b"node:1", "\U0001f680".encode(),
         # text that LOOKS escaped or special and must be kept verbatim: percent triplets, '#', '?', upper/lower-case twins, a trailing dot
         b"sensor%41", b"n%20x", b"GW1", b"gw1", b"none1", b"nonesuch", b"a.b.", b"x#y", b"q?r=1"]
SERVICES = [b"", b"in", b"incoming", b"~news", b"a/b/c", b"tele/sensors/temperature", b"123456", b"a-5", "dienst-ü".encode(),
            b"z" * 240, b"-", b"1-2-3", b"%20", "übung".encode(), "€".encode(), "~ü".encode(), "\U0001f680x".encode(),
            b"%7Enews", b"%7enews", b"my%20inbox", b"a%2Db", b"inbox#urgent", b"INBOX", b"inbox", b"a//b", b"x.", b"%", b"%4", b"%zz"]

ODD_SSPS = [b"none", b"none", b"x", b"//", b"/", b"node1", b"//node1", b"///", "ü".encode(), b"none/", b"//none", b"//none/", b"None", b" none",
            b"//" + b"n" * 300 + b"/" + b"s" * 10, b"0", b"dtn:none", b"//a//b", b"a" * 23, b"a" * 24, b"a" * 255, b"a" * 256]

FLAG_BITS = [0x000001, 0x000002, 0x000004, 0x000020, 0x000040, 0x004000, 0x010000, 0x020000, 0x040000]
IS_FRAGMENT = 0x1


def rnd_eid(rng, allow_none=True):
    r = rng.random()
    if r < 0.15 and allow_none:
        return ("NONE", 1, 0)
    if r < 0.19:
        # scheme-specific parts only a decoder can produce (the constructors always give "//node/service"): kept verbatim by the codec
        return ("DTN", 1, rng.choice(ODD_SSPS))
    if r < 0.6:
        node = rng.choice(NAMES)
        svc = rng.choice(SERVICES)
        if rng.random() < 0.15:
            node = bytes(rng.choice(b"abcdefghijklmnopqrstuvwxyz0123456789-._") for _ in range(rng.randrange(1, 30)))
        return ("DTN", 1, b"//" + node + b"/" + svc)
    node = max(1, rnd_u64(rng))
    return ("IPN", 2, node, rnd_u64(rng))


def rnd_crc_state(rng, kind=None):
    """any prior CRC state with CRC type in {0,1,2} (C04: stale, empty, absent)"""
    k = kind if kind is not None else rng.randrange(3)
    if k == 0:
        return ("N",)
    if k == 1:
        return rng.choice([("E16",), ("V16", bytes(rng.randrange(256) for _ in range(2))), ("V16", b"\x00\x00")])
    return rng.choice([("E32",), ("V32", bytes(rng.randrange(256) for _ in range(4))), ("V32", b"\xff\xff\xff\xff")])


def rnd_flags(rng, fragment=None):
    r = rng.random()
    if r < 0.5:
        f = 0
        for b in FLAG_BITS:
            if rng.random() < 0.3:
                f |= b
    elif r < 0.7:
        f = rnd_u64(rng)
    else:
        f = rng.choice([0, 4, 0x20004, 2, 0x40, 0x7C066, 0x7E27F])
    if fragment is True:
        f |= IS_FRAGMENT
    elif fragment is False:
        f &= ~IS_FRAGMENT
    return f & (U64 - 1)


def rnd_primary(rng, crc_kind=None, fragment=None):
    flags = rnd_flags(rng, fragment)
    frag = bool(flags & IS_FRAGMENT)
    return dict(ver=7, flags=flags, crc=rnd_crc_state(rng, crc_kind), dst=rnd_eid(rng), src=rnd_eid(rng),
                rpt=rnd_eid(rng), t=rnd_u64(rng), seq=rnd_u64(rng), life=rnd_u64(rng),
                foff=rnd_u64(rng) if frag else 0, flen=rnd_u64(rng) if frag else 0)


def rnd_block_flags(rng):
    return rng.choice([0, 0, 0, 1, 2, 4, 16, 0x17, rng.randrange(256)])


# payloads that happen to be (canonical or non-canonical) administrative-record encodings, or to look like bundle framing: kept verbatim
RECORD_LIKE = [bytes.fromhex(x) for x in ("9f0240ff", "82180241aa", "820240", "82018284818100f5f48102820100000000", "8201828481f5", "9fff", "9f", "8202", "82024100",
                                          "9f8807", "d9d9f7820240", "85070200004100")]
# block-type-11 data that parses as an RFC 9172 abstract security block header naming blocks 1, 2, 3 as targets
ASB_LIKE = [bytes.fromhex(x) for x in ("81010100820100", "8201020100820100", "810201018202820101", "83010203010082010081820105", "8101010182016a2f2f6e6f6465312f61")]


def rnd_data(rng, btype):
    if btype == 1:
        if rng.random() < 0.04:
            return ("DATA", rng.choice(RECORD_LIKE))
        return ("DATA", rnd_bytes(rng, 300))
    if btype == 7:
        return ("AGE", rnd_u64(rng))
    if btype == 10:
        return ("HOP", rng.choice([0, 1, 23, 24, 32, 254, 255, rng.randrange(256)]), rng.choice([0, 1, 23, 24, 254, 255, rng.randrange(256)]))
    if btype == 6:
        return ("PREV", rnd_eid(rng))
    if btype == 11 and rng.random() < 0.7:
        return ("UNK", rng.choice(ASB_LIKE))
    if rng.random() < 0.12:
        # opaque data that happens to look like something: a CBOR self-describe tag, an indefinite array, a whole block, valid UTF-8 digits,
        # repeated bytes, a would-be CRC field - kept verbatim whatever it looks like
        return ("UNK", rng.choice([b"\xd9\xd9\xf7\x01", b"\xd9\xd9\xf7", b"\x9f\xff", b"\x9f\x01", b"\x85\x07\x02\x00\x00\x41\x00", b"\x82\x18\x20\x03",
                                  b"12345", b"\x00" * 9, b"\xff" * 8, b"\x44\x00\x00\x00\x00", b"\x5f\x41\x41\xff", b"\xf6", b"\x18\x18"]))
    return ("UNK", rnd_bytes(rng, 60))


UNKNOWN_TYPES = [2, 3, 4, 5, 8, 9, 11, 12, 23, 24, 191, 192, 255, 256, 65536, 2 ** 32, 2 ** 64 - 1,
                 # aliases of the known types 1, 6, 7, 10 under truncation to 8 / 16 / 32 bits
                 257, 262, 263, 266, 65537, 65542, 65543, 65546, 2 ** 32 + 1, 2 ** 32 + 6, 2 ** 32 + 7, 2 ** 32 + 10, 2 ** 64 - 250, 2 ** 64 - 249, 2 ** 64 - 246]


def rnd_canonical(rng, btype=None, num=None, crc_kind=None):
    if btype is None:
        btype = rng.choice([7, 10, 6, rng.choice(UNKNOWN_TYPES), rng.choice(UNKNOWN_TYPES), rng.choice(UNKNOWN_TYPES + [11] * 8)])
    if num is None:
        num = rnd_u64(rng)
    return dict(type=btype, num=num, flags=rnd_block_flags(rng), crc=rnd_crc_state(rng, crc_kind), data=rnd_data(rng, btype))


def rnd_bundle(rng, nblocks=None, crc_kind=None, fragment=None, ordered=True):
    """a well-formed bundle of the C01 domain: payload block last with number 1, other numbers distinct"""
    if nblocks is None:
        r = rng.random()
        nblocks = 0 if r < 0.15 else rng.randrange(1, 5) if r < 0.75 else rng.randrange(5, 41) if r < 0.97 else rng.choice([22, 23, 24, 25, 300])
    p = rnd_primary(rng, crc_kind, fragment)
    cs = []
    if ordered:
        nums = list(range(nblocks + 1, 1, -1))
    else:
        nums = [rnd_u64(rng) for _ in range(nblocks)]
    for n in nums:
        ck = crc_kind if crc_kind is not None else None
        cs.append(rnd_canonical(rng, num=n, crc_kind=ck))
    cs.append(dict(type=1, num=1, flags=rnd_block_flags(rng), crc=rnd_crc_state(rng, crc_kind), data=rnd_data(rng, 1)))
    return dict(p=p, cs=cs)


def reorder(rng, b, free=False):
    """vary the ORDER / numbering of the extension blocks of a generated bundle (the library's own builders always produce
    descending block numbers, peers do not): keeps the payload block last with number 1 and the numbers distinct unless
    `free` (then, rarely, the payload moves or a number repeats -- still inside the codec theorems' domain, outside validate's)"""
    ext, pay = b["cs"][:-1], b["cs"][-1:]
    n = len(ext)
    if n == 0:
        return b
    r = rng.random()
    if r < 0.45:
        return b                                            # descending, as built by the library
    if r < 0.65:
        nums = list(range(2, n + 2))                        # ascending: 2, 3, 4, .., payload 1
    elif r < 0.85:
        nums = list(range(2, n + 2))
        rng.shuffle(nums)
    else:
        nums = []
        while len(nums) < n:
            v = rng.choice([rnd_u64(rng), rng.randrange(2, 300)])
            if v >= 2 and v not in nums:
                nums.append(v)
    for c, v in zip(ext, nums):
        c["num"] = v
    if free and rng.random() < 0.1:
        k = rng.randrange(3)
        if k == 0:
            cs = ext + pay
            rng.shuffle(cs)
            b["cs"] = cs
            return b
        if k == 1:
            ext[rng.randrange(n)]["num"] = rng.choice([0, 1, ext[0]["num"]])
    b["cs"] = ext + pay
    return b


_ZERO_PRIMARY = dict(ver=7, flags=0, crc=("E16",), dst=("DTN", 1, b"//node2/in"), src=("DTN", 1, b"//node1/out"), rpt=("NONE", 1, 0),
                     t=1000, seq=6976, life=3600000, foff=0, flen=0)
_ZERO_BLOCKS = [dict(type=1, num=1, flags=0, crc=("E16",), data=("DATA", bytes.fromhex("00f9ec"))),
                dict(type=1, num=1, flags=1, crc=("E16",), data=("DATA", bytes.fromhex("0042f0"))),
                dict(type=1, num=1, flags=4, crc=("E16",), data=("DATA", bytes.fromhex("00159e"))),
                dict(type=7, num=2, flags=0, crc=("E16",), data=("AGE", 36708)),
                dict(type=10, num=3, flags=0, crc=("E16",), data=("HOP", 120, 182)),
                dict(type=10, num=3, flags=0, crc=("E16",), data=("HOP", 233, 51))]


def zero_crc_bundles():
    """bundles in which the CORRECT CRC-16 of some block is exactly 0x0000 (1 block in 65536: random generation never gets there;
    the value coincides with the all-zero placeholder of a CRC that was never calculated).  Witnesses were found by search with
    the reference encoder and are re-verified here; one that no longer verifies is dropped, never trusted."""
    prim = dict(_ZERO_PRIMARY)
    blocks = [dict(c) for c in _ZERO_BLOCKS if ref_canonical(c)[1] == b"\x00\x00"]
    prim_ok = ref_primary(prim)[1] == b"\x00\x00"
    plain_p = dict(prim, crc=("N",), seq=1)
    plain_pay = dict(type=1, num=1, flags=0, crc=("N",), data=("DATA", b"abc"))
    out = []
    pays = [c for c in blocks if c["type"] == 1]
    exts = [c for c in blocks if c["type"] != 1]
    for state in (("E16",), ("V16", b"\x00\x00"), ("V16", b"\x12\x34")):
        for pay in pays:
            out.append(dict(p=dict(plain_p), cs=[dict(pay, crc=state)]))                       # only the payload block has a CRC (= 0)
        for e in exts:
            out.append(dict(p=dict(plain_p), cs=[dict(e, crc=state), dict(plain_pay)]))         # extension block with CRC 0, payload without
            if pays:
                out.append(dict(p=dict(plain_p, crc=("E32",)), cs=[dict(e, crc=state), dict(pays[0], crc=state)]))
        if prim_ok:
            out.append(dict(p=dict(prim, crc=state), cs=[dict(plain_pay)]))                      # primary block with CRC 0
            if pays:
                out.append(dict(p=dict(prim, crc=state), cs=[dict(pays[0], crc=state)]))
    # a payload block whose correct CRC-32C is exactly 0x00000000 (1 block in 2^32; witness from seeded change C11-m13, re-verified here)
    z32 = dict(type=1, num=1, flags=0, crc=("E32",), data=("DATA", bytes.fromhex("62703720f81c8f51")))
    if ref_canonical(z32)[1] == b"\x00\x00\x00\x00":
        for state in (("E32",), ("V32", b"\x00\x00\x00\x00"), ("V32", b"\x12\x34\x56\x78")):
            out.append(dict(p=dict(plain_p), cs=[dict(z32, crc=state)]))
            out.append(dict(p=dict(plain_p, crc=("E32",)), cs=[dict(type=10, num=2, flags=0, crc=("E32",), data=("HOP", 32, 1)), dict(z32, crc=state)]))
    return out


def big_bundle(n, plen, kind):
    """the bundle the harness command `RTBIG n plen kind` builds (same fixed rule)"""
    def crc_of(i):
        k = i % 3 if kind == 3 else kind
        return ("N",) if k == 0 else ("E16",) if k == 1 else ("E32",)
    p = dict(ver=7, flags=0, crc=crc_of(1), dst=("DTN", 1, b"//node2/in"), src=("DTN", 1, b"//node1/out"), rpt=("NONE", 1, 0),
             t=1000, seq=1, life=3600000, foff=0, flen=0)
    cs = [dict(type=192, num=i + 2, flags=i % 3, crc=crc_of(i), data=("UNK", str(i).encode())) for i in range(n - 1, -1, -1)]
    cs.append(dict(type=1, num=1, flags=0, crc=crc_of(2), data=("DATA", bytes((7 * j + 3) % 251 for j in range(plen)))))
    return dict(p=p, cs=cs)


def fnv1a64(data):
    h = 0xcbf29ce484222325
    for x in data:
        h = ((h ^ x) * 0x100000001b3) & 0xFFFFFFFFFFFFFFFF
    return h


def judge_rtbig(line, out):
    """oracle for an RTBIG line: round trip, idempotence, library CRC check, and the bytes (length + FNV-1a) against the reference encoder"""
    t = line.split(" ")
    n, plen, kind = int(t[1]), int(t[2]), int(t[3])
    ref = ref_bundle(big_bundle(n, plen, kind))[0]
    want = "OK RT T IDEM T V T LEN %d H %d" % (len(ref), fnv1a64(ref))
    if out == want:
        return None
    o = out.split(" ")
    if len(o) == 11 and o[0] == "OK":
        if o[2] != "T":
            return "a bundle of %d extension blocks and a %d-byte payload does not survive encode + decode" % (n, plen)
        if o[4] != "T":
            return "encoding the same large bundle twice gives different bytes"
        if o[8:] != want.split(" ")[8:]:
            return "encoding of a large bundle (%d extension blocks, %d-byte payload, CRC kind %d) differs from the RFC 9171 reference (length/hash %s, want %s)" % (
                n, plen, kind, " ".join(o[8:]), " ".join(want.split(" ")[8:]))
        if o[6] != "T":
            return "the library's CRC check fails on the decoded wire image of a freshly encoded large bundle"
    return "large bundle: %s" % out[:60]


BIG_CASES = ["RTBIG 0 70000 1", "RTBIG 0 70000 2", "RTBIG 0 65525 1", "RTBIG 0 65526 1", "RTBIG 0 65524 2", "RTBIG 0 131100 2", "RTBIG 0 200000 3",
             "RTBIG 254 10 3", "RTBIG 255 10 0", "RTBIG 65533 5 0", "RTBIG 65534 5 0", "RTBIG 65535 5 3", "RTBIG 65600 5 0"]


# ------------------------------------------------------------------ case-line rendering ---------------

def show_crc(c):
    if c[0] in ("V16", "V32"):
        return "%s %s" % (c[0], xhex(c[1]))
    if c[0] == "U":
        return "U %d" % c[1]
    return c[0]


def show_eid(e):
    if e[0] == "DTN":
        return "DTN %d %s" % (e[1], xhex(e[2]))
    if e[0] == "NONE":
        return "NONE %d %d" % (e[1], e[2])
    return "IPN %d %d %d" % (e[1], e[2], e[3])


def show_data(d):
    k = d[0]
    if k in ("DATA", "UNK"):
        return "%s %s" % (k, xhex(d[1]))
    if k == "AGE":
        return "AGE %d" % d[1]
    if k == "HOP":
        return "HOP %d %d" % (d[1], d[2])
    if k == "PREV":
        return "PREV " + show_eid(d[1])
    return "DERR"


def show_primary(p):
    return "P %d %d %s %s %s %s %d %d %d %d %d" % (p["ver"], p["flags"], show_crc(p["crc"]), show_eid(p["dst"]), show_eid(p["src"]),
                                                   show_eid(p["rpt"]), p["t"], p["seq"], p["life"], p["foff"], p["flen"])


def show_canonical(c):
    return "C %d %d %d %s %s" % (c["type"], c["num"], c["flags"], show_crc(c["crc"]), show_data(c["data"]))


def show_bundle(b):
    return "B " + show_primary(b["p"]) + " [ " + "".join(show_canonical(c) + " " for c in b["cs"]) + "]"


# ------------------------------------------------------------------ parsing of rendered results ---------

class T:
    def __init__(self, toks):
        self.t, self.i = toks, 0

    def next(self):
        x = self.t[self.i]
        self.i += 1
        return x

    def n(self):
        return int(self.next())

    def b(self):
        return bytes.fromhex(self.next()[1:])


def parse_crc(t):
    k = t.next()
    if k in ("V16", "V32"):
        return (k, t.b())
    if k == "U":
        return ("U", t.n())
    return (k,)


def parse_eid(t):
    k = t.next()
    if k == "DTN":
        return ("DTN", t.n(), t.b())
    if k == "NONE":
        return ("NONE", t.n(), t.n())
    return ("IPN", t.n(), t.n(), t.n())


def parse_data(t):
    k = t.next()
    if k in ("DATA", "UNK"):
        return (k, t.b())
    if k == "AGE":
        return ("AGE", t.n())
    if k == "HOP":
        return ("HOP", t.n(), t.n())
    if k == "PREV":
        return ("PREV", parse_eid(t))
    return ("DERR",)


def parse_bundle(t):
    assert t.next() == "B" and t.next() == "P"
    p = dict(ver=t.n(), flags=t.n(), crc=parse_crc(t), dst=parse_eid(t), src=parse_eid(t), rpt=parse_eid(t), t=t.n(), seq=t.n(),
             life=t.n(), foff=t.n(), flen=t.n())
    assert t.next() == "["
    cs = []
    while t.t[t.i] != "]":
        assert t.next() == "C"
        cs.append(dict(type=t.n(), num=t.n(), flags=t.n(), crc=parse_crc(t), data=parse_data(t)))
    t.next()
    return dict(p=p, cs=cs)


def parse_bundle_line(s):
    return parse_bundle(T(s.split()))


# ------------------------------------------------------------------ reference encoder (RFC 9171 section 4) --

def crc_type(c):
    return {"N": 0, "E16": 1, "V16": 1, "E32": 2, "V32": 2}.get(c[0], c[1] if c[0] == "U" else None)


def ref_eid(e):
    if e[0] == "DTN":
        return c_arr([c_uint(e[1]), c_text(e[2])])
    if e[0] == "NONE":
        return c_arr([c_uint(e[1]), c_uint(e[2])])
    return c_arr([c_uint(e[1]), c_arr([c_uint(e[2]), c_uint(e[3])])])


def _with_crc(items, ctype):
    """items: list of encoded items without CRC; returns (block bytes, crc value bytes or None)"""
    if ctype == 0:
        return c_arr(items), None
    w = 2 if ctype == 1 else 4
    zero = c_arr(items + [c_bytes(bytes(w))])
    v = (crc16_x25(zero) if ctype == 1 else crc32c(zero)).to_bytes(w, "big")
    return c_arr(items + [c_bytes(v)]), v


def ref_primary(p):
    items = [c_uint(p["ver"]), c_uint(p["flags"]), c_uint(crc_type(p["crc"])), ref_eid(p["dst"]), ref_eid(p["src"]), ref_eid(p["rpt"]),
             c_arr([c_uint(p["t"]), c_uint(p["seq"])]), c_uint(p["life"])]
    if p["flags"] & IS_FRAGMENT:
        items += [c_uint(p["foff"]), c_uint(p["flen"])]
    return _with_crc(items, crc_type(p["crc"]))


def ref_data(d):
    k = d[0]
    if k in ("DATA", "UNK"):
        return c_bytes(d[1])
    if k == "AGE":
        return c_bytes(c_uint(d[1]))
    if k == "HOP":
        return c_bytes(c_arr([c_uint(d[1]), c_uint(d[2])]))
    if k == "PREV":
        return c_bytes(ref_eid(d[1]))
    return c_bytes(b"\xf6")


def ref_canonical(c):
    items = [c_uint(c["type"]), c_uint(c["num"]), c_uint(c["flags"]), c_uint(crc_type(c["crc"])), ref_data(c["data"])]
    return _with_crc(items, crc_type(c["crc"]))


def ref_bundle(b):
    """RFC 9171 encoding (bytes) and the bundle with the CRC values a conformant peer would put on the wire"""
    out = bytearray(b"\x9f")
    pb, pv = ref_primary(b["p"])
    out += pb
    nb = dict(p=dict(b["p"]), cs=[])
    if pv is not None:
        nb["p"]["crc"] = ("V16" if len(pv) == 2 else "V32", pv)
    for c in b["cs"]:
        cb, cv = ref_canonical(c)
        out += cb
        nc = dict(c)
        if cv is not None:
            nc["crc"] = ("V16" if len(cv) == 2 else "V32", cv)
        nb["cs"].append(nc)
    out += b"\xff"
    return bytes(out), nb


def block_spans(b):
    """byte ranges [(start, end)] of the primary and each canonical block inside ref_bundle(b)[0]"""
    spans, pos = [], 1
    pb, _ = ref_primary(b["p"])
    spans.append((pos, pos + len(pb)))
    pos += len(pb)
    for c in b["cs"]:
        cb, _ = ref_canonical(c)
        spans.append((pos, pos + len(cb)))
        pos += len(cb)
    return spans


def strip_crc_values(b):
    """same bundle with every stored CRC value forgotten (type kept)"""
    def f(c):
        t = crc_type(c)
        return ("N",) if t == 0 else ("E16",) if t == 1 else ("E32",) if t == 2 else c
    nb = dict(p=dict(b["p"]), cs=[dict(c) for c in b["cs"]])
    nb["p"]["crc"] = f(nb["p"]["crc"])
    for c in nb["cs"]:
        c["crc"] = f(c["crc"])
    return nb


# ------------------------------------------------------------------ malformed stream ---------------------

DICT_ITEMS = [b"\x78\xc8" + "é".encode() * 100, b"\x79\x01\x2d" + b"x" + "€".encode() * 100, b"\x00", b"\x01", b"\x17", b"\x18\x18", b"\x18\xff", b"\x19\x01\x00", b"\x1a\x00\x01\x00\x00", b"\x1b" + b"\xff" * 8,
              b"\x20", b"\x38\xff", b"\x3b" + b"\xff" * 8, b"\x40", b"\x41\x00", b"\x42\x00\x00", b"\x44\x00\x00\x00\x00", b"\x5f\x41\x00\xff",
              b"\x60", b"\x61\x61", b"\x62\xc3\xa9", b"\x61\xff", b"\x7f\x61\x61\xff", b"\x80", b"\x81\x00", b"\x82\x01\x00", b"\x82\x02\x82\x01\x00",
              b"\x82\x02\x82\x00\x00", b"\x9f\xff", b"\x9f\x00\xff", b"\xa0", b"\xa1\x00\x00", b"\xbf\xff", b"\xc0\x00", b"\xd8\x18\x00", b"\xf4", b"\xf5",
              b"\xf6", b"\xf7", b"\xf9\x00\x00", b"\xfa\x00\x00\x00\x00", b"\xfb" + b"\x00" * 8, b"\xff", b"\x1c", b"\x5b" + b"\xff" * 8,
              b"\x7b" + b"\xff" * 8, b"\x9b" + b"\xff" * 8, b"\x9b\x00\x00\x00\x00\x00\x00\x00\x0b", b"\xbb" + b"\xff" * 8, b"\xf8\x00", b"\xe0",
              b"\x82\x01\x63abc", b"\x82\x01\x41\x2f", b"\x82\x03\x00", b"\x82\x01\x82\x01\x00"]


def item_spans(buf):
    """offsets (start, end) of every well-formed CBOR item in buf (nested, depth-first); best effort"""
    spans = []

    def item(pos, depth=0):
        if pos >= len(buf) or depth > 40:
            raise ValueError
        b = buf[pos]
        mt, ai = b >> 5, b & 31
        p = pos + 1
        if ai < 24:
            n = ai
        elif ai == 24:
            n = buf[p]
            p += 1
        elif ai == 25:
            n = int.from_bytes(buf[p:p + 2], "big")
            p += 2
        elif ai == 26:
            n = int.from_bytes(buf[p:p + 4], "big")
            p += 4
        elif ai == 27:
            n = int.from_bytes(buf[p:p + 8], "big")
            p += 8
        elif ai == 31 and mt in (2, 3, 4, 5):
            n = None
        else:
            raise ValueError
        if p > len(buf):
            raise ValueError
        if mt in (0, 1, 7):
            end = p
        elif mt in (2, 3):
            if n is None:
                while buf[p] != 0xFF:
                    p = item(p, depth + 1)
                end = p + 1
            else:
                end = p + n
                if end > len(buf):
                    raise ValueError
        elif mt in (4, 5):
            cnt = n if mt == 4 else (None if n is None else 2 * n)
            if cnt is None:
                while buf[p] != 0xFF:
                    p = item(p, depth + 1)
                end = p + 1
            else:
                if cnt > len(buf):
                    raise ValueError
                for _ in range(cnt):
                    p = item(p, depth + 1)
                end = p
        else:
            end = item(p, depth + 1)
        spans.append((pos, end))
        return end

    try:
        item(0)
    except (ValueError, IndexError):
        pass
    return spans


def mutate(rng, buf):
    """one structure-aware mutation of an encoded bundle"""
    buf = bytes(buf)
    spans = item_spans(buf)
    r = rng.random()
    if spans and r < 0.35:      # item substitution from the boundary dictionary
        s, e = rng.choice(spans)
        return buf[:s] + rng.choice(DICT_ITEMS) + buf[e:]
    if spans and r < 0.45:      # deletion of an item
        s, e = rng.choice(spans)
        return buf[:s] + buf[e:]
    if spans and r < 0.55:      # duplication of an item
        s, e = rng.choice(spans)
        return buf[:e] + buf[s:e] + buf[e:]
    if r < 0.63:                # truncation
        return buf[:rng.randrange(len(buf) + 1)]
    if r < 0.73:                # bit flip
        if not buf:
            return buf
        i = rng.randrange(len(buf))
        return buf[:i] + bytes([buf[i] ^ (1 << rng.randrange(8))]) + buf[i + 1:]
    if spans and r < 0.83:      # length-prefix tampering: rewrite the head byte of an item
        s, e = rng.choice(spans)
        nb = (buf[s] & 0xE0) | rng.choice([0, 1, 2, 8, 9, 10, 11, 23, 24, 25, 26, 27, 28, 31])
        return buf[:s] + bytes([nb]) + buf[s + 1:]
    if spans and r < 0.90:      # type confusion: same argument, other major type
        s, e = rng.choice(spans)
        nb = (buf[s] & 0x1F) | (rng.randrange(8) << 5)
        return buf[:s] + bytes([nb]) + buf[s + 1:]
    if spans and r < 0.95:      # deep tag nesting around an item
        s, e = rng.choice(spans)
        k = rng.choice([1, 2, 120, 125, 126, 127, 128, 129, 135])
        return buf[:s] + b"\xc1" * k + buf[s:]
    i = rng.randrange(len(buf) + 1)   # splice
    j = rng.randrange(len(buf) + 1)
    return buf[:i] + buf[j:]
