#!/usr/bin/env python3
"""Regenerate /verif/MANIFEST.json from the table below (keeps it valid and consistent)."""
import json
import os
import subprocess

VERIF = os.path.dirname(os.path.dirname(os.path.abspath(__file__)))
TECH = "machine-checked proof in Rocq (Coq 8.16) over a hand-written executable model + correspondence check against the implementation"
COMMON_NOTE = ("Trusted: Coq 8.16.1 kernel incl. vm_compute, extraction (ExtrOcamlBasic only) + ocamlopt, the Rust harness and python driver, "
               "the translator for constants; ")

CHECKS = {
 "C01": ("Coq theorems C01_roundtrip / C01_deterministic_idempotent / C01_decode_encode: for every well-formed bundle (any number of blocks, any CRC state, "
         "all EID kinds, full-range integers) decode(encode b) is the bundle with its freshly stored CRCs, nothing but CRC values changes, and a second "
         "encoding is identical — proved by induction over the block list on a stream-parser model of serde_cbor and transcriptions of bp7's serde impls; "
         "model tied to /repo by differential execution (RT channel) incl. 22-25 and 300-block bundles; every RT line also asks the crate's other public "
         "routes for the same step (try_from(Vec<u8>), serde_cbor::from_slice / from_reader, serde's Serialize for Bundle) and fails when one of them "
         "disagrees with try_from(&[u8]) / to_cbor.",
         "serde_cbor/serde/serde_bytes behaviour is modelled, not verified; Duration lifetimes whole ms < 2^64.", "DESIGN.md section 6 C01"),
 "C02": ("Coq theorem C02_wire_format: the model encoder's bytes equal the generic shortest-form serialization of the RFC 9171 section 4 item tree "
         "(Spec/Rfc9171.v, CRCs by the bitwise catalogue CRC) for every well-formed bundle; spec pinned to RFC 9173 A.1 / golden vectors; implementation "
         "compared with the extracted spec encoder and an independent Python reference on every run.",
         "as C01; the Python reference encoder is the oracle.", "DESIGN.md section 6 C02"),
 "C03": ("Coq theorem C03_accepts_conformant: every bundle serialized by the specification encoder (peer CRCs) decodes to exactly the fields put on the "
         "wire, passes crc_valid and re-encodes to the bytes received; corollary of C01+C02+C04 lemmas; implementation fed bytes of the independent Python "
         "encoder (DECRT channel).", "as C01.", "DESIGN.md section 6 C03"),
 "C04": ("Coq theorems C04_primary / C04_canonical / C04_bundle_layout / C04_fresh_passes: for every prior CRC state the stored and emitted CRC is "
         "be(crc16_x25 | crc32c) of the block serialized with a zero-filled CRC field, type 0 has no field, fresh encodings pass the check; CRC definition "
         "= bitwise reflected register with catalogue parameters regenerated from src/crc.rs + crc-catalog (check values re-verified by the kernel); crc "
         "crate tied by the K-crc channel and, exhaustively, by C04_tie_crc_single_bytes (the compiled crate's two checksum functions on every one-byte message - which "
         "exercises every entry of a 256-entry lookup table - equal the bitwise definitions; table regenerated from /repo on every run).", "as C01; crate `crc` table implementation tied by differential testing and the one-byte table.", "DESIGN.md section 6 C04"),
 "C05": ("Coq theorems C05_no_silent_corruption_partial / C05_single_bit / C05_crc_value_change (pipeline: emitted bundle of the C01 domain with "
         "CRC-16/CRC-32C on all blocks, one block corrupted, decoder, alarm condition 're-encodes with stored CRCs to the received bytes in the same "
         "block byte ranges' => crc_valid = false) for the three classes: one flipped bit anywhere in the block (no premise on the decoded CRC type: "
         "both generator polynomials contain x+1, a valid block has even parity under either algorithm), any change of the CRC value, any change "
         "confined to 2 resp. 4 consecutive content bytes under the premise that the decoded block keeps its CRC type; per-block versions for primary "
         "and canonical blocks; C05_any_decoder (any bundle value in the decoder's image, decoder-independent); C05_uncorrupted_passes, "
         "C05_no_crc_passes; algebra C05_crc16/crc32c_detects_window without enumeration. C05_full (window class without the premise) is REFUTED "
         "(C05_full_refuted): a concrete CRC-16 payload block that a two-byte window turns into a valid CRC-32C block of the same length - a "
         "property of the BPv7 wire format, reproduced on the implementation (corpus line, counted, not judged); a second mechanism with the same root (a window "
         "over the array head re-frames the block into one WITHOUT CRC: C05_ex_reframed, known class crc-type-removed-by-reframing). K-corrupt channel: every bit flip, "
         "every window start with boundary/exhaustive patterns and CRC overwrites per block, model vs implementation, oracle = the alarm condition; "
         "REENC lines: a received bundle (correct or overwritten CRC values) gets a new payload and lifetime and is sent on - what to_cbor emits must "
         "pass the check in memory and after decoding (C05_reencoded_passes: for every well-formed received bundle with a payload block, every new payload and lifetime).",
         "window class: same decoded CRC type (necessary, see C05_full_refuted); windows straddling content and CRC value are outside the property; "
         "as C01 for serde.", "DESIGN.md section 6 C05"),
 "C06": ("Coq theorems C06_decode_total (for EVERY byte string the decoder model returns Ok or Err, never Panic — by inversion of the stream parser through all "
         "bp7 visitors), C06_receive_path_total (forwarding update, lifetime check, timestamp display, unix conversion cannot panic on any decodable "
         "bundle in checked or wrapping arithmetic), C06_depth_bounded (>= 128 nested tags are an error: the recursion budget is effective), "
         "C06_length_claims_checked, C06_decoded_shape, C06_admin_record_total (the administrative-record decoder a receiver applies to the payload "
         "returns Ok or Err for EVERY byte string, through the size_hint-branching visitors); K-dec on all strings of length <= 2 (+3-byte sample; thorough: all <= 3) and K-rx (receive path) "
         "on structure-aware mutants and targeted boundary bundles in debug and release builds. PARTIAL: allocation volume inside serde and stack bytes "
         "per frame are runtime behaviour outside the model; operations that are total functions of the model (validate, crc_valid, add block, re-encode) "
         "are tied to the code by the channel only; EID accessors, IDs and JSON are covered under C10/C13/C15.",
         "partial as stated; clock >= 2000-01-01 for operations reading it.", "DESIGN.md section 6 C06"),
 "C07": ("Coq theorems C07_validate_iff / C07_rejects_nonempty / C07_on_decoded: for every bundle in the decoder's image (C07_decoded_shape, by inverting "
         "the stream-parser model) outside the stale reserved masks, the transcription of Bundle::validate returns no error iff the rule list of the "
         "property text (raw bit tests, NoDup block numbers, at-most-once singleton types, payload present, status-report restriction, creation-time-zero "
         "rule) holds; K-val channel on bytes of the Python reference encoder over the rule space with a Python transcription of the rules as oracle. "
         "C07_validate_iff_any extends the equivalence to EVERY bundle value (API-built, any widths, mismatched block data) provided no type-1 block carries CanonicalData::Unknown (the one corner where code and rule list differ, C07_ex_unknown_payload). "
         "C07_tie_block_flags / C07_tie_bundle_flags: Bundle::validate of the compiled crate on an otherwise valid bundle with every u8 block flag word and every combination of the 14 "
         "bundle flag bits (tables regenerated from /repo on every run) equal the model's, outside the don't-care masks - kernel-checked over all rows; "
         "C07_tie_rule_space: Bundle::validate of the compiled crate on EVERY bundle of the block-list part of the property's finite rule space (8 contexts x 27931 "
         "lists of up to 3 blocks, 223448 rows) accepts exactly when the model does.",
         "bitflags from_bits_truncate/contains semantics modelled; HashSet modelled as list membership.", "DESIGN.md section 6 C07"),
 "C08": ("Coq theorems C08_update_exact / C08_update_total / C08_frame: for every bundle in the decoder's image, every node, every u128 residence time and "
         "every clock reading not before 2000, the transcription of update_extensions returns Ok(false) exactly when hop count+1 > limit, age+residence > "
         "lifetime (ms) or creation+lifetime <= now computed on unbounded integers, otherwise Ok(true) with exactly hop+1 / age+residence / previous node "
         "= node and nothing else changed; no panic in checked or wrapping arithmetic; K-ops channel: all boundary (limit,count) pairs and a boundary "
         "cross product for age/residence/lifetime/creation/now under the clock hook, debug and release builds. C08_code_structure: the function written the "
         "way bundle.rs writes it (block selected by extension_block_by_type_mut, then hop_count_get/_increase/_exceeded, previous_node_update, "
         "bundle_age_get/_update applied in place: Model/Api.v) equals the function those theorems are about; both models answer the same lines (OPS / OPSA). "
         "C08_tie_hop_count: for EVERY (limit, count) in u8 x u8 the compiled crate's Bundle::update_extensions on a bundle carrying that hop count block (table "
         "regenerated from /repo on every run, Gen/Tbl_HOP.v) returns what the model returns, with the model's count when true and never a lower count when false - "
         "kernel-checked over all 65536 rows.",
         "clock >= 2000-01-01 (dtn_time_now); std Duration::as_millis.", "DESIGN.md section 6 C08"),
 "C09": ("Coq theorems C09_unique / C09_unique_from / C09_complete / C09_sequential*: NoDup of returned (time, seq) pairs for every number of threads, calls, "
         "clock readings and every interleaving of the instrumented operations (invariant over the schedule), plus the non-overlapping clause; "
         "C09_pinned_refuted keeps the two-atomics defect machine-checked; model tied to the real now() by running model schedules on OS threads "
         "stepped through the cfg(bp7_verif) scheduler hook, one fresh process per case; the same schedules through every other public entry point that "
         "stamps a bundle (SCHEDX: new_std_payload_bundle, new_status_report_bundle, ffi bundle_new_default; SCHEDR: helpers::rnd_bundle(now()) and ffi "
         "helper_rnd_bundle, two draws per call, uniqueness only - C09_handed_out_unique: every subsequence of the generator's answers is duplicate-free), a ticking clock (SCHEDT) and the free-running 16-thread stress (STRESS).",
         "sequential consistency of the instrumented operations (weak-memory reorderings outside the model); std::sync::Mutex.", "DESIGN.md section 6 C09"),
 "C10": ("Coq theorems C10_print_parse / C10_cbor_roundtrip / C10_accepts_canonical / C10_rejects / C10_node_id / C10_new_endpoint / C10_api_image / "
         "C10_total over a line-by-line transcription of eid.rs (Display, TryFrom<&str>, with_dtn, with_ipn, new_endpoint, node, node_id, service_name, "
         "is_node_id) on UTF-8 byte lists: every endpoint ID returned by the textual API (inductive closure = boolean normal form, proved) prints to a "
         "string that parses back to it and its CBOR form decodes back to it; dtn:none, dtn://node/service (every valid-UTF-8 node without '/', every "
         "service) and ipn:n.s (1<=n<2^64) are accepted with node/service reported unchanged; each rejection class is a decidable predicate on the "
         "string and yields an error; node_id parses to a node ID with the same node; new_endpoint keeps the node and reports the new service "
         "(ipn: decimal value of the Unicode-white-space-trimmed argument); no panic on valid UTF-8. K-eid channel: grammar-based valid strings, one "
         "near-miss per rejection class, byte mutations, constructors, new_endpoint with all kinds of service strings, CBOR decoder-image EIDs.",
         "str::split/splitn/trim/starts_with, u64::from_str, char::is_whitespace (Unicode White_Space) and Display for u64 are modelled, not verified; "
         "strings are valid UTF-8 shorter than 2^64 bytes; EndpointID values assembled directly from the public enum variants are outside the property.",
         "DESIGN.md section 6 C10"),
 "C15": ("Coq theorems C15_json_roundtrip / C15_decode_encode / C15_text_is_print / C15_idempotent: for every well-formed bundle (C01 domain: fragments and "
         "non-fragments, every CRC type and prior CRC state, any number of blocks) the serde token tree bp7's Serialize impls hand to serde_json parses back, "
         "through transcriptions of bp7's Deserialize visitors on a sequence access without size hint, to the bundle with its freshly stored CRCs, and nothing "
         "but CRC values changes; C15_pinned_refuted keeps D12 machine-checked (with `size_hint().unwrap_or(0)` the JSON of EVERY fragment fails to parse). "
         "K-json channel: to_json text compared byte for byte with the model's compact printer and with Python's json.dumps, try_from(String) compared with "
         "from_tokens on the library's own text and on mutated token trees.",
         "serde_json's text layer (lexer, escapes, number syntax) is trusted: parse(print t) = t is not proved; serde_json's token interface is modelled, not verified.",
         "DESIGN.md section 6 C15"),
 "C11": ("Coq theorem C11_invariant: for every bundle produced by BundleBuilder::build / new_std_payload_bundle that validates (and lies in the C01 "
"domain) and EVERY finite sequence of add_canonical_block / set_payload / set_payload_block / set_crc (any u8 type code: unknown types 3..255 = no CRC field) / update_extensions calls with admissible "
"arguments (any requested block number, payload, residence time, clock >= 2000), in checked and wrapping arithmetic, no call aborts and the "
"final state satisfies Inv (unique non-zero strictly descending block numbers, exactly one payload block = number 1 = last, previous-node / "
"bundle-age / hop-count at most once, validate = Ok, well-formed), the payload read back is the one most recently set, and to_cbor/from_cbor "
"round-trips (via C01, and via C11_roundtrip_unknown_crc on the domain extended to unknown CRC types, wf_bundle_u); proved by one preservation lemma per mutator (C11_step) and induction over the operation list; C11_start / "
"C11_builder_build / C11_std_bundle show the builders establish the start state. K-ops channel: all operation-kind sequences <= 3 (thorough 4) "
"over 15 kinds with boundary arguments + random sequences <= 8 in debug and release builds, Inv evaluated by an independent Python oracle on "
"the implementation's bundle after every step; the final CBOR round trip goes through every public encode / decode route. Public constructors and builders (Model/Api.v, Proofs/ApiProofs.v): C11_bundle_builder / "
"C11_from_builder (BundleBuilder with primary/canonicals/payload each optional = builder_build with the payload block pushed last; what it returns, "
"once valid and well formed, keeps the invariant under every admissible sequence), C11_builder_payload_last, C11_constructors_admissible / "
"C11_constructors_valid (every new_*_block call with in-range arguments is an admissible argument and passes extension validation), "
"C11_primary_builder (refuses exactly the null destination, copies every field), C11_std_bundle_api (the unwrap inside new_std_payload_bundle), "
"C11_block_ops (laws of hop_count_increase / bundle_age_update / previous_node_update and their getters); K-api channel: each of these functions "
"with every setter called or not, against the model and against what the function documents. C11_tie_crc_code: Bundle::set_crc(k) followed by Bundle::to_cbor "
"for EVERY u8 code k emits the bytes the model emits (table regenerated from the compiled crate on every run).",
"start state must be inside the C01 domain extended to unknown CRC types (validate alone accepts CanonicalData::Unknown under a known block type, which does not round-trip: "
"C11_ex_unknown_typed); admissible arguments = Model/OpSeq.v op_ok; clock >= 2000-01-01.", "DESIGN.md section 6 C11"),
 "C12": ("Coq theorems C12_record_roundtrip (every normal-form administrative record — status reports with any number of status items of the three "
         "normal kinds, u32 reason, dtn/ipn/none source, u64 timestamp, optional fragment fields; unknown records with code != 1 and opaque content "
         "— decodes from its encoding to itself, through the serde visitors that branch on SeqAccess::size_hint, by induction over the definite "
         "element loop), C12_record_layout (the encoder's bytes are the generic shortest-form serialization of the RFC 9171 section 6.1 item tree of "
         "Spec/Rfc9171Admin.v), C12_status_report_bundle / _total (for every subject bundle in the decoder's image that is not a fragment and has a "
         "report-to endpoint, every position 0..3, u32 reason, CRC type 0..2 and clock reading after 2000: new_status_report_bundle returns, without "
         "panic in checked or wrapping arithmetic, a bundle that passes validate, is an administrative record, goes to the subject's report-to, comes "
         "from the reporting node, carries the subject's lifetime and the generator's next timestamp, and whose payload decodes to a status report "
         "naming the subject's source and creation timestamp, asserting exactly the requested item, with the status time = clock reading iff the "
         "subject requested status times, and the requested reason), C12_fragment_unimplemented / C12_no_report_to_panics (the two excluded inputs "
         "abort, as modelled); K-adm channel: ADMENC/ADMSPEC/ADMDEC on generated normal-form records against an independent Python encoding of the "
         "section 6.1 layout, SRB (one fresh process per case, clock hook) over C01-domain subjects x 4 positions x 3 CRC types x reasons x "
         "status-time flag, plus agreement-only malformed / out-of-domain streams, debug and release builds.",
         "serde Vec/bool/u32 visitors and serde_cbor size_hint modelled, not verified; clock after 2000-01-01 and < 2^64 ms; reporting node's EID "
         "valid; fewer than 2^64-1 timestamps per millisecond; subject's source name < 2^64 bytes.", "DESIGN.md section 6 C12"),
 "C13": ("Coq theorems C13_depends_only_on_ident (the textual bundle ID is a function of source endpoint ID, creation time, sequence number, "
         "fragment-ness and fragment offset), C13_injective_outside_known / C13_iff_outside_known (equal IDs imply equal identity for all bundles "
         "with API/decoder-image sources and u64 fields outside two decidable classes), C13_refuted (the full iff of the property text is false: "
         "dtn://n/a-5 (1,2) vs fragment dtn://n/a (5,1) offset 2), C13_fragment_collides / C13_known_none_name_narrow (the classes are tight), "
         "C13_refbundle (a status report about a non-fragment bundle prints the bundle's ID), C13_received_report_refers (a normal-form status "
         "report about a bundle - fragment or not - that went over the wire prints, after decoding, exactly that bundle's ID: composition with the "
         "C12 record round trip); K-id channel: SRREF (reports decoded from reference encodings) and SRREFE (the same after one pass through the crate's record encoder), IDPAIR bundles built a second time through PrimaryBlockBuilder (same ID required; C13_builder_route: the builder with every field handed to its setter builds the same primary block), adversarial re-splittings of one ID "
         "text, single-field perturbations inside/outside the identity, random pairs, status-report references; failing pairs are classified by "
         "the same decidable predicate (known findings id-dash-source, id-none-name).",
         "Display for u64/EndpointID and format! are modelled; new_status_report on a fragment is unimplemented!() in the crate (not judged).",
         "DESIGN.md section 6 C13"),
 "C14": ("Coq theorems C14_null_on_invalid / C14_null_on_empty / C14_from_cbor_outcomes (bundle_from_cbor on any buffer: NULL with the heap and the "
         "allocation count untouched when the bytes do not decode or do not validate, never an abort — uses C06_decode_total), C14_valid_gives_bundle, "
         "C14_agrees_with_rust_api, C14_roundtrip_through_ffi (for every well-formed bundle that validates: decoding its encoding through the interface "
         "gives that bundle; validity, payload, metadata and re-encoding are those of the Rust API model; re-encoding = the bytes decoded), "
         "C14_no_leak_no_double_free / C14_net_allocations_zero / C14_step_allocations / C14_balanced_from (for EVERY call sequence that respects "
         "bp7.h — decided from the return values alone: arguments live and of the documented kind, every object given back once to its own free "
         "function, any order — no call hits a dead or wrong-kind object, no library object remains, and the sum of the per-call allocation deltas "
         "is 0; by a simulation invariant between the caller's book and the heap), C14_use_after_free_flagged, C14_aborts_only_on_caller_error, "
         "C14_pinned_refuted (original ffi.rs: abort on undecodable input, 3 allocations leaked by examples/ffi/bp7-test.c). K-ffi channel: the real "
         "extern \"C\" functions called through their C signatures in one child process per case (an abort is an outcome) under a counting "
         "#[global_allocator]; the model predicts every return value and the exact change in live allocations of every call; all orders of "
         "query/free calls <= 6 over one and two bundles, C01-domain / invalid / mutated / random / empty buffers, bundle_new_default under the "
         "clock hook, the bp7-test.c sequence. PARTIAL: out-of-bounds reads/writes inside a call are runtime behaviour that neither the model nor "
         "allocation counting can exhibit.",
         "partial as stated; the C caller follows bp7.h (anything else is undefined behaviour in C and is never executed); bundle_new_default's "
         "argument errors abort by design; Buffer.len is u32 (>= 4 GiB not modelled); allocation counts of Vec/String/Box/CString as observed "
         "(no allocation for length 0) are tied by the channel, not derived from std.", "DESIGN.md section 6 C14"),
 "C16": ("Coq theorems C16_ippt (for every scope-flag value < 8, every primary without CRC, every target block of any type and every security "
         "header the transcription of IntegrityProtectedPlaintext::create equals the RFC 9173 3.7 concatenation written with the generic CBOR "
         "writer; C16_ippt_raw_flags says what happens beyond bit 2), C16_result_shape (compute_hmac yields exactly one (1, HMAC-SHA2(key, ippt)) "
         "pair per IPPT entry in IPPT order for variants 5/6/7 and every key; proved for an abstract keyed hash and instantiated), "
         "C16_asb_layout / C16_bib_pipeline / C16_bib_block (to_cbor = ser of the RFC 9172 3.6 item sequence; BIB = canonical block of type 11), "
         "C16_ippt_injective / C16_ippt_injective_target (same flags + same IPPT => same data bytes, primary, target header, security header as "
         "selected; by parsing both sides back with the model decoder); RFC 9173 A.1 IPPT / signature / ASB / BIB / bundle re-computed by the "
         "kernel; K-sec channel: all target types x 8 scope flags x 3 SHA variants x random and boundary keys through the public bpsec API, "
         "judged by an independent Python recomputation (hashlib/hmac + own CBOR writer).",
         "sha2/hmac crates tied to the executable SHA-2 model by differential testing and RFC vectors only; ASB clause for consistent blocks "
         "(parameters present, flag bit 0 set); scope flags < 8.", "DESIGN.md section 6 C16"),
 "C17": ("Coq theorems C17_unix, C17_string_denotes (every t up to 9999-12-31T23:59:59.999Z: output is the RFC 3339 rendering of valid calendar fields whose "
         "days-from-civil instant is t+offset; date step proved for every day number from one 146097-day vm_compute sweep lifted by 400-year periodicity), "
         "C17_format_total, C17_now, over a transcription of dtntime.rs and humantime's formatter; constants regenerated from the Rust source; K-time "
         "channel in debug and release builds with the clock hook.",
         "humantime 2.4.0 format_rfc3339 and std Duration/SystemTime arithmetic are transcribed, not verified; clock >= 2000-01-01 for the now clause.",
         "DESIGN.md section 6 C17"),
 "C18": ("Coq theorems C18_unhex_hex / C18_hex_unhex / C18_rejects / C18_total about the model of hexify/unhexify (all byte strings, all strings), with the "
         "slicing panic and the lenient from_str_radix kept as partial primitives behind the guard; K-hex channel: exhaustive short inputs + seeded random, every length up to 130. C18_tie_hexify / "
         "C18_tie_unhexify: the compiled crate's hexify on every byte and unhexify on every two-character ASCII string (tables regenerated on every run) equal the model's.",
         "u8::from_str_radix and str slicing are modelled; inputs are valid UTF-8 (&str).", "DESIGN.md section 6 C18"),
 "C19": ("Coq theorem C19_faults_rejected: for every well-formed bundle and every fault of Spec/Faults.v (the property's classes as data with "
         "positions: missing / one extra item in primary, canonical, timestamp, ipn pair, hop-count pair; EID extra item / missing scheme; CRC "
         "wrong length, present vs type 0, absent vs type 1/2; ANY negative / float16/32/64 / null / text / bytes / array / map item at every "
         "unsigned field; ANY integer / string / map at every array position incl. the blocks; integer at byte-string fields; unknown scheme, "
         "ipn node 0; extension-block data of another shape, with trailing bytes or with an inner fault; missing break; trailing bytes) the bytes "
         "`apply_fault` produces from the RFC 9171 item tree are answered with Err by the decoder model — proved by propagation of 'not Ok' through "
         "every serde combinator, counting lemmas for definite arrays and totality (C06); C19_baseline_accepted / C19_fault_tree_is_rfc: the "
         "unfaulted tree is the conformant encoding and is accepted; C19_classes_inhabited: every class applicable and rejected on a concrete "
         "bundle (vm_compute). K-dec on the fault stream: for every generated bundle EVERY applicable (fault, position), injected by the Python "
         "reference encoder's twin of apply_fault (compared byte for byte with the extracted apply_fault on ~14 000 faults every run); oracle: ERR.",
         "serde_cbor/serde/serde_bytes behaviour is modelled, not verified; documented leniencies (dtn ssp position, fragment fields by count, "
         "definite outer / indefinite inner arrays, tags, non-shortest heads, text or u8-array as byte string) are outside the fault classes.",
         "DESIGN.md section 6 C19"),
 "C20": ("Coq theorems C20_encode / C20_encode_stdin (for every UTF-8 manifest whose every line the tool's loop accepts — manifest_ok: the five "
         "keys in any order and multiplicity, comments, blank lines, Unicode white space, valid dtn/ipn/none endpoint IDs, any humantime lifetime "
         "below 2^64 ms, a flag word that validates — every payload, payload from a file or from stdin, raw and -x output, every clock after "
         "2000-01-01: the run exits 0 and its standard output decodes with the library model (after unhexify of the text minus the newline in -x "
         "mode) to a bundle that validates and has exactly the manifest's destination, source, report-to, lifetime and flags, creation time = clock "
         "- 946684800000, sequence 0 and the given payload), C20_manifest_canonical (the five-line key=value manifests over parsable EID texts and "
         "duration texts are in manifest_ok with the fields their values denote), C20_decode_payload / _stdin (for every well-formed bundle of the "
         "C01 domain `decode <hex> -p` and `decode - -p` print exactly its payload bytes, exit 0, nothing on stderr), C20_time_commands (dtntime "
         "<t>, dtntime, d2u <t> print DtnTime.string / dtn_time_now / unix + newline) over a transcription of src/main.rs (argument dispatch, "
         "usage and exit codes, manifest_to_primary, generate_bundle, decode) on top of the library models and a COMPLETE transcription of "
         "humantime 2.4.0 parse_duration (all units, fractions, embedded white space, checked arithmetic); corollaries of C01, C07, C10, C17, C18. "
         "K-cli channel: the real bp7 binary (debug build, clock hook through BP7_VERIF_CLOCK_MS) run as a child process on generated manifests x "
         "payloads (empty, binary, 64 KiB) x modes x payload source, on reference encodings of C01-domain bundles (hex argument and raw stdin, with "
         "and without -p), malformed inputs of every kind (agreement on the abort), time commands on boundary values, usage paths; `rnd` is checked "
         "by an oracle inside the harness (output decodes, validates, stderr = id); the Python oracle recomputes the expected bytes with the "
         "independent RFC 9171 reference encoder and its own manifest/duration reader.",
         "manifests valid UTF-8 (from_utf8_lossy replacement not modelled); clock strictly after 2000-01-01 and < 2^64 ms; lifetime < 2^64 ms, "
         "sub-millisecond parts dropped (wire format); Debug dump of `decode` without -p, `rnd` randomness and `benchmark` not modelled; humantime, "
         "Rust std (env::args, fs::read, str methods, exit code 101 on panic) modelled, tied by the channel, not verified.",
         "DESIGN.md section 6 C20"),
}

PENDING = {

"C13": "check not built yet","C19": "check not built yet",}


def main():
    hooks = subprocess.check_output(["git", "-C", "/repo", "log", "--format=%h", "--grep=^verif hook"]).decode().split()
    m = {"version": 1, "setup_cmd": "./check --setup",
         "hooks": {"guard": "bp7_verif", "enable": "RUSTFLAGS=\"--cfg bp7_verif\" (set by ./check when it builds harness/ against /repo)",
                   "baseline_off_cmd": "cd /repo && cargo test --workspace --no-fail-fast --offline", "source_commits": hooks, "add_only": True},
         "engines": [{"name": "rocq-model+correspondence", "path": "check", "serves_properties": sorted(CHECKS),
                      "kind_free_text": "Coq 8.16 development (coq/), extracted OCaml model runner, Rust harness path-depending on /repo, python driver"}],
         "checks": [], "not_applicable": []}
    for pid in sorted(CHECKS):
        text, note, ref = CHECKS[pid]
        m["checks"].append({"property_id": pid, "quick_cmd": "./check %s --tier quick" % pid, "thorough_cmd": "./check %s --tier thorough" % pid,
                            "evidence_file": "evidence/%s.json" % pid, "replay_cmd_template": "./check %s --replay {path}" % pid,
                            "engine": "rocq-model+correspondence",
                            "level_claimed": {"category": "proof", "text": text, "design_ref": ref},
                            "level_note": COMMON_NOTE + note, "technique": TECH})
    for pid in sorted(PENDING):
        if pid not in CHECKS:
            m["not_applicable"].append({"property_id": pid, "reason": PENDING[pid]})
    json.dump(m, open(os.path.join(VERIF, "MANIFEST.json"), "w"), indent=1)
    print("MANIFEST.json: %d checks, %d not_applicable" % (len(m["checks"]), len(m["not_applicable"])))


if __name__ == "__main__":
    main()
