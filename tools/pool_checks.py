#!/usr/bin/env python3
"""Run checks against a patched copy of /repo without touching /repo's working tree, in parallel.
usage: tools/pool_checks.py <patch.diff | -> <Cxx> [<Cyy> ...]      ('-' = unpatched HEAD)
Uses the private slots of tools/confirm_pool.py (/tmp/vpool/s<k>: copy of /verif + scratch worktree of /repo).
Prints one line per check: `<Cxx> rc=<n> <VIOLATION line or last line>` and the first FAIL/BREAK lines."""
import os
import subprocess
import sys

import confirm_pool as cp


def main():
    patch = sys.argv[1]
    checks = sys.argv[2:]
    nslots = min(4, len(checks))
    base = int(os.environ.get("VPOOL_BASE", "0"))      # first slot number (other pool tools may be using the low ones)
    slots = [cp.setup_slot(base + k) for k in range(nslots)]
    results = {}

    def work(c, k):
        v, r = slots[k]
        cp.run("git checkout -q -- . && git clean -fdq src tests", r)
        if patch != "-":
            rc, out = cp.run("git apply %s" % os.path.abspath(patch), r)
            if rc:
                results[c] = (99, "patch does not apply: " + out, "")
                return
        env = dict(os.environ, BP7_REPO=r, VERIF_EVIDENCE_DIR=os.path.join(v, ".cache", "mutant-evidence"))
        p = subprocess.run([os.path.join(v, "check"), c, "--tier", "quick"], cwd=v, stdout=subprocess.PIPE, stderr=subprocess.PIPE, env=env)
        o = p.stdout.decode("utf-8", "replace").strip().split("\n")
        vio = [l for l in o if l.startswith("VIOLATION")]
        err = [l.strip()[:400] for l in p.stderr.decode("utf-8", "replace").split("\n") if l.strip().startswith(("FAIL", "BREAK"))][:4]
        results[c] = (p.returncode, vio[0] if vio else o[-1][:200], "\n".join("    " + e for e in err))

    # a slot runs one check at a time (the patch stays applied in the slot's worktree for all of them)
    cp.pool(work, checks, nslots)
    for v, r in slots:
        cp.run("git checkout -q -- . && git clean -fdq src tests", r)
    bad = 0
    for c in checks:
        rc, line, err = results.get(c, (98, "no result", ""))
        print("%s rc=%d %s" % (c, rc, line))
        if err:
            print(err)
        bad += rc != 0
    return 1 if bad else 0


if __name__ == "__main__":
    sys.exit(main())
