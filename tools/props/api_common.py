"""K-api channel: the public constructors, builders and per-block operations (harness/src/chan_api.rs, coq Run/RunApi.v).

Generators of `API ...` case lines and an oracle that is a direct Python reading of what each function documents (independent of
the Coq model): used by C11 ("bundles built through the public builders"), C07 (validation of API-built bundles) and C08 (OPSA)."""
import genb
from vlib import U64, xhex

MAXN = U64 - 1
EIDS = [("DTN", 1, b"//n1/a"), ("IPN", 2, 23, 0), ("NONE", 1, 0), ("DTN", 1, "//kö/~x".encode()), ("IPN", 2, MAXN, MAXN),
        ("IPN", 2, 0, 5), ("IPN", 1, 3, 3), ("NONE", 2, 0), ("NONE", 1, 7), ("DTN", 2, b"//x/")]
NUMS = [0, 1, 2, 3, 23, 24, 255, 256, 65535, 65536, 2 ** 32, 2 ** 63, MAXN]
FLAGS = [0, 1, 2, 4, 8, 16, 0x15, 0x17, 0xF0, 0xFF, 0x65]
AGES = [0, 1, 999, 3600000, 2 ** 32, 2 ** 63, MAXN]
HOPS = [(32, 0), (0, 0), (1, 1), (3, 200), (255, 254), (255, 255), (254, 255), (0, 255), (17, 17)]
PAYLOADS = [b"", b"p", b"ABC", bytes(24), b"\xff" * 3]
CRCS = [("N",), ("E16",), ("E32",), ("V16", b"\x12\x34"), ("V32", b"\x00\x00\x00\x00"), ("U", 3), ("U", 200)]
TYPES = [0, 1, 2, 6, 7, 8, 10, 11, 192, 255, 256, 263, 266, 65536, MAXN]      # incl. aliases of 7 and 10 modulo 256
P0 = dict(ver=7, flags=0, crc=("N",), dst=("DTN", 1, b"//d/x"), src=("DTN", 1, b"//s/y"), rpt=("NONE", 1, 0), t=1000, seq=0, life=3600000, foff=0, flen=0)
PNEW = dict(ver=7, flags=0, crc=("N",), dst=("NONE", 1, 0), src=("NONE", 1, 0), rpt=("NONE", 1, 0), t=0, seq=0, life=0, foff=0, flen=0)
OFFSET = 946684800000
TEXT_EIDS = [b"dtn://n1/", b"dtn://n1/a", b"dtn:none", b"ipn:1.2", b"ipn:23.0", "dtn://kö/~x".encode(), b"dtn://node", b"ipn:18446744073709551615.1",
             b"none", b"dtn://none", b"ipn:0.1", b"ipn:1", b"ipn:1.2.3", b"http://x/", b"dtn:/x", b"", b"ipn:18446744073709551616.1", b"dtn://none/x",
             b"ipn:+5.1"]


def _rnd_data(rng, kind=None):
    kind = kind or rng.choice(["DATA", "AGE", "HOP", "PREV", "UNK", "UNK"])
    if kind == "DATA":
        return ("DATA", rng.choice(PAYLOADS))
    if kind == "AGE":
        return ("AGE", rng.choice(AGES))
    if kind == "HOP":
        return ("HOP",) + rng.choice(HOPS)
    if kind == "PREV":
        return ("PREV", rng.choice(EIDS))
    return ("UNK", rng.choice([b"", b"\x00", b"\x18\x18", b"\x82\x01\x02"]))


# ------------------------------------------------------------------ expectations --------------------------------

def eid_valid(e):
    if e[0] == "DTN":
        return True
    if e[0] == "IPN":
        return e[1] == 2 and e[2] >= 1
    return e[1] == 1 and e[2] == 0


def ext_valid(c):
    d, t = c["data"], c["type"]
    k = d[0]
    if k == "DATA":
        return t == 1 and c["num"] == 1
    if k == "AGE":
        return t == 7
    if k == "HOP":
        return t == 10
    if k == "PREV":
        return t == 6 and eid_valid(d[1])
    return k == "UNK"


def hop_get(c):
    return (c["data"][1], c["data"][2]) if c["type"] == 10 and c["data"][0] == "HOP" else None


def age_get(c):
    return c["data"][1] if c["type"] == 7 and c["data"][0] == "AGE" else None


def prev_get(c):
    return c["data"][1] if c["type"] == 6 and c["data"][0] == "PREV" else None


def show_accessors(c):
    d = c["data"]
    h = hop_get(c)
    a = age_get(c)
    p = prev_get(c)
    return "PD %s HG %s HX %s AG %s PG %s EV %s" % (
        xhex(d[1]) if d[0] == "DATA" else "-", "%d %d" % h if h else "-", "T" if (h and h[1] > h[0]) else "F",
        "%d" % a if a is not None else "-", genb.show_eid(p) if p else "-", "T" if ext_valid(c) else "F")


def show_block(c):
    return genb.show_canonical(c) + " " + show_accessors(c)


def blk(ty, num, flags, data, crc=("N",)):
    return dict(type=ty, num=num, flags=flags, crc=crc, data=data)


def primary_valid(p):
    f = p["flags"]
    n = 0
    if p["ver"] != 7:
        n += 1
    if (f & 0xE218) == 0xE218:
        n += 1
    if (f & 1) and (f & 4):
        n += 1
    if (f & 2) and (f & (0x4000 | 0x10000 | 0x20000 | 0x40000)):
        n += 1
    n += sum(1 for k in ("dst", "src", "rpt") if not eid_valid(p[k]))
    return n == 0


def bundle_valid(b):
    p, cs = b["p"], b["cs"]
    if not primary_valid(p):
        return False
    strict = bool(p["flags"] & 2) or p["src"] == ("NONE", 1, 0)
    for c in cs:
        if (c["flags"] & 0xF0) == 0xF0 or not ext_valid(c) or (strict and c["flags"] & 2):
            return False
    nums = [c["num"] for c in cs]
    if len(set(nums)) != len(nums):
        return False
    if any(sum(1 for c in cs if c["type"] == t) > 1 for t in (6, 7, 10)):
        return False
    if p["t"] == 0 and not any(c["type"] == 7 for c in cs):
        return False
    return any(c["type"] == 1 and ext_valid(c) for c in cs)


def verdict_ok(text, ok):
    """`VALID` / `INVALID <n>`: only valid-or-not is judged (the number and wording of errors is free)"""
    return text.startswith("VALID") == ok and (ok or text.startswith("INVALID"))


def eid_parse(s):
    from props import c14
    try:
        s.decode("utf-8")
    except UnicodeDecodeError:
        return None
    return c14.eid_parse(s)


# ------------------------------------------------------------------ case lines -------------------------------------

def _opt(s):
    return "- " if s is None else "+ %s " % s


def line_blk(rng):
    k = rng.choice(["HOP", "AGE", "PREV", "PAYLOAD", "CANON", "CANON", "BUILD", "BUILD"])
    n, f = rng.choice(NUMS), rng.choice(FLAGS)
    if k == "HOP":
        return "API BLK HOP %d %d %d" % (n, f, rng.choice([0, 1, 16, 32, 254, 255]))
    if k == "AGE":
        return "API BLK AGE %d %d %d" % (n, f, rng.choice(AGES))
    if k == "PREV":
        return "API BLK PREV %d %d %s" % (n, f, genb.show_eid(rng.choice(EIDS)))
    if k == "PAYLOAD":
        return "API BLK PAYLOAD %d %s" % (f, xhex(rng.choice(PAYLOADS)))
    if k == "CANON":
        return "API BLK CANON %d %d %d %s" % (rng.choice(TYPES), n, f, genb.show_data(_rnd_data(rng)))
    o = lambda v: None if rng.random() < 0.25 else v
    return ("API BLK BUILD " + _opt(o("%d" % rng.choice(TYPES))) + _opt(o("%d" % n)) + _opt(o("%d" % f)) + _opt(o(genb.show_crc(rng.choice(CRCS))))
            + _opt(o(genb.show_data(_rnd_data(rng))))).strip()


def line_bops(rng):
    kind = rng.choice(["HOP", "AGE", "PREV", None])
    ty = {"HOP": 10, "AGE": 7, "PREV": 6}.get(kind, 1)
    if rng.random() < 0.3:
        ty = rng.choice(TYPES)                         # data that does not belong to the type: every accessor must decline
    c = blk(ty, rng.choice(NUMS), rng.choice(FLAGS), _rnd_data(rng, kind), rng.choice(CRCS))
    ops = []
    for _ in range(rng.randrange(1, 5)):
        o = rng.choice(["HOPINC", "HOPINC", "AGEUPD", "PREVUPD"])
        if o == "AGEUPD":
            o += " %d" % rng.choice(AGES + [U64, 2 ** 128 - 1])
        elif o == "PREVUPD":
            o += " " + genb.show_eid(rng.choice(EIDS))
        ops.append(o)
    return "API BOPS %s ; %s" % (genb.show_canonical(c), " ; ".join(ops))


def _rnd_primary(rng):
    frag = rng.random() < 0.3
    return dict(ver=7, flags=rng.choice([0, 4, 0x20004, 2, 6, 0x40, 5, 0x10002]) | (1 if frag else 0), crc=rng.choice(CRCS), dst=rng.choice(EIDS),
                src=rng.choice(EIDS), rpt=rng.choice(EIDS), t=rng.choice([0, 1, 1000, MAXN]), seq=rng.choice([0, 1, MAXN]),
                life=rng.choice([0, 1000, 3600000, MAXN]), foff=rng.choice([0, 7, MAXN]), flen=rng.choice([0, 9, MAXN]))


def line_pb(rng):
    p = _rnd_primary(rng)
    o = lambda v: None if rng.random() < 0.2 else v
    return ("API PB " + _opt(o("%d" % p["flags"])) + _opt(o(genb.show_crc(p["crc"]))) + _opt(o(genb.show_eid(p["dst"]))) + _opt(o(genb.show_eid(p["src"])))
            + _opt(o(genb.show_eid(p["rpt"]))) + _opt(o("%d %d" % (p["t"], p["seq"]))) + _opt(o("%d" % p["life"])) + _opt(o("%d" % p["foff"]))
            + _opt(o("%d" % p["flen"]))).strip()


def line_newprim(rng):
    return "API NEWPRIM %s %s %d %d %d" % (xhex(rng.choice(TEXT_EIDS)), xhex(rng.choice(TEXT_EIDS)), rng.choice([0, 5, MAXN]), rng.choice([0, 6, MAXN]),
                                           rng.choice([0, 7, 3600000, MAXN]))


def _ext_blocks(rng, allow_bad=True):
    n = rng.randrange(0, 5)
    cs = []
    for _ in range(n):
        kind = rng.choice(["HOP", "AGE", "PREV", "UNK"])
        ty = {"HOP": 10, "AGE": 7, "PREV": 6}.get(kind, rng.choice([2, 8, 192, 65536]))
        if allow_bad and rng.random() < 0.15:
            ty = rng.choice(TYPES)
        cs.append(blk(ty, rng.choice([2, 3, 4, 5, 23, 24, 256, MAXN] + ([0, 1] if allow_bad else [])), rng.choice([0, 0, 1, 4, 2]), _rnd_data(rng, kind), rng.choice(CRCS)))
    return cs


def line_bb(rng):
    p = _rnd_primary(rng) if rng.random() < 0.5 else dict(P0, t=rng.choice([0, 1000]))
    cs = _ext_blocks(rng)
    if rng.random() < 0.3:
        cs.insert(rng.randrange(len(cs) + 1), blk(1, rng.choice([1, 1, 0, 9]), 0, ("DATA", rng.choice(PAYLOADS))))
    pl = rng.choice(PAYLOADS)
    o = lambda v: None if rng.random() < 0.2 else v
    return ("API BB " + _opt(o(genb.show_primary(p))) + _opt(o("[ " + "".join(genb.show_canonical(c) + " " for c in cs) + "]")) + _opt(o(xhex(pl)))).strip()


_STD_CLOCK = [OFFSET + 5000]


def line_std(rng):
    _STD_CLOCK[0] += rng.randrange(1, 1000)             # increasing: the generator never hands out a time before the last one
    return "API STD %s %s %s %d" % (genb.show_eid(rng.choice(EIDS[:5])), genb.show_eid(rng.choice(EIDS[:5])), xhex(rng.choice(PAYLOADS)), _STD_CLOCK[0])


def line_prevnode(rng):
    cs = _ext_blocks(rng) + [blk(1, 1, 0, ("DATA", b"x"))]
    return "API PREVNODE " + genb.show_bundle(dict(p=dict(P0), cs=cs))


FIXED = ["API BLK NEW", "API BLK DEFAULT", "API PNEW", "API BDEFAULT", "API BB - - -", "API PB - - - - - - - - -", "API BLK BUILD - - - - -",
         "API BLK HOP 2 0 32", "API BLK HOP 2 0 0", "API BLK HOP 2 0 255", "API BLK AGE 2 0 0", "API BLK PREV 2 0 NONE 1 0", "API BLK PAYLOAD 0 x",
         "API BOPS C 10 2 0 N HOP 3 254 ; HOPINC ; HOPINC ; HOPINC", "API BOPS C 10 2 0 N HOP 255 255 ; HOPINC",
         "API BOPS C 7 2 0 N AGE 3 ; AGEUPD 18446744073709551615 ; AGEUPD 18446744073709551616 ; AGEUPD 340282366920938463463374607431768211455",
         "API BOPS C 263 2 0 N AGE 3 ; AGEUPD 5", "API BOPS C 266 2 0 N HOP 1 1 ; HOPINC", "API BOPS C 262 2 0 N PREV NONE 1 0 ; PREVUPD IPN 2 1 1",
         "API BOPS C 10 2 0 N UNK x00 ; HOPINC ; AGEUPD 1 ; PREVUPD NONE 1 0"]


def lines(rng, n):
    gens = [line_blk, line_blk, line_bops, line_bops, line_pb, line_newprim, line_bb, line_bb, line_std, line_prevnode]
    return list(FIXED) + [gens[i % len(gens)](rng) for i in range(n)]


# ------------------------------------------------------------------ oracle --------------------------------------------

def _popt(t, p):
    k = t.next()
    if k == "-":
        return None
    assert k == "+"
    return p(t)


def _pcan(t):
    assert t.next() == "C"
    return dict(type=t.n(), num=t.n(), flags=t.n(), crc=genb.parse_crc(t), data=genb.parse_data(t))


def _pblocks(t):
    assert t.next() == "["
    cs = []
    while t.t[t.i] != "]":
        cs.append(_pcan(t))
    t.next()
    return cs


def _pprimary(t):
    assert t.next() == "P"
    return dict(ver=t.n(), flags=t.n(), crc=genb.parse_crc(t), dst=genb.parse_eid(t), src=genb.parse_eid(t), rpt=genb.parse_eid(t),
                t=t.n(), seq=t.n(), life=t.n(), foff=t.n(), flen=t.n())


def expected(line):
    """the answer the documentation of the called function promises, as text (None = not an API line / nothing promised)"""
    toks = line.split()
    if toks and toks[0] in ("D", "R"):
        toks = toks[1:]
    if len(toks) < 2 or toks[0] != "API":
        return None
    t = genb.T(toks[2:])
    k = toks[1]
    if k == "BLK":
        s = t.next()
        if s == "HOP":
            c = blk(10, t.n(), t.n(), None)
            c["data"] = ("HOP", t.n(), 0)
        elif s == "AGE":
            c = blk(7, t.n(), t.n(), None)
            c["data"] = ("AGE", t.n())
        elif s == "PREV":
            c = blk(6, t.n(), t.n(), None)
            c["data"] = ("PREV", genb.parse_eid(t))
        elif s == "PAYLOAD":
            c = blk(1, 1, t.n(), None)
            c["data"] = ("DATA", t.b())
        elif s == "CANON":
            c = blk(t.n(), t.n(), t.n(), None)
            c["data"] = genb.parse_data(t)
        elif s in ("NEW", "DEFAULT"):
            c = blk(1, 0, 0, ("DATA", b""))
        else:
            ty = _popt(t, lambda t: t.n())
            nu = _popt(t, lambda t: t.n())
            fl = _popt(t, lambda t: t.n())
            cr = _popt(t, genb.parse_crc)
            da = _popt(t, genb.parse_data)
            if da is None:
                return "ERR"
            c = blk(ty or 0, nu or 0, fl or 0, da, cr or ("N",))
        return "OK " + show_block(c)
    if k == "BOPS":
        c = _pcan(t)
        out = ["OK"]
        while t.i < len(t.t):
            assert t.next() == ";"
            o = t.next()
            ret = False
            if o == "HOPINC":
                h = hop_get(c)
                if h and h[1] < 255:
                    c = dict(c, data=("HOP", h[0], h[1] + 1))
                    ret = True
            elif o == "AGEUPD":
                n = t.n()
                if age_get(c) is not None:
                    c = dict(c, data=("AGE", min(n, MAXN)))
                    ret = True
            else:
                e = genb.parse_eid(t)
                if prev_get(c) is not None:
                    c = dict(c, data=("PREV", e))
                    ret = True
            out.append("; %s %s" % ("T" if ret else "F", show_block(c)))
        return " ".join(out)
    if k == "PB":
        fl = _popt(t, lambda t: t.n())
        cr = _popt(t, genb.parse_crc)
        d = _popt(t, genb.parse_eid)
        s = _popt(t, genb.parse_eid)
        r = _popt(t, genb.parse_eid)
        ts = _popt(t, lambda t: (t.n(), t.n()))
        li = _popt(t, lambda t: t.n())
        of = _popt(t, lambda t: t.n())
        le = _popt(t, lambda t: t.n())
        none = ("NONE", 1, 0)
        if d is None or d == none:
            return "ERR"
        p = dict(ver=7, flags=fl or 0, crc=cr or ("N",), dst=d, src=s or none, rpt=r or none, t=ts[0] if ts else 0, seq=ts[1] if ts else 0,
                 life=li or 0, foff=of or 0, flen=le or 0)
        return "OK %s %s" % (genb.show_primary(p), "VALID" if primary_valid(p) else "INVALID")
    if k == "PNEW":
        return "OK %s %s" % (genb.show_primary(PNEW), genb.show_primary(PNEW))
    if k == "NEWPRIM":
        d, s = eid_parse(t.b()), eid_parse(t.b())
        if d is None or s is None:
            return "PANIC"
        return "OK " + genb.show_primary(dict(ver=7, flags=0, crc=("N",), dst=d, src=s, rpt=s, t=t.n(), seq=t.n(), life=t.n(), foff=0, flen=0))
    if k == "BB":
        p = _popt(t, _pprimary)
        cs = _popt(t, _pblocks) or []
        pl = _popt(t, lambda t: t.b())
        if pl is not None:
            cs = cs + [blk(1, 1, 0, ("DATA", pl))]
        cs = sorted(cs, key=lambda c: -c["num"])
        if not cs or cs[-1]["data"][0] != "DATA":
            return "ERR"
        b = dict(p=p or PNEW, cs=cs)
        return "OK %s %s" % (genb.show_bundle(b), "VALID" if bundle_valid(b) else "INVALID")
    if k == "BDEFAULT":
        return "OK %s INVALID" % genb.show_bundle(dict(p=PNEW, cs=[]))
    if k == "STD":
        s, d, data, clock = genb.parse_eid(t), genb.parse_eid(t), t.b(), t.n()
        if d == ("NONE", 1, 0):
            return "PANIC"
        b = dict(p=dict(ver=7, flags=0x20004, crc=("N",), dst=d, src=s, rpt=s, t=clock - OFFSET, seq=0, life=3600000, foff=0, flen=0),
                 cs=[blk(10, 2, 0, ("HOP", 32, 0)), blk(1, 1, 0, ("DATA", data))])
        return "OK %s %s" % (genb.show_bundle(b), "VALID" if bundle_valid(b) else "INVALID")
    if k == "PREVNODE":
        b = genb.parse_bundle(t)
        for c in b["cs"]:
            if c["type"] == 6 and ext_valid(c):
                p = prev_get(c)
                return "OK " + (genb.show_eid(p) if p else "-")
        return "OK -"
    return None


def _norm(s):
    import re
    return re.sub(r"INVALID \d+", "INVALID", s)


def strict(line):
    """No answer of the construction API is forced by a property: C11 speaks about 'any valid bundle built through the public builders',
    not about what a builder does with each argument (`seeded/H6a-harmless` h2: PrimaryBlockBuilder::build() clearing the fragment fields
    of a non-fragment is a legitimate change).  So every `API` line is an OBSERVATION for the model/implementation diff and for the
    reading of the documentation (`expected`): run, compared, counted in the evidence - never an alarm.  What IS judged is the property:
    see `oracle`."""
    return False


def _dont_care(b):
    """C07: bundles inside the stale reserved-bits masks may be accepted or rejected"""
    return (b["p"]["flags"] & 0xE218) == 0xE218 or any((c["flags"] & 0xF0) == 0xF0 for c in b["cs"])


def _toks(line):
    toks = line.split()
    if toks and toks[0] in ("D", "R"):
        toks = toks[1:]
    return toks


def std_facts(line, out):
    """new_std_payload_bundle: a bundle 'built through the public builders' from valid endpoints validates, keeps the endpoints and
    carries the data in its last block (C11's start state)"""
    t = genb.T(_toks(line)[2:])
    s, d, data = genb.parse_eid(t), genb.parse_eid(t), t.b()
    if d == ("NONE", 1, 0) or not out.startswith("OK "):
        return None            # refusing the null destination (by a panic or otherwise) is not specified
    o = out.split(" ")
    b = genb.parse_bundle(genb.T(o[1:-1] if o[-1] == "VALID" else o[1:-2]))
    return b, "INVALID" not in out, (s, d, data)


def bb_facts(line, out):
    """BundleBuilder: -> (bundle, says valid, payload handed to payload() or None, payload blocks handed to canonicals())"""
    if not out.startswith("OK "):
        return None
    t = genb.T(_toks(line)[2:])
    _popt(t, _pprimary)
    cs = _popt(t, _pblocks) or []
    pl = _popt(t, lambda t: t.b())
    o = out.split(" ")
    b = genb.parse_bundle(genb.T(o[1:-1] if o[-1] == "VALID" else o[1:-2]))
    return b, "INVALID" not in out, pl, [c for c in cs if c["type"] == 1]


def oracle(line, out, inv=None, valid=None, wf=None):
    """The property (C11) on what the builders return: a bundle that the library itself declares valid, and that is well formed, satisfies
    the block-list invariant `inv` right away (sorted strictly descending, one payload block numbered 1 and last, singletons once ..), the
    library's verdict agrees with the rule list `valid`, and the payload handed to payload() / new_std_payload_bundle is the one read back."""
    if not is_api(line) or out is None or inv is None:
        return None
    k = _toks(line)[1]
    try:
        if k == "STD":
            f = std_facts(line, out)
            if f is None:
                return None
            b, says_valid, (s, d, data) = f
            if _dont_care(b):
                return None
            if says_valid != valid(b):
                return "validate says %s, the rule list says %s" % (says_valid, valid(b))
            if not (eid_valid(s) and eid_valid(d)):
                return None
            if not says_valid:
                return "new_std_payload_bundle from valid endpoints returns a bundle that does not validate"
            if wf(b):
                why = inv(b)
                if why:
                    return "new_std_payload_bundle: " + why
            if b["cs"][-1]["data"] != ("DATA", data) or (b["p"]["dst"], b["p"]["src"]) != (d, s):
                return "new_std_payload_bundle: payload or endpoints are not the ones given"
            return None
        if k == "BB":
            f = bb_facts(line, out)
            if f is None:
                return None
            b, says_valid, pl, given = f
            if _dont_care(b):
                return None
            if says_valid != valid(b):
                return "validate says %s, the rule list says %s" % (says_valid, valid(b))
            if says_valid and wf(b):
                why = inv(b)
                if why:
                    return "BundleBuilder returned a valid bundle that violates the invariant: " + why
                if pl is not None and not given and b["cs"][-1]["data"] != ("DATA", pl):
                    return "BundleBuilder: the payload read back is not the one handed to payload()"
            return None
    except (AssertionError, IndexError, ValueError, TypeError, KeyError):
        return "unreadable answer of the construction API: %s" % out[:80]
    return None


def observed_difference(line, out):
    """for the evidence: does a non-strict line differ from the reading of the documentation?"""
    try:
        exp = expected(line)
    except (AssertionError, IndexError, ValueError, TypeError):
        return False
    return exp is not None and (out is None or _norm(out) != exp)


def same(line, io, mo):
    """model / implementation differences on observation lines are not alarms"""
    return is_api(line)


def is_api(line):
    toks = line.split()
    if toks and toks[0] in ("D", "R"):
        toks = toks[1:]
    return bool(toks) and toks[0] == "API"
