"""C01 — CBOR round trip (K-enc + K-dec through the composite RT command)."""
import genb
from vlib import xhex
from props.codec_common import *

THEOREMS = ["C01_serde_route", "C01_serde_route_filled", "C01_roundtrip", "C01_deterministic_idempotent", "C01_decode_encode"]
REPEAT = 2            # case lines repeated 66 000 times on one thread (state that builds up over many calls)
REPEAT_CMDS = ('RT',)
RELEASE = True          # debug and release builds of the harness (debug_assert!, overflow checks, cfg(debug_assertions))
RULE = ("SERDE <bundle>: to_cbor, then serde_cbor::to_vec(&bundle) (the crate's second public encoding route, a definite-length outer array): bytes "
        "against the model and the Python reference, and what the decoder makes of them; every RT line additionally asks try_from(Vec<u8>), "
        "serde_cbor::from_slice and from_reader and fails on any disagreement (ALTDIFF). RT <bundle>: the implementation encodes, decodes its own output and encodes again; bundles drawn over the C01 domain "
        "(0-40 extension blocks plus 22/23/24/25/300-block cases, every CRC type and prior CRC state per block, dtn/ipn/none "
        "EIDs with multi-byte names, boundary-biased u64 fields, fragments, unknown block types, empty payloads); non-trivial = "
        "distinct line whose bundle has at least one extension block or a CRC")
TRUSTED_BASE = CODEC_TRUSTED
ASSUMPTIONS = ["well-formed bundles: Duration lifetimes are whole milliseconds below 2^64 (the encoder truncates as_millis() to u64)"]


def _line(b):
    return "RT " + genb.show_bundle(b)


def corpus():
    # + sizes the model cannot evaluate (65536+ array elements, blocks beyond 64 KiB): implementation against the reference encoder
    return [_line(b) for b in boundary_bundles()] + genb.BIG_CASES + [_serde(b) for b in boundary_bundles()]


def _serde(b):
    return "SERDE " + genb.show_bundle(b)


def cases(rng, tier):
    out = [_line(b) for b in bundle_cases(rng, 1500 if tier == "quick" else 150000)] + pair_lines(rng, 300 if tier == "quick" else 30000, _line)
    # the second public encoding route (serde's Serialize for Bundle: definite-length outer array), bytes and decoding
    out += [_serde(b) for b in bundle_cases(rng, 400 if tier == "quick" else 40000)]
    return out


def oracle(line, out, mode):
    if line.startswith("RTBIG "):
        return genb.judge_rtbig(line, out)
    if line.startswith("SERDE "):
        if not out.startswith("OK x"):
            return "serde's Serialize for Bundle does not complete: %s" % out[:40]
        b = genb.parse_bundle_line(line[6:])
        ref, nb = genb.ref_bundle(b)
        want = genb.head(4, 1 + len(b["cs"])) + bytes(ref[1:-1])         # definite-length head, the same blocks, no break
        parts = split_out(out[3:], "DECODED")
        if len(parts) != 2 or parts[0] != [xhex(want)]:
            return "serde_cbor::to_vec(&bundle) is not the definite-length array of the bundle's blocks"
        if parts[1][0] != "OK":
            return "the library cannot decode what its own Serialize impl emits"
        if genb.parse_bundle(genb.T(parts[1][1:])) != nb:
            return "decoded bundle differs from the serialized one"
        return None
    if out.startswith("ALTDIFF "):
        return ("the public routes for one step disagree: %s gives another result than Bundle::try_from(&[u8]) / to_cbor on the "
                "same bundle" % out[8:])
    if not out.startswith("OK "):
        return "encode/decode does not complete: %s" % out[:40]
    b = genb.parse_bundle_line(line[3:])
    parts = split_out(out[3:], "DECODED", "AGAIN")
    if len(parts) != 3:
        return "malformed output"
    enc_part, dec_part, again = parts
    bytes1 = enc_part[0]
    b1 = genb.parse_bundle(genb.T(enc_part[1:]))
    if not same_content(b, b1):
        return "encoding changed something other than stored CRC values"
    if not crcs_filled(b1):
        return "CRC values not filled in after encoding"
    if dec_part[0] != "OK":
        return "the library cannot decode its own encoding"
    d = genb.parse_bundle(genb.T(dec_part[1:]))
    if d != b1:
        return "decoded bundle differs from the encoded one"
    if again != [bytes1]:
        return "encoding the same bundle twice gives different bytes"
    return None


def same(line, io, mo):
    return line.startswith("RTBIG ")     # implementation only (the model prints NA); judged by the oracle against the reference encoder


def classify(line, out):
    n = line.count(" C ")
    return "blocks:%s:%s" % ("0" if n == 1 else "1-4" if n <= 5 else "5-22" if n <= 23 else ">=23", (out or "")[:2])


def nontrivial(line, out):
    return line.count(" C ") > 1 or " E16 " in line or " E32 " in line or " V16 " in line or " V32 " in line


def search_cases(rng, tier, breaks):
    return [_line(b) for b in bundle_cases(rng, 3000)]


def shrink(v, run):
    """drop blocks while the failure persists"""
    if not v["case_line"].startswith("RT "):
        return v
    b = genb.parse_bundle_line(v["case_line"][3:])
    changed = True
    while changed and len(b["cs"]) > 1:
        changed = False
        for i in range(len(b["cs"]) - 1):
            nb = dict(p=b["p"], cs=b["cs"][:i] + b["cs"][i + 1:])
            l = _line(nb)
            o = run([l])[0]
            if oracle(l, o, v["mode"]):
                b, changed = nb, True
                v = dict(v, case_line=l, implementation=o, why=oracle(l, o, v["mode"]))
                break
        if len(b["cs"]) > 30:   # large step first
            nb = dict(p=b["p"], cs=b["cs"][len(b["cs"]) // 4:])
            l = _line(nb)
            o = run([l])[0]
            if oracle(l, o, v["mode"]):
                b, changed = nb, True
                v = dict(v, case_line=l, implementation=o, why=oracle(l, o, v["mode"]))
    return v
