"""C02 — byte-exact RFC 9171 wire format.  SPEC <bundle>: the model side prints the Coq specification encoder
(Spec/Rfc9171.v), the implementation side prints Bundle::to_cbor; the oracle is the independent Python reference."""
import genb
from vlib import xhex
from props.codec_common import *

THEOREMS = ["C02_wire_format"]
REPEAT = 2            # case lines repeated 66 000 times on one thread (state that builds up over many calls)
REPEAT_CMDS = ('SPEC',)
RELEASE = True          # debug and release builds of the harness (debug_assert!, overflow checks, cfg(debug_assertions))
RULE = ("SPEC <bundle> over the C01 domain (see C01); implementation bytes are compared with (a) the extracted Coq specification "
        "encoder rfc_bytes and (b) the Python reference encoder; non-trivial = distinct line with an extension block or a CRC")
TRUSTED_BASE = CODEC_TRUSTED
ASSUMPTIONS = ["the Coq specification encoder is pinned to the RFC 9173 A.1 primary/payload vectors and the crate's golden bundle (Spec/Vectors.v)"]


def _line(b):
    return "SPEC " + genb.show_bundle(b)


def corpus():
    # + sizes the model cannot evaluate (65536+ array elements, blocks beyond 64 KiB): implementation against the reference encoder
    out = [_line(b) for b in boundary_bundles()] + genb.BIG_CASES
    # blocks of a million bytes and more, in every position and with every block number (a fast path for large payloads must write the
    # block's own fields): implementation only, against the reference encoder
    import vlib
    rng = vlib.Rng(202)
    for n, num, ty in ((1000000, 2, 1), (1000001, 1, 1), (1048577, 7, 1), (1000000, 3, 192), (2 * 1048576 + 5, 1, 1)):
        b = genb.rnd_bundle(rng, nblocks=1, crc_kind=rng.randrange(3))
        blk = dict(type=ty, num=num, flags=0, crc=b["cs"][-1]["crc"], data=("DATA" if ty == 1 else "UNK", bytes((i * 13 + 1) % 256 for i in range(n))))
        b["cs"] = [blk] + b["cs"] if ty != 1 else b["cs"][:-1] + [blk]
        out.append("SPECX" + _line(b)[4:])
    return out


def cases(rng, tier):
    return [_line(b) for b in bundle_cases(rng, 1500 if tier == "quick" else 150000)] + pair_lines(rng, 300 if tier == "quick" else 30000, _line)


def oracle(line, out, mode):
    if line.startswith("RTBIG "):
        return genb.judge_rtbig(line, out)
    if line.startswith("SPECX "):
        line = "SPEC " + line[6:]
    b = genb.parse_bundle_line(line[5:])
    ref, _ = genb.ref_bundle(b)
    if out != "OK " + xhex(ref):
        return "encoder output differs from the RFC 9171 reference encoding"
    return None


def same(line, io, mo):
    return line.startswith(("RTBIG ", "SPECX "))     # implementation only (the model prints NA); judged by the oracle against the reference encoder


classify = __import__("props.c01", fromlist=["x"]).classify
nontrivial = __import__("props.c01", fromlist=["x"]).nontrivial


def search_cases(rng, tier, breaks):
    return [_line(b) for b in bundle_cases(rng, 3000)]
