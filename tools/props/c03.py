"""C03 — the decoder accepts conformant bundles produced by an independent encoder (Python reference with its own CRCs)."""
import genb
from vlib import xhex
from props.codec_common import *

THEOREMS = ["C03_accepts_conformant"]
REPEAT = 2            # case lines repeated 66 000 times on one thread (state that builds up over many calls)
REPEAT_CMDS = ('DECRT',)
RELEASE = True          # debug and release builds of the harness (debug_assert!, overflow checks, cfg(debug_assertions))
RULE = ("DECRT x<bytes>: bytes from the Python RFC 9171 reference encoder for bundles of the C01 domain (CRCs computed by the "
        "peer); the implementation decodes, CRC-checks and re-encodes; non-trivial = distinct input with an extension block or a CRC")
TRUSTED_BASE = CODEC_TRUSTED
ASSUMPTIONS = []
_EXPECT = {}


def _line(b):
    ref, nb = genb.ref_bundle(b)
    l = "DECRT " + xhex(ref)
    _EXPECT[l] = nb
    return l


def corpus():
    return [_line(b) for b in boundary_bundles()]


def cases(rng, tier):
    return [_line(b) for b in bundle_cases(rng, 1500 if tier == "quick" else 150000)] + pair_lines(rng, 300 if tier == "quick" else 30000, _line)


def oracle(line, out, mode):
    nb = _EXPECT.get(line)
    if not out.startswith("OK "):
        return "conformant bundle not accepted: %s" % out[:30]
    parts = split_out(out[3:], "V", "RE")
    if len(parts) != 3:
        return "malformed output"
    if nb is not None and genb.parse_bundle(genb.T(parts[0])) != nb:
        return "decoded fields differ from what was put on the wire"
    if parts[1] != ["T"]:
        return "conformant bundle fails the CRC check"
    if parts[2] != [line.split(" ")[1]]:
        return "re-encoding differs from the bytes received"
    return None


def same(line, io, mo):
    return False


def classify(line, out):
    return "len:%d0:%s" % (len(line) // 200, (out or "")[:2])


def nontrivial(line, out):
    return len(line) > 140


def search_cases(rng, tier, breaks):
    return [_line(b) for b in bundle_cases(rng, 3000)]
