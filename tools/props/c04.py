"""C04 — emitted CRCs are CRC-16/X.25 / CRC-32C of the zero-filled block (K-crc + K-enc)."""
import genb
from vlib import xhex, rnd_bytes
from props.codec_common import *

THEOREMS = ["C04_primary", "C04_canonical", "C04_bundle_layout", "C04_fresh_passes", "C04_tie_crc_single_bytes"]
REPEAT = 2            # case lines repeated 66 000 times on one thread (state that builds up over many calls)
REPEAT_CMDS = ('RT', 'RTV')
RELEASE = True          # debug and release builds of the harness (debug_assert!, overflow checks, cfg(debug_assertions))
RULE = ("CRC16/CRC32 on raw strings (lengths 0-300; random, all-zero, all-ones) against the crc-crate instances bp7 exports; RT "
        "<bundle> with every prior CRC state per block (absent, empty placeholder, stale value of either width): the CRC bytes on "
        "the wire are recomputed by the Python reference over the zero-filled block; RTV <bundle>: the library's own crc_valid on the bundle just "
        "encoded and on its decoded wire image must be true (incl. searched witnesses whose correct CRC-16 is exactly 0x0000); non-trivial = distinct line (raw string of "
        "length >= 1, or bundle with at least one CRC-carrying block)")
TRUSTED_BASE = CODEC_TRUSTED
ASSUMPTIONS = []


def corpus():
    out = ["CRC16 x313233343536373839", "CRC32 x313233343536373839", "CRC16 x", "CRC32 x"]
    out += ["RT " + genb.show_bundle(b) for b in boundary_bundles()[:12]]
    # blocks whose correct CRC-16 is exactly 0x0000: the emitted value must still be the RFC's and the library's own check must pass
    for b in genb.zero_crc_bundles():
        out.append("RT " + genb.show_bundle(b))
        out.append("RTV " + genb.show_bundle(b))
    out += ["RTV " + genb.show_bundle(b) for b in boundary_bundles()[:12]]
    out += genb.BIG_CASES[:9]      # blocks beyond 64 KiB, 65536+ array elements: implementation against the reference encoder
    # payload blocks whose OWN encoding is exactly 4096 / 8192 / 16384 / 32768 bytes (and one byte to either side): a checksum fed in
    # pieces must not lose or repeat a piece at a chunk boundary.  block = 5 head bytes + 3-byte string head + payload + CRC field (3 / 5)
    import vlib
    rng = vlib.Rng(404)
    for total in (4096, 8192, 16384, 32768):
        for ck, field in ((1, 3), (2, 5)):
            for d in (-1, 0, 1):
                n = total - 8 - field + d
                b = genb.rnd_bundle(rng, nblocks=0, crc_kind=ck)
                b["cs"][-1]["flags"] = 0
                b["cs"][-1]["data"] = ("DATA", bytes((i * 131 + 7) % 256 for i in range(n)))
                out.append("RT " + genb.show_bundle(b))
    return out


def cases(rng, tier):
    out = []
    n = 2500 if tier == "quick" else 250000
    for _ in range(n):
        d = rnd_bytes(rng, 300)
        out.append(("CRC16 " if rng.random() < 0.5 else "CRC32 ") + xhex(d))
    for _ in range(1200 if tier == "quick" else 100000):
        b = genb.rnd_bundle(rng, nblocks=rng.randrange(0, 6))
        out.append("RT " + genb.show_bundle(b))
        if rng.random() < 0.5:
            out.append("RTV " + genb.show_bundle(genb.reorder(rng, b)))
    # one thread encodes a bundle and then a sibling with the same identity but other primary fields (and the first one again)
    out += pair_lines(rng, 300 if tier == "quick" else 30000, lambda b: "RT " + genb.show_bundle(b))
    out += pair_lines(rng, 150 if tier == "quick" else 15000, lambda b: "RTV " + genb.show_bundle(b))
    return out


def oracle(line, out, mode):
    if line.startswith("RTBIG "):
        return genb.judge_rtbig(line, out)
    tok = line.split(" ")
    if tok[0] == "CRC16":
        want = genb.crc16_x25(bytes.fromhex(tok[1][1:]))
        return None if out == "OK %d" % want else "CRC-16/X.25 mismatch"
    if tok[0] == "CRC32":
        want = genb.crc32c(bytes.fromhex(tok[1][1:]))
        return None if out == "OK %d" % want else "CRC-32C mismatch"
    if tok[0] == "RTV":
        if out != "OK MEM T WIRE OK T":
            return "a freshly encoded bundle does not pass the library's own CRC check (in memory / after decoding): %s" % out[:40]
        return None
    if not out.startswith("OK "):
        return "encoding fails: %s" % out[:30]
    b = genb.parse_bundle_line(line[3:])
    ref, nb = genb.ref_bundle(b)
    parts = split_out(out[3:], "DECODED", "AGAIN")
    if parts[0][0] != xhex(ref):
        return "bytes on the wire differ from reference (CRC over zero-filled block)"
    if genb.parse_bundle(genb.T(parts[0][1:])) != nb:
        return "stored CRC values differ from the CRC of the zero-filled block"
    return None


def same(line, io, mo):
    return line.startswith("RTBIG ")     # implementation only (the model prints NA); judged by the oracle against the reference encoder


def classify(line, out):
    return line.split(" ")[0] + ":" + (out or "")[:2]


def nontrivial(line, out):
    return len(line) > 8 and (not line.startswith("RT") or " E16" in line or " E32" in line or " V16" in line or " V32" in line)


def search_cases(rng, tier, breaks):
    return cases(rng, "quick")
