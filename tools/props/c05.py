"""C05 — the CRC check rejects single-bit and short-burst corruption (K-corrupt channel).

Case line:  REENC x<bytes> x<payload>   decode, set_payload, lifetime := 12345 ms, to_cbor -> OK MEM <T|F> WIRE <T|F|ERR>: must pass twice
            CORR x<bytes> <tag>      tag = <class>/<block>/<len0,len1,..>/<crc0,crc1,..>
  class  U  uncorrupted CRC-protected bundle          N  uncorrupted bundle without any CRC
         B  one flipped bit in block <block>          V  change confined to the CRC value bytes of the block
         W  change confined to a 2 (CRC-16) / 4 (CRC-32C) byte window in front of the CRC value
         S  window straddling content and CRC value (outside the property; counted, never judged)
  len*, crc*: block lengths and CRC type codes of the ORIGINAL bundle (Python reference encoder).
Output:     OK V <T|F> SAME <T|F> LENS <n..> CRCS <c..> | ERR
The tag is ignored by the model and by the harness; it makes every line (and every replay) self-describing."""
import genb
from vlib import xhex
from props.codec_common import CODEC_TRUSTED

THEOREMS = ["C05_reencoded_passes", "C05_no_silent_corruption_partial", "C05_single_bit", "C05_crc_value_change", "C05_any_decoder",
            "C05_crc_value_change_canonical", "C05_content_window_canonical", "C05_single_bit_canonical",
            "C05_crc_value_change_primary", "C05_content_window_primary", "C05_single_bit_primary",
            "C05_full_refuted", "C05_uncorrupted_passes", "C05_no_crc_passes", "C05_all_crcno_passes",
            "C05_crc16_detects_window", "C05_crc32c_detects_window", "C05_valid_block_even_parity"]
REPEAT = 2            # case lines repeated 66 000 times on one thread (state that builds up over many calls)
REPEAT_CMDS = ('CORR',)
RELEASE = True          # debug and release builds of the harness (debug_assert!, overflow checks, cfg(debug_assertions))
RULE = ("CORR x<bytes>: bundles of the C01 domain with CRC-16 or CRC-32C on all blocks (0-3 extension blocks, small payloads, all EID "
        "forms, boundary-biased integers), encoded by the Python reference; per bundle EVERY single-bit flip of every block byte, every "
        "byte-aligned window start inside each block (2-byte windows for CRC-16 blocks: boundary patterns everywhere, all 65 535 "
        "patterns on selected windows around the CRC-type byte; 4-byte windows for CRC-32C blocks: boundary patterns, plus the "
        "patterns that re-type the block) and CRC-value overwrites (zero, ones, +-1, swaps, single bytes, random); alarm = decodes, "
        "re-encodes (stored CRCs) to the received bytes with the original block lengths (window class: and CRC types) and crc_valid "
        "= true; other outcomes are counted by class and not judged; uncorrupted and CRC-less bundles must pass, and so must what to_cbor "
        "emits after a received bundle (with correct or overwritten CRC values) got a new payload and lifetime (REENC); non-trivial = "
        "distinct corrupted line that fails to decode or meets the alarm premise, or an uncorrupted line")
TRUSTED_BASE = CODEC_TRUSTED
ASSUMPTIONS = ["window class: the decoded block keeps its CRC type (without this premise the statement is false for the BPv7 wire "
               "format itself: Coq theorem C05_full_refuted, corpus line 'cross-type'); windows straddling content and CRC value are "
               "outside the property"]
XCHECK = 60

SMALL_EIDS = [("NONE", 1, 0), ("DTN", 1, b"//n/"), ("DTN", 1, b"//node1/in"), ("IPN", 2, 1, 0), ("IPN", 2, 23, 24), ("IPN", 2, 2 ** 32, 255),
              ("DTN", 1, "//ä/€".encode()), ("IPN", 2, 2 ** 64 - 1, 2 ** 64 - 1)]


# ------------------------------------------------------------------ bundles -----------------------------

def _small(rng, b):
    """keep the encoding short: every corruption position of every block is enumerated"""
    p = b["p"]
    for k in ("dst", "src", "rpt"):
        if len(genb.ref_eid(p[k])) > 14:
            p[k] = rng.choice(SMALL_EIDS)
    for c in b["cs"]:
        d = c["data"]
        if d[0] in ("DATA", "UNK") and len(d[1]) > 12:
            n = rng.choice([0, 1, 2, 3, 4, 5, 8, 12])
            body = bytearray(rng.randrange(256) for _ in range(n))
            if n >= 2 and rng.random() < 0.5:       # plant the byte-string heads that enable re-typing
                body[-2] = rng.choice([0x44, 0x42])
            c["data"] = (d[0], bytes(body))
        elif d[0] == "PREV" and len(genb.ref_eid(d[1])) > 14:
            c["data"] = ("PREV", rng.choice(SMALL_EIDS))
    return b


def _bundle(rng, crc_kind, nblocks):
    return _small(rng, genb.rnd_bundle(rng, nblocks=nblocks, crc_kind=crc_kind))


def _mixed(rng, nblocks):
    b = genb.rnd_bundle(rng, nblocks=nblocks, crc_kind=1)
    for blk in [b["p"]] + b["cs"]:
        blk["crc"] = genb.rnd_crc_state(rng, rng.choice([1, 2]))
    return _small(rng, b)


def _meta(b):
    ref, nb = genb.ref_bundle(b)
    spans = genb.block_spans(b)
    lens = [e - s for s, e in spans]
    crcs = [genb.crc_type(x["crc"]) for x in [b["p"]] + b["cs"]]
    return ref, spans, lens, crcs


def _tag(cls, k, lens, crcs):
    return "%s/%d/%s/%s" % (cls, k, ",".join(map(str, lens)), ",".join(map(str, crcs)))


def _line(buf, cls, k, lens, crcs):
    return "CORR %s %s" % (xhex(buf), _tag(cls, k, lens, crcs))


def _classify_change(orig, new, s, e, w):
    """class of a change of block bytes [s, e) whose last w bytes are the CRC value"""
    pos = [i for i in range(s, e) if orig[i] != new[i]]
    if not pos:
        return None
    if all(i >= e - w for i in pos):
        return "V"
    if all(i < e - w for i in pos):
        return "W" if pos[-1] - pos[0] < w else None
    return "S"


def _crc_pos(b, k, s):
    """offset of the CRC-type byte of block k inside the bundle encoding"""
    if k == 0:
        p = b["p"]
        return s + 1 + len(genb.c_uint(p["ver"])) + len(genb.c_uint(p["flags"]))
    c = b["cs"][k - 1]
    return s + 1 + len(genb.c_uint(c["type"])) + len(genb.c_uint(c["num"])) + len(genb.c_uint(c["flags"]))


def _window_patterns(rng, old, w, full):
    """replacement patterns for a window with the bytes `old` (len <= w)"""
    n = len(old)
    pats = set()
    pats.add(bytes(n))
    pats.add(b"\xff" * n)
    pats.add(bytes([old[0] ^ 1]) + old[1:])
    pats.add(old[:-1] + bytes([old[-1] ^ 0x80]))
    pats.add(bytes([old[0] ^ 0x80]) + old[1:-1] + bytes([old[-1] ^ 1]) if n > 1 else bytes([old[0] ^ 0x81]))
    pats.add(old[::-1])
    pats.add(old[1:] + old[:1])
    if full:
        pats.add(bytes([0x44]) + old[1:])
        pats.add(old[:-1] + bytes([0x44]))
        pats.add(bytes([0x42]) + old[1:])
        pats.add(old[:-1] + bytes([0x42]))
        pats.add(bytes(rng.randrange(256) for _ in range(n)))
        pats.add(bytes((x + 1) & 255 for x in old))
        pats.add(bytes((x - 2) & 255 for x in old))
    pats.discard(bytes(old))
    return sorted(pats)


def _retype_patterns(buf, cpos, w):
    """window patterns starting at the CRC-type byte that turn the block into one of the other CRC type:
    other type code, following head byte adjusted by -2 / +2 (the data length absorbs / releases two bytes)"""
    old = buf[cpos:cpos + w]
    out = []
    other = 2 if old[0] == 1 else 1
    for d in (-2, 2, -4, 4, 0):
        if len(old) >= 2:
            out.append(bytes([other, (old[1] + d) & 255]) + old[2:])
    for t in (0, 3, 4, 255):
        out.append(bytes([t]) + old[1:])
    return [p for p in out if p != old]


def _value_patterns(rng, old):
    w = len(old)
    v = int.from_bytes(old, "big")
    pats = {bytes(w), b"\xff" * w, ((v + 1) % (1 << 8 * w)).to_bytes(w, "big"), ((v - 1) % (1 << 8 * w)).to_bytes(w, "big"),
            old[::-1], old[w // 2:] + old[:w // 2], bytes(rng.randrange(256) for _ in range(w)),
            bytes(rng.randrange(256) for _ in range(w)), bytes(x ^ 0xff for x in old)}
    for i in range(w):
        pats.add(old[:i] + bytes([old[i] ^ 0x55]) + old[i + 1:])
        pats.add(old[:i] + bytes([0]) + old[i + 1:])
    pats.discard(bytes(old))
    return sorted(pats)


def _reenc(buf, rng):
    return "REENC %s %s" % (xhex(buf), xhex(bytes(rng.randrange(256) for _ in range(rng.choice([0, 1, 3, 9])))))


def corruptions(rng, b, full=False, exhaustive_windows=0):
    """all case lines of one CRC-protected bundle"""
    ref, spans, lens, crcs = _meta(b)
    out = [_line(ref, "U", 0, lens, crcs)]
    # received, changed and sent on: the CRC values the blocks arrived with (correct ones, or overwritten ones) are stale afterwards
    out.append(_reenc(ref, rng))
    for k, (s, e) in enumerate(spans):
        nb = bytearray(ref)
        nb[e - 1] ^= 0x5a
        out.append(_reenc(nb, rng))
    for k, (s, e) in enumerate(spans):
        w = 2 if crcs[k] == 1 else 4
        # every single-bit flip of every byte of the block
        for i in range(s, e):
            for bit in range(8):
                nb = bytearray(ref)
                nb[i] ^= 1 << bit
                out.append(_line(nb, "B", k, lens, crcs))
        # every byte-aligned window start inside the block
        cpos = _crc_pos(b, k, s)
        for i in range(s, e - 1):
            old = bytes(ref[i:min(i + w, e)])
            pats = _window_patterns(rng, old, w, full or i in (cpos - 1, cpos, cpos + 1, e - w - 2, e - w - 1))
            if i == cpos:
                pats = sorted(set(pats) | set(_retype_patterns(ref, cpos, len(old))))
            for pat in pats:
                nb = bytearray(ref)
                nb[i:i + len(old)] = pat
                cls = _classify_change(ref, nb, s, e, w)
                if cls:
                    out.append(_line(nb, cls, k, lens, crcs))
        # CRC value overwrites
        for pat in _value_patterns(rng, bytes(ref[e - w:e])):
            nb = bytearray(ref)
            nb[e - w:e] = pat
            out.append(_line(nb, "V", k, lens, crcs))
    # the receiver has just checked the GOOD copy (same thread), then sees the corrupted one: a verdict remembered by anything weaker
    # than the block's content (length, a prefix, an additive or polynomial fingerprint h*m + byte) would be replayed.  Windows whose
    # two bytes change by (+d, -m*d) keep every fingerprint of that family; plus a sample of the corruptions above.
    good = out[0]
    memo = []
    for k, (s, e) in enumerate(spans):
        w = 2 if crcs[k] == 1 else 4
        for i in rng.sample(range(s + 1, e - w - 1), min(6, max(0, e - w - 2 - s))) if e - w - 2 > s else []:
            a, b2 = ref[i], ref[i + 1]
            for m in (1, 31, 33, 37, 131, 255, 256, 257):
                for d in (1, -1, 2):
                    na, nb2 = a + d, b2 - (m % 256) * d if m != 256 else b2
                    if 0 <= na < 256 and 0 <= nb2 < 256 and (na, nb2) != (a, b2):
                        x = bytearray(ref)
                        x[i], x[i + 1] = na, nb2
                        cls = _classify_change(ref, x, s, e, w)
                        if cls:
                            memo.append(_line(x, cls, k, lens, crcs))
    sample = rng.sample(out[1:], min(40, len(out) - 1)) if len(out) > 1 else []
    for l in memo + sample:
        out.append("PAIR %s || %s" % (good, l))
    # all 65 535 replacement patterns of selected 2-byte windows (CRC-16 blocks): the CRC-type byte with its neighbours
    done = 0
    for k, (s, e) in reversed(list(enumerate(spans))):
        if done >= exhaustive_windows or crcs[k] != 1:
            continue
        cpos = _crc_pos(b, k, s)
        old = bytes(ref[cpos:cpos + 2])
        for v in range(65536):
            pat = v.to_bytes(2, "big")
            if pat == old:
                continue
            nb = bytearray(ref)
            nb[cpos:cpos + 2] = pat
            out.append(_line(nb, "W", k, lens, crcs))
        done += 1
    return out


# the bundle of Proofs/CorruptionProofs.v (w_b0): CRC-16 primary + CRC-16 payload block of 12 bytes
W_B0 = dict(p=dict(ver=7, flags=0, crc=("E16",), dst=("IPN", 2, 1, 1), src=("IPN", 2, 1, 1), rpt=("IPN", 2, 1, 1), t=0, seq=0, life=3600000,
                   foff=0, flen=0),
            cs=[dict(type=1, num=1, flags=0, crc=("E16",), data=("DATA", bytes.fromhex("0036557d000000000000446d")))])


def corpus():
    import vlib
    rng = vlib.Rng(50505)
    ref, spans, lens, crcs = _meta(W_B0)
    out = [_line(ref, "U", 0, lens, crcs)]
    # cross-type: the two-byte window 01 4c -> 02 4a turns the CRC-16 payload block into a VALID CRC-32C block (C05_full_refuted);
    # accepted by every conformant BPv7 decoder, outside the judged domain because the CRC type changed
    s, e = spans[1]
    nb = bytearray(ref)
    assert nb[s + 4:s + 6] == b"\x01\x4c"
    nb[s + 4:s + 6] = b"\x02\x4a"
    out.append(_line(nb, "W", 1, lens, crcs))
    out += corruptions(rng, W_B0, full=True)
    for _ in range(3):
        b = _small(rng, genb.rnd_bundle(rng, nblocks=rng.randrange(0, 4), crc_kind=0))
        ref, spans, lens, crcs = _meta(b)
        out.append(_line(ref, "N", 0, lens, crcs))
    # a block of type 11 whose data reads as an RFC 9172 security block header naming the other blocks as its targets: the CRC of those
    # blocks is checked like any other (pinned: seeded change C05-m13 was caught by a random draw only)
    for ck, asb in ((1, "81010100820100"), (2, "8201030100820100"), (1, "810101008202820101")):
        pb = dict(p=dict(W_B0["p"], crc=("E16",) if ck == 1 else ("E32",)),
                  cs=[dict(type=11, num=2, flags=0, crc=("E16",) if ck == 1 else ("E32",), data=("UNK", bytes.fromhex(asb))),
                      dict(type=10, num=3, flags=0, crc=("E16",) if ck == 1 else ("E32",), data=("HOP", 32, 1)),
                      dict(type=1, num=1, flags=0, crc=("E16",) if ck == 1 else ("E32",), data=("DATA", b"\x01\x02\x03"))])
        out += corruptions(rng, pb)
    # re-framing (second mechanism behind C05_full_refuted, found by the audit of D-27): a window over the ARRAY HEAD of a block (86 01 -> 85 1a,
    # 86 0a 02 -> 85 00 1a) makes the decoder read the following items in other positions; the old hop count / a payload byte lands in the
    # CRC-type position as 0, the block decodes as one WITHOUT CRC, same length, re-encodes to the received bytes and passes trivially
    wb = dict(p=dict(W_B0["p"]), cs=[dict(type=10, num=2, flags=0, crc=("E16",), data=("HOP", 32, 0)),
                                     dict(type=1, num=1, flags=0, crc=("E16",), data=("DATA", bytes.fromhex("00000043")))])
    ref, spans, lens, crcs = _meta(wb)
    nb = bytearray(ref)
    assert nb[spans[2][0]:spans[2][0] + 2] == b"\x86\x01"
    nb[spans[2][0]:spans[2][0] + 2] = b"\x85\x1a"
    out.append(_line(nb, "W", 2, lens, crcs))
    wb = dict(p=dict(W_B0["p"], crc=("E32",)), cs=[dict(type=10, num=2, flags=0, crc=("E32",), data=("HOP", 32, 0)),
                                                  dict(type=1, num=1, flags=0, crc=("E32",), data=("DATA", b"ABC"))])
    ref, spans, lens, crcs = _meta(wb)
    nb = bytearray(ref)
    assert nb[spans[1][0]:spans[1][0] + 3] == b"\x86\x0a\x02"
    nb[spans[1][0]:spans[1][0] + 3] = b"\x85\x00\x1a"
    out.append(_line(nb, "W", 1, lens, crcs))
    # uncorrupted bundles in which the correct CRC of a block is exactly zero (1 block in 65536 / 2^32: the value coincides with the
    # all-zero placeholder of a CRC that was never calculated): they must pass like any other uncorrupted bundle
    seen = set()
    for b in genb.zero_crc_bundles():
        ref, spans, lens, crcs = _meta(b)
        if bytes(ref) not in seen:
            seen.add(bytes(ref))
            out.append(_line(ref, "U", 0, lens, crcs))
    return out


def cases(rng, tier):
    out = []
    nb = 34 if tier == "quick" else 2000
    for i in range(nb):
        kind = (1, 2, "mix")[i % 3]
        n = rng.randrange(0, 4)
        b = _mixed(rng, n) if kind == "mix" else _bundle(rng, kind, n)
        ex = 0
        if tier == "thorough" and i % 250 == 0:
            ex = 1
        out += corruptions(rng, b, full=(tier == "thorough" and i % 10 == 0), exhaustive_windows=ex)
    if tier == "quick":      # one exhaustive 2-byte window (CRC-type byte + data-length head of a CRC-16 payload block)
        b = _bundle(rng, 1, 0)
        b["cs"][-1]["data"] = ("DATA", bytes([rng.randrange(256), 0x44, rng.randrange(256), 0x44, rng.randrange(256)]))
        ref, spans, lens, crcs = _meta(b)
        s, e = spans[-1]
        cpos = _crc_pos(b, len(spans) - 1, s)
        out.append(_line(ref, "U", 0, lens, crcs))
        old = bytes(ref[cpos:cpos + 2])
        for v in range(0, 65536):
            pat = v.to_bytes(2, "big")
            if pat != old:
                x = bytearray(ref)
                x[cpos:cpos + 2] = pat
                out.append(_line(x, "W", len(spans) - 1, lens, crcs))
    for _ in range(6 if tier == "quick" else 300):
        b = _small(rng, genb.rnd_bundle(rng, nblocks=rng.randrange(0, 4), crc_kind=0))
        ref, spans, lens, crcs = _meta(b)
        out.append(_line(ref, "N", 0, lens, crcs))
    return out


# ------------------------------------------------------------------ oracle ---------------------------------

def _parse_tag(line):
    toks = line.split(" ")
    if len(toks) != 3 or toks[0] != "CORR":
        return None
    f = toks[2].split("/")
    if len(f) != 4:
        return None
    return f[0], int(f[1]), [int(x) for x in f[2].split(",")], [int(x) for x in f[3].split(",")]


def _parse_out(out):
    """(V, SAME, lens, crcs) of an OK line"""
    t = out.split(" ")
    try:
        assert t[0] == "OK" and t[1] == "V" and t[3] == "SAME" and t[5] == "LENS"
        i = t.index("CRCS")
        return t[2] == "T", t[4] == "T", [int(x) for x in t[6:i]], [int(x) for x in t[i + 1:]]
    except (AssertionError, ValueError, IndexError):
        return None


def _verdict(line, out):
    """(judged?, class key, violation text or None)"""
    if line.startswith("REENC "):
        if out in ("PANIC", "ABORT", "CRASH") or out is None:
            return True, "reenc:PANIC", "the receive path panics"
        if out == "ERR":
            return True, "reenc:ERR", None
        if out != "OK MEM T WIRE T":
            return True, "reenc:" + out[:20], ("a bundle the library itself has just encoded (received, payload replaced, sent on) does not pass "
                                               "the CRC check: %s" % out[:40])
        return True, "reenc:passes", None
    tag = _parse_tag(line)
    if tag is None:
        return False, "untagged", None
    cls, k, lens, crcs = tag
    name = {"U": "uncorrupted", "N": "no-crc", "B": "bit", "V": "crc-value", "W": "window", "S": "straddle"}.get(cls, cls)
    if out in ("PANIC", "ABORT", "CRASH") or out is None:
        return True, name + ":PANIC", "the receive path panics on corrupted input"
    if out.startswith("OK V U "):
        return True, name + ":UNSTABLE", ("the CRC check is not a check: asked three times about the same decoded bundle it changes its answer "
                                          "or changes the bundle (a corrupted block must stay rejected, and stay as received)")
    if cls in ("U", "N"):
        r = _parse_out(out) if out.startswith("OK ") else None
        if r is None:
            return True, name + ":" + out[:8], "an uncorrupted bundle does not decode"
        if not r[0]:
            return True, name + ":V=F", ("an uncorrupted bundle fails the CRC check" if cls == "U" else "a bundle without CRC fails the CRC check")
        if not r[1] or r[2] != lens or r[3] != crcs:
            return True, name + ":not-same", "an uncorrupted bundle does not re-encode to itself block by block"
        return True, name + ":passes", None
    if out == "ERR":
        return True, name + ":ERR", None
    r = _parse_out(out) if out.startswith("OK ") else None
    if r is None:
        return True, name + ":malformed", "malformed output line %r" % out[:40]
    valid, same, olens, ocrcs = r
    if cls == "S":
        return False, "not-judged:straddling-window" + (":accepted" if valid else ""), None
    if not same:
        return False, "not-judged:%s:SAME=F" % name, None
    if olens != lens:
        return False, "not-judged:%s:block-lengths-changed" % name, None
    if cls == "W" and ocrcs != crcs:
        if valid:
            # the literal property is violated here (C05_full_refuted): recorded as known findings of the BPv7 wire format, two mechanisms
            if len(ocrcs) == len(crcs) and ocrcs[k] in (1, 2):
                return True, "window:crc-type-reinterpreted:ACCEPTED", \
                    "corruption accepted: a window over the CRC-type byte re-reads block %d under the other CRC algorithm and it passes crc_valid" % k
            return True, "window:crc-type-removed:ACCEPTED", \
                ("corruption accepted: a window over the array head re-frames block %d so that another item lands in the CRC-type position; "
                 "the decoded block has no CRC (type 0 or unknown) and passes crc_valid trivially" % k)
        return False, "not-judged:window:crc-type-changed", None
    if valid:
        return True, name + ":ACCEPTED", "corruption accepted: a %s corruption of block %d decodes to a different bundle that re-encodes to " \
                                         "the received bytes and passes crc_valid" % (name, k)
    return True, name + ":detected", None


def oracle(line, out, mode):
    return _verdict(line, out)[2]


def known_class(line, out):
    v = _verdict(line, out)
    return {"window:crc-type-reinterpreted:ACCEPTED": "crc-type-reinterpretation",
            "window:crc-type-removed:ACCEPTED": "crc-type-removed-by-reframing"}.get(v[1])


def same(line, io, mo):
    return False


def classify(line, out):
    return _verdict(line, out or "CRASH")[1]


def nontrivial(line, out):
    return _verdict(line, out or "CRASH")[0]


def search_cases(rng, tier, breaks):
    return cases(rng, "quick")
