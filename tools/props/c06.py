"""C06 — no input from the network can panic or exhaust the receive path (K-dec + K-rx, debug and release)."""
import itertools
import genb
from vlib import xhex, rnd_u64, U64
from props.codec_common import CODEC_TRUSTED

THEOREMS = ["C06_admin_record_total", "C06_decode_total", "C06_receive_path_total", "C06_depth_bounded", "C06_length_claims_checked", "C06_decoded_shape"]
REPEAT = 2            # case lines repeated 66 000 times on one thread (state that builds up over many calls)
REPEAT_CMDS = ('DEC',)
RELEASE = True
OFFSET = 946684800000
RULE = ("DEC on every byte string of length <= 2 (exhaustive) and a seeded sample of length 3 (thorough: all 16.8M of length <= 3); OPS "
        "<clock> X x<bytes> ; Q ; UPD .. ; ADD .. ; Q (the receive path: validate, crc_valid, payload, previous node, admin flag, lifetime "
        "check, timestamp display, forwarding update with boundary residence times, add block, re-encode) on structure-aware mutations of "
        "conformant bundles (dictionary item substitution, truncation, duplication, deletion, type confusion, length tampering, bit flips, "
        "splices, deep tag nesting) and on targeted boundary bundles (CRC type >= 3, hop count 255, age 2^64-1, block number 2^64-1, "
        "times near 2^64); debug and release builds; non-trivial = distinct input that decodes, or distinct short string")
TRUSTED_BASE = CODEC_TRUSTED + ["allocation volume is MEASURED (DECA: peak bytes under a counting allocator, bound 64 x input + 2 MiB), not proved; "
                                "stack bytes per frame are runtime behaviour, not modelled"]
ASSUMPTIONS = ["clock not before 2000-01-01 for the operations that read it"]

NODE = "DTN 1 x2f2f686572652f"
ADDS = ["C 10 0 0 N HOP 32 0", "C 192 0 1 N UNK x0102", "C 7 0 0 E16 AGE 5", "C 1 0 0 N DATA x41"]


def _rx(rng, buf, clock=None):
    clock = clock if clock is not None else rng.choice([OFFSET, OFFSET + 1000, 1790000000000, U64 - 1])
    res = rng.choice([0, 1, 1000, 2 ** 32, 2 ** 63, U64 - 1, U64, 2 ** 128 - 1])
    return "OPS %d X %s ; Q ; UPD %s %d ; ADD %s ; Q" % (clock, xhex(buf), NODE, res, rng.choice(ADDS))


def _targeted(rng):
    out = []
    for crcp, crcc in [(3, 0), (0, 3), (255, 255), (4, 1), (2, 200)]:
        b = genb.rnd_bundle(rng, nblocks=2, crc_kind=0)
        b["p"]["crc"] = ("U", crcp) if crcp > 2 else ("N",)
        for c in b["cs"]:
            c["crc"] = ("U", crcc) if crcc > 2 else ("N",)
        out.append(genb.ref_bundle(b)[0])
    for hop in [(255, 255), (0, 255), (255, 254)]:
        b = genb.rnd_bundle(rng, nblocks=0, crc_kind=0)
        b["cs"].insert(0, dict(type=10, num=2, flags=0, crc=("N",), data=("HOP", hop[0], hop[1])))
        out.append(genb.ref_bundle(b)[0])
    for age, life, t in [(U64 - 1, U64 - 1, 5), (U64 - 1, 0, 0), (5, U64 - 1, U64 - 1), (0, 1, U64 - 2)]:
        b = genb.rnd_bundle(rng, nblocks=0, crc_kind=0)
        b["p"].update(life=life, t=t)
        b["cs"].insert(0, dict(type=7, num=2, flags=0, crc=("N",), data=("AGE", age)))
        out.append(genb.ref_bundle(b)[0])
    for num in [U64 - 1, U64 - 2, 0]:
        b = genb.rnd_bundle(rng, nblocks=0, crc_kind=0)
        b["cs"].insert(0, dict(type=192, num=num, flags=0, crc=("N",), data=("UNK", b"")))
        out.append(genb.ref_bundle(b)[0])
    # extension-block data of a known type that is a LONG non-ASCII text string instead of the expected item (the error message a decoder
    # builds from it must not be cut in the middle of a character): every alignment of 2- and 3-byte characters
    for ty in (6, 7, 10):
        for shift in range(4):
            for ch, n in (("é", 70), ("€", 50), ("é", 130)):
                txt = (b"a" * shift) + ch.encode() * n
                data = genb.head(3, len(txt)) + txt
                b = genb.rnd_bundle(rng, nblocks=0, crc_kind=0)
                b["cs"].insert(0, dict(type=ty, num=2, flags=0, crc=("N",), data=("UNK", data)))
                out.append(genb.ref_bundle(b)[0])
    for ssp in [b"abc", b"/", b"//", b"//x", b"a/b/c", "é".encode(), b"///"]:
        b = genb.rnd_bundle(rng, nblocks=1, crc_kind=0)
        b["p"]["src"] = ("DTN", 1, ssp)
        b["p"]["dst"] = ("DTN", 1, ssp)
        out.append(genb.ref_bundle(b)[0])
    return out


def _definite_outer(buf, nblocks):
    """the documented leniency 'definite-length outer array', with honest and dishonest element counts"""
    body = buf[1:-1]
    return [genb.head(4, n) + body for n in (nblocks, nblocks + 1, max(0, nblocks - 1), 23, 24, 2 ** 16, 2 ** 20, 2 ** 32, 2 ** 63, U64 - 1)]


ADM_FIXED = ["8201848181f500820100820000", "82018481 9ff5ff 00 820100 820000", "82019f 819ff5ff 00 820100 820000 ff", "9f01848181f500820100820000ff",
             "82018481 9ff51903e8ff 00 820100 820000", "82018481 9ff5ff 00 820100 9f0000ff", "8201 8681f4 00 820100 820000 0507", "82018481 9fff 00 820100 820000",
             "820240", "82025f4101ff", "8218ff9f0102ff", "82019f9f9ff5ffffff", "8201", "81", "", "f6", "820184 9f81f581f4ff 00 8201621234 820000"]


def _admin_cases(rng, n):
    from props import c12
    out = []
    bodies = [bytes.fromhex(h.replace(" ", "")) for h in ADM_FIXED]
    for _ in range(n):
        body = c12.ref_record(c12.rnd_record(rng))
        r = rng.random()
        if r < 0.5:
            for _ in range(rng.choice([1, 1, 2])):
                body = genb.mutate(rng, body)
        elif r < 0.7 and len(body) > 3:
            body = body[:rng.randrange(1, len(body))]
        bodies.append(body)
    for body in bodies:
        b = genb.rnd_bundle(rng, nblocks=rng.choice([0, 0, 1]), crc_kind=rng.randrange(3), fragment=False)
        b["p"]["flags"] = (b["p"]["flags"] | 0x2) & ~0x5c000 & 0xFFFFFFFFFFFFFFFF
        b["cs"][-1]["data"] = ("DATA", body)
        out.append(_rx(rng, genb.ref_bundle(b)[0], OFFSET + 5000))
    return out


def corpus():
    import vlib
    rng = vlib.Rng(606)
    out = []
    for nb in (0, 1, 3):
        b = genb.rnd_bundle(rng, nblocks=nb, crc_kind=rng.randrange(3))
        for buf in _definite_outer(genb.ref_bundle(b)[0], nb + 2):
            out.append("DEC " + xhex(buf))
            out.append("DECA " + xhex(buf))
            out.append(_rx(rng, buf, OFFSET + 5000))
    for buf in _targeted(rng):
        out.append("DEC " + xhex(buf))
        for clock in (OFFSET + 5000, U64 - 1):
            out.append(_rx(rng, buf, clock))
    # administrative-record bundles: the receiver decodes the payload as a record (Q prints REC OK / ERR): valid records, records with
    # indefinite-length arrays at every level (no size hint for the visitors), truncated and mutated records
    out += _admin_cases(rng, 40)
    # wire CRC-16 of exactly 0x0000 (correct!): must be decoded as a value, not as the never-calculated placeholder
    for b in genb.zero_crc_bundles()[:14]:
        out.append("DEC " + xhex(genb.ref_bundle(b)[0]))
    # deep nesting: tags / arrays around the whole bundle and inside it
    base = genb.ref_bundle(genb.rnd_bundle(rng, nblocks=1, crc_kind=1))[0]
    for k in (120, 126, 127, 128, 129, 200, 5000):
        out.append("DEC " + xhex(b"\xc1" * k + base))
        out.append("DEC " + xhex(b"\x81" * k + b"\x00"))
        out.append("DEC " + xhex(b"\x9f" * k))
        out.append("DEC " + xhex(base[:2] + b"\xd8\x18" * k + base[2:]))
    # indefinite-length primary arrays (no size hint): fragment fields by flag + CRC type
    out += ["DEC x9f9f07010082010082010082010082000000ff85010100004101ff", "DEC x9f9f070100820100820100820100820000000405ff85010100004101ff",
            "DEC x9f9f07010182010082010082010082000000040542abcdff85010100004101ff", "DEC x9f9f0700018201008201008201008200000042abcdff85010100004101ff",
            "DEC x9f9f070000820100820100820100820000000405ff85010100004101ff"]
    out += ["DEC x", "DEC x9f", "DEC x9fff", "DEC x9b" + "ff" * 8, "DEC x5b" + "ff" * 8 + "00", "DEC x7b" + "ff" * 8, "DEC x9f9b" + "ff" * 8]
    return out


def cases(rng, tier):
    out = []
    for n in (1, 2):
        for t in itertools.product(range(256), repeat=n):
            out.append("DEC " + xhex(bytes(t)))
    n3 = 40000 if tier == "quick" else 0
    for _ in range(n3):
        out.append("DEC " + xhex(bytes(rng.randrange(256) for _ in range(3))))
    if tier == "thorough":
        for a in range(256):
            for b in range(256):
                for c in range(0, 256):
                    out.append("DEC " + xhex(bytes([a, b, c])))
    nm = 12000 if tier == "quick" else 1500000
    seeds = [genb.ref_bundle(genb.reorder(rng, genb.rnd_bundle(rng, nblocks=rng.randrange(0, 5)), free=True))[0] for _ in range(400)]
    seeds += [genb.ref_bundle(b)[0] for b in genb.zero_crc_bundles()]
    seeds += _targeted(rng)
    # every seed also goes through the receive path UNMUTATED, and so do conformant bundles with many blocks (sizes around every
    # small fixed-size buffer or bit set a receiver might use: 8, 16, 17, 23, 24, 32, 33, 64, 65, 128, 129, 255, 256, 300)
    big = [genb.ref_bundle(genb.reorder(rng, genb.rnd_bundle(rng, nblocks=n, crc_kind=rng.randrange(3))))[0]
           for n in (7, 8, 9, 15, 16, 17, 22, 23, 24, 31, 32, 33, 63, 64, 65, 127, 128, 129, 255, 256, 300)]
    for buf in seeds + big:
        out.append(_rx(rng, buf))
    # history: a bundle with very many blocks, then small bundles decoded by the same thread - what the decoder allocates for an input
    # must be in proportion to THAT input, not to something remembered from the previous one
    small = genb.ref_bundle(genb.rnd_bundle(rng, nblocks=1, crc_kind=0))[0]
    huge = genb.rnd_bundle(rng, nblocks=0, crc_kind=0)
    filler = b"".join(genb.ref_canonical(dict(type=192, num=10 + i, flags=0, crc=("N",), data=("UNK", b"")))[0] for i in range(200000 if tier != "quick" else 120000))
    hb = b"\x9f" + genb.ref_primary(huge["p"])[0] + filler + genb.ref_canonical(huge["cs"][-1])[0] + b"\xff"
    out.append("PAIR DEC %s || DECA %s || DECA %s || DECA %s" % (xhex(hb), xhex(small), xhex(small[:-1]), xhex(b"\x9f" + small[1:20])))
    seeds += big[:12]
    for _ in range(nm // 40):
        nb = rng.randrange(0, 4)
        b = genb.rnd_bundle(rng, nblocks=nb)
        out.append(rng.choice(["DEC ", "DECA "]) + xhex(rng.choice(_definite_outer(genb.ref_bundle(b)[0], nb + 2))))
    out += _admin_cases(rng, 300 if tier == "quick" else 30000)
    for _ in range(nm):
        buf = rng.choice(seeds)
        for _ in range(rng.choice([1, 1, 1, 2, 3])):
            buf = genb.mutate(rng, buf)
        r = rng.random()
        out.append(_rx(rng, buf) if r < 0.7 else ("DEC " if r < 0.85 else "DECA ") + xhex(buf))
    return out


def oracle(line, out, mode):
    if out in ("PANIC", "ABORT", "CRASH", "TIMEOUT") or " PANIC" in out:
        return "receive path does not return normally: %s" % out[:60]
    if line.startswith("DECA "):
        # allocation in proportion to the input: generous linear bound + the 1 MiB pre-allocation cap of serde's `cautious`
        n = (len(line.split(" ")[1]) - 1) // 2
        toks = out.split(" ")
        if len(toks) == 3 and toks[1] == "PEAK" and int(toks[2]) > 64 * n + 2 * 1024 * 1024:
            return "decoder allocated %s bytes for a %d-byte input" % (toks[2], n)
    return None


_TS = None


def canon(out):
    """the receive-path query prints the Display text of the creation timestamp: beyond year 9999 its wording is free (C17 only asks
    for 'no panic' there), so a text that is not an RFC 3339 date is compared as such, not letter by letter"""
    global _TS
    import re
    import runner
    if out is None:
        return out
    if _TS is None:
        _TS = re.compile(r" TS x([0-9a-f]*)")

    def repl(m):
        try:
            txt = bytes.fromhex(m.group(1)).decode("utf-8", "replace")
        except ValueError:
            return m.group(0)
        if not re.match(r"^[0-9]{4}-[0-9]{2}-[0-9]{2}T", txt):
            return " TS <text that is not an RFC 3339 date>"
        import vlib
        c = vlib.canon_rfc3339_hex(m.group(1))         # compared by the instant it denotes: the number of fraction digits is free
        return (" TS " + c.replace(" ", "_")) if c else m.group(0)
    return runner.default_canon(_TS.sub(repl, out) if " TS x" in out else out)


def same(line, io, mo):
    return line.startswith("DECA ")      # measured on the implementation only (the model prints NA)


def classify(line, out):
    return line.split(" ")[0] + ":" + (out or "").split(" ")[0]


def nontrivial(line, out):
    return out is not None and (out.startswith("OK") or len(line) < 16)


def search_cases(rng, tier, breaks):
    return cases(rng, "quick")
