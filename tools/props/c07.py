"""C07 — validation accepts exactly the bundles satisfying the listed rules (K-val channel on decoded bundles)."""
import itertools
import genb
from vlib import xhex, rnd_u64
from props.codec_common import CODEC_TRUSTED

THEOREMS = ["C07_validate_iff", "C07_rejects_nonempty", "C07_decoded_shape", "C07_on_decoded", "C07_tie_block_flags", "C07_tie_bundle_flags", "C07_tie_rule_space", "C07_validate_iff_any", "C07_decodable_typed"]
REPEAT = 2            # case lines repeated 66 000 times on one thread (state that builds up over many calls)
REPEAT_CMDS = ('VALIDATE',)
RELEASE = True          # debug and release builds of the harness (debug_assert!, overflow checks, cfg(debug_assertions))
RULE = ("VALIDATE x<bytes>: bytes of the Python reference encoder for bundles drawn from the property's rule space (any subset of "
        "the nine defined control flags and the six bits of the reserved mask, creation time zero/non-zero, anonymous/named source, "
        "block lists of up to 4 blocks from {payload, previous node, bundle age, hop count, unknown} x numbers {1,2,3} x status-report "
        "flag) and random C01-domain bundles with one injected rule violation (incl. an ipn endpoint ID with node number 0 as destination, source, report-to or previous node); the oracle is the rule list of the property text; "
        "bundles hitting the stale reserved masks are counted, not judged; non-trivial = distinct decodable input")
TRUSTED_BASE = CODEC_TRUSTED + ["bitflags 2.x from_bits_truncate/contains semantics are modelled (Model/Types.v has_bits)"]
ASSUMPTIONS = ["stale reserved-bits masks (bundle flags containing all of 0xE218, block flags containing all of 0xF0) are don't-care"]
_B = {}

DEFINED = [0x1, 0x2, 0x4, 0x20, 0x40, 0x4000, 0x10000, 0x20000, 0x40000]
MASKBITS = [0x8, 0x10, 0x200, 0x2000, 0x4000, 0x8000]
KINDS = ["payload", "prev", "age", "hop", "unknown"]
KTYPE = {"payload": 1, "prev": 6, "age": 7, "hop": 10, "unknown": 192}


def eid_ok(e):
    """'all endpoint IDs are well formed': an ipn node number is at least 1, the null endpoint is [1, 0]"""
    if e[0] == "IPN":
        return e[1] == 2 and e[2] >= 1
    if e[0] == "NONE":
        return e[1] == 1 and e[2] == 0
    return True


def rules(b):
    p, cs = b["p"], b["cs"]
    f = p["flags"]
    if p["ver"] != 7:
        return False
    if not (eid_ok(p["dst"]) and eid_ok(p["src"]) and eid_ok(p["rpt"])):
        return False
    if any(c["type"] == 6 and c["data"][0] == "PREV" and not eid_ok(c["data"][1]) for c in cs):
        return False
    if (f & 1) and (f & 4):
        return False
    if (f & 2) and (f & (0x4000 | 0x10000 | 0x20000 | 0x40000)):
        return False
    for c in cs:
        if c["type"] == 1 and c["num"] != 1:
            return False
    nums = [c["num"] for c in cs]
    if len(set(nums)) != len(nums):
        return False
    for t in (6, 7, 10):
        if sum(1 for c in cs if c["type"] == t) > 1:
            return False
    if not any(c["type"] == 1 for c in cs):
        return False
    if ((f & 2) or p["src"] == ("NONE", 1, 0)) and any(c["flags"] & 2 for c in cs):
        return False
    if p["t"] == 0 and not any(c["type"] == 7 for c in cs):
        return False
    return True


def _named_none(e):
    return e[0] == "DTN" and bytes(e[2]) == b"none"


def dont_care(b):
    """the stale reserved-bits masks (property text) - and one bundle class on which the rule list does not decide: a decoded source
    [1,"none"] is a dtn endpoint whose NAME is the text "none"; it prints as dtn:none, the null endpoint is [1,0].  Whether such a bundle
    "has an anonymous source" (and so must not carry a block asking for a status report) is not settled by the property: the library
    compares with the value [1,0], a reader of the URI sees dtn:none.  Either verdict is accepted (found by the audit of D-27; the seeded
    change that treats it as anonymous was reclassified, seeded/N2-*)."""
    if (b["p"]["flags"] & 0xE218) == 0xE218 or any((c["flags"] & 0xF0) == 0xF0 for c in b["cs"]):
        return True
    return _named_none(b["p"]["src"]) and not (b["p"]["flags"] & 2) and any(c["flags"] & 2 for c in b["cs"])


def _mk_block(rng, kind, num, status):
    t = KTYPE[kind]
    if kind == "unknown" and rng.random() < 0.6:
        # unknown types incl. the ones that alias a known type (1, 6, 7, 10) under truncation to 8 / 16 / 32 bits, and 8 / 9
        t = rng.choice(genb.UNKNOWN_TYPES)
    return dict(type=t, num=num, flags=2 if status else rng.choice([0, 0, 1, 4, 16]), crc=("N",), data=genb.rnd_data(rng, t))


def _space_bundle(rng):
    f = 0
    for b in DEFINED + MASKBITS:
        if rng.random() < 0.25:
            f |= b
    if rng.random() < 0.4:
        f &= ~0xE218 | 0x4000 if rng.random() < 0.5 else 0xFFFFFFFF
    p = genb.rnd_primary(rng, crc_kind=0)
    p["flags"] = f & 0xFFFFFFFFFFFFFFFF
    p["foff"] = rnd_u64(rng) if f & 1 else 0
    p["flen"] = rnd_u64(rng) if f & 1 else 0
    p["t"] = 0 if rng.random() < 0.5 else rng.randrange(1, 2 ** 40)
    p["src"] = ("NONE", 1, 0) if rng.random() < 0.4 else genb.rnd_eid(rng, allow_none=False)
    n = rng.randrange(0, 5)
    cs = [_mk_block(rng, rng.choice(KINDS), rng.choice([1, 2, 3]), rng.random() < 0.15) for _ in range(n)]
    if rng.random() < 0.2:
        # blocks of one and the same UNKNOWN type may occur any number of times - also the unassigned types next to the once-only
        # types 6, 7 and 10 (5, 8, 9, 11) and types that alias them modulo 256
        t = rng.choice([5, 8, 8, 9, 9, 11, 2, 192, 262, 263, 266])
        k = rng.choice([2, 2, 3])
        free = [x for x in (4, 5, 6, 7, 8) if x not in [c["num"] for c in cs]]
        cs = [dict(type=t, num=free[i], flags=0, crc=("N",), data=("UNK", rng.choice([b"", b"\x00", b"ab"]))) for i in range(k)] + cs
    if rng.random() < 0.6:   # steer towards otherwise-valid bundles
        cs = [c for c in cs if c["type"] != 1] + [_mk_block(rng, "payload", 1, False)]
    return dict(p=p, cs=cs)


def _violate(rng, b):
    """inject one rule violation into a valid-looking C01-domain bundle"""
    k = rng.randrange(10)
    p, cs = b["p"], b["cs"]
    if k == 9:
        # an endpoint ID that is not well formed (ipn node number 0) in one of the four places an endpoint ID can stand; a decoder
        # that already refuses it has rejected the bundle as well (DECERR is accepted for these lines: b["bad_eid"])
        bad = ("IPN", 2, 0, rng.choice([0, 1, 7, 2 ** 64 - 1]))
        where = rng.choice(["dst", "src", "rpt", "rpt", "prev"])
        if where == "prev":
            b["cs"] = [c for c in cs if c["type"] != 6]
            b["cs"].insert(0, dict(type=6, num=9003, flags=0, crc=("N",), data=("PREV", bad)))
        else:
            p[where] = bad
        b["bad_eid"] = True
        return b
    if k == 0:
        p["ver"] = rng.choice([0, 6, 8, 255, 2 ** 32 - 1])
    elif k == 1:
        p["flags"] |= 5
        p["foff"], p["flen"] = 1, 2
    elif k == 2:
        p["flags"] |= 2 | rng.choice([0x4000, 0x10000, 0x20000, 0x40000])
    elif k == 3 and cs:
        cs[-1]["num"] = rng.choice([0, 2, 77])
    elif k == 4 and len(cs) > 1:
        cs[0]["num"] = cs[1]["num"]
    elif k == 5:
        t = rng.choice([6, 7, 10])
        cs.insert(0, dict(type=t, num=9001, flags=0, crc=("N",), data=genb.rnd_data(rng, t)))
        cs.insert(0, dict(type=t, num=9002, flags=0, crc=("N",), data=genb.rnd_data(rng, t)))
    elif k == 6:
        b["cs"] = [c for c in cs if c["type"] != 1]
    elif k == 7 and cs:
        p["src"] = ("NONE", 1, 0)
        cs[0]["flags"] |= 2
    else:
        p["t"] = 0
        b["cs"] = [c for c in cs if c["type"] != 7]
    return b


def _line(b):
    ref, _ = genb.ref_bundle(b)
    l = "VALIDATE " + xhex(ref)
    _B[l] = b
    return l


def corpus():
    import vlib
    rng = vlib.Rng(77)
    out = []
    # creation time zero with / without a bundle age block (the inverted rule of the pinned tree)
    for t0 in (0, 5):
        for with_age in (False, True):
            p = genb.rnd_primary(rng, crc_kind=0, fragment=False)
            p.update(flags=0, t=t0, src=("DTN", 1, b"//n/a"))
            cs = ([dict(type=7, num=2, flags=0, crc=("N",), data=("AGE", 7))] if with_age else []) + \
                 [dict(type=1, num=1, flags=0, crc=("N",), data=("DATA", b"x"))]
            out.append(_line(dict(p=p, cs=cs)))
    # unknown block types that alias bundle age / hop count / previous node / payload under truncation: they are neither
    for t in (263, 65543, 2 ** 32 + 7, 2 ** 64 - 249):          # "age" aliases: creation time 0 still needs a real bundle age block
        p = genb.rnd_primary(rng, crc_kind=0, fragment=False)
        p.update(flags=0, t=0, src=("DTN", 1, b"//n/a"))
        out.append(_line(dict(p=p, cs=[dict(type=t, num=2, flags=0, crc=("N",), data=("UNK", b"\x07")),
                                       dict(type=1, num=1, flags=0, crc=("N",), data=("DATA", b"x"))])))
    for t, real, d in ((266, 10, ("HOP", 3, 1)), (262, 6, ("PREV", ("IPN", 2, 1, 1))), (2 ** 32 + 10, 10, ("HOP", 3, 1)), (65543, 7, ("AGE", 5))):
        p = genb.rnd_primary(rng, crc_kind=0, fragment=False)      # one alias + one real block of the type: valid, not a duplicate
        p.update(flags=0, t=5, src=("DTN", 1, b"//n/a"))
        out.append(_line(dict(p=p, cs=[dict(type=t, num=3, flags=0, crc=("N",), data=("UNK", b"")), dict(type=real, num=2, flags=0, crc=("N",), data=d),
                                       dict(type=1, num=1, flags=0, crc=("N",), data=("DATA", b"x"))])))
    # a source whose dtn NAME is the text "none" ([1,"none"]; the null endpoint is [1,0]): with a block asking for a status report the
    # verdict is free (dont_care), without one every other rule is judged as usual
    for fl, bfl in ((0, 0x02), (0x4000, 0), (0x20000, 0x02), (0x40, 0x12), (0x04, 0x02)):
        for name in (b"none", b"//none/x", b"none/"):
            p = genb.rnd_primary(rng, crc_kind=0, fragment=False)
            p.update(flags=fl, t=5, src=("DTN", 1, name))
            out.append(_line(dict(p=p, cs=[dict(type=10, num=2, flags=bfl, crc=("N",), data=("HOP", 9, 1)),
                                           dict(type=1, num=1, flags=bfl & 0x02, crc=("N",), data=("DATA", b"x"))])))
    # B, then A 255 / 65535 times, then B again, where B carries block numbers A does not have (and the other way round): what validate
    # remembers about block numbers or types of one bundle must not leak into a later call, however many calls later
    def _nb(nums):
        p = genb.rnd_primary(rng, crc_kind=0, fragment=False)
        p.update(flags=0, t=5, src=("DTN", 1, b"//n/a"))
        return _line(dict(p=p, cs=[dict(type=192 + k, num=n, flags=0, crc=("N",), data=("UNK", b"\x01")) for k, n in enumerate(nums)] +
                                  [dict(type=1, num=1, flags=0, crc=("N",), data=("DATA", b"x"))]))
    la, lb = _nb([]), _nb([2, 3, 63, 64, 1000])
    for a, b in ((la, lb), (lb, la)):
        for n in (255, 65535):
            out.append("PAIR %s || REPEAT %d %s || %s" % (b, n, a, b))
    for t in (257, 65537):                                         # "payload" alias does not make a payload block
        p = genb.rnd_primary(rng, crc_kind=0, fragment=False)
        p.update(flags=0, t=5, src=("DTN", 1, b"//n/a"))
        out.append(_line(dict(p=p, cs=[dict(type=t, num=1, flags=0, crc=("N",), data=("UNK", b"x"))])))
    return out


def cases(rng, tier):
    out = []
    n = 12000 if tier == "quick" else 600000
    for _ in range(n):
        out.append(_line(_space_bundle(rng)))
    for _ in range(2500 if tier == "quick" else 100000):
        b = genb.rnd_bundle(rng, nblocks=rng.randrange(0, 5), crc_kind=rng.randrange(3))
        b["p"]["flags"] &= ~(0xE218 | 0x2 | 0x1)
        b["p"]["foff"] = b["p"]["flen"] = 0
        b["p"]["t"] = max(1, b["p"]["t"])
        for c in b["cs"]:
            c["flags"] &= 0x05
        if rng.random() < 0.7:
            b = _violate(rng, b)
        out.append(_line(b))
    return out


def oracle(line, out, mode):
    b = _B.get(line)
    if out in ("PANIC", "ABORT", "CRASH"):
        return "validate aborts"
    if b is not None and b.get("bad_eid") and out == "DECERR":
        return None          # refused by the decoder already: rejected
    if b is None or out == "DECERR":
        return None if out != "DECERR" or b is None else "generated bundle does not decode"
    if dont_care(b):
        return None
    ok = rules(b)
    if ok and out != "VALID":
        return "bundle satisfying every listed rule is rejected (%s)" % out
    if not ok and not (out.startswith("INVALID ") and int(out.split()[1]) >= 1):
        return "bundle violating a listed rule is accepted"
    return None


def known_class(line, out):
    return None


def same(line, io, mo):
    """the verdict on a bundle inside the don't-care masks is free"""
    b = _B.get(line)
    return b is not None and dont_care(b)


def classify(line, out):
    b = _B.get(line)
    tag = "?" if b is None else ("dontcare" if dont_care(b) else "rules-ok" if rules(b) else "rules-violated")
    return tag + ":" + (out or "").split(" ")[0]


def nontrivial(line, out):
    return out is not None and out != "DECERR"


def search_cases(rng, tier, breaks):
    return cases(rng, "quick")
