"""C08 — forwarding update enforces hop limit, bundle age and lifetime exactly (K-ops channel, clock hook, debug+release)."""
import genb
from vlib import rnd_u64, U64
from props.codec_common import CODEC_TRUSTED, split_out

THEOREMS = ["C08_update_exact", "C08_update_total", "C08_frame", "C08_code_structure", "C08_code_structure_wf", "C08_tie_hop_count"]
REPEAT = 2            # case lines repeated 66 000 times on one thread (state that builds up over many calls)
REPEAT_CMDS = ('OPS',)
RELEASE = True
OFFSET = 946684800000
RULE = ("OPS <clock> <bundle> ; UPD <node> <residence>: every (limit, count) pair of the hop-count block (65 536, exhaustive) and the "
        "cross product of boundary values (0, 1, L-1, L, L+1, 2^32, 2^63, 2^64-1, 2^64-L, 2^128-1 ...) for bundle age, residence time, "
        "lifetime, creation time and current time, each extension block present or absent; the clock hook supplies the current time; "
        "debug and release builds; non-trivial = distinct line")
TRUSTED_BASE = CODEC_TRUSTED
ASSUMPTIONS = ["clock not before 2000-01-01 (dtn_time_now underflows otherwise; C17 environment assumption)"]
_B = {}


CRC_STATES = [("N",), ("N",), ("E16",), ("E32",), ("V16", b"\x12\x34"), ("V32", b"\xde\xad\xbe\xef"), ("V32", b"\x00\x00\x00\x00"), ("V16", b"\x00\x00")]


def _bundle(hop=None, age=None, prev=True, t=1000, life=3600000, extra_first=False, seq=0, bflags=(0, 0, 0), crcs=None):
    p = dict(ver=7, flags=0, crc=("N",), dst=("DTN", 1, b"//d/x"), src=("DTN", 1, b"//s/y"), rpt=("NONE", 1, 0), t=t, seq=seq,
             life=life, foff=0, flen=0)
    cs = []
    n = 5
    if hop is not None:
        cs.append(dict(type=10, num=n, flags=bflags[0], crc=("N",), data=("HOP", hop[0], hop[1])))
        n -= 1
    if age is not None:
        cs.append(dict(type=7, num=n, flags=bflags[1], crc=("N",), data=("AGE", age)))
        n -= 1
    if prev:
        # the node named so far: some other node, or the given node's name in another letter case (it must still be REPLACED by the name given)
        old = prev if isinstance(prev, tuple) else ("DTN", 1, b"//old/")
        cs.append(dict(type=6, num=n, flags=bflags[2], crc=("N",), data=("PREV", old)))
        n -= 1
    if extra_first:
        # a block that fails its own validation (payload-typed, but not numbered 1) in front of the blocks to update: it is skipped by
        # the type lookup, the blocks behind it are found and updated all the same
        cs.insert(0, dict(type=1, num=9, flags=0, crc=("N",), data=("DATA", b"not the payload")))
    cs.append(dict(type=1, num=1, flags=0, crc=("N",), data=("DATA", b"p")))
    if crcs is not None:
        # stored CRC states (a decoded bundle carries calculated values): the update changes block DATA only, never a CRC type or value
        p["crc"] = crcs[0]
        for c, k in zip(cs, crcs[1:]):
            c["crc"] = k
    return dict(p=p, cs=cs)


def _line(b, now, node, rt, lifens=None):
    clock = now + OFFSET
    pre = "" if lifens is None else " ; LIFENS %d" % lifens      # sub-millisecond part of the lifetime Duration (API only): must not matter
    l = "OPS %d %s%s ; UPD %s %d" % (clock, genb.show_bundle(b), pre, genb.show_eid(node), rt)
    _B[l] = (b, now, node, rt)
    return l


NODE = ("DTN", 1, b"//here/")


def corpus():
    out = []
    out.append(_line(_bundle(age=3600001 - 5, life=3600000), 2000, NODE, 5))          # age > lifetime in ms (as_micros defect)
    out.append(_line(_bundle(hop=(255, 255)), 2000, NODE, 0))                          # hop count 255 + 1
    out.append(_line(_bundle(age=U64 - 1, life=U64 - 1), 2000, NODE, 1))               # age + residence >= 2^64
    out.append(_line(_bundle(age=5, life=U64 - 1), 2000, NODE, 2 ** 128 - 1))          # u128 overflow of the sum
    out.append(_line(_bundle(t=U64 - 10, life=U64 - 1), 2000, ("IPN", 2, 1, 0), 0))    # creation + lifetime >= 2^64
    # "no creation time" is about the TIME being 0, whatever the sequence number (a node without clock counts sequence numbers up)
    for seq in (1, 40, U64 - 1):
        out.append(_line(_bundle(t=0, seq=seq, life=1000), 5000, NODE, 0))
        out.append(_line(_bundle(t=0, seq=seq, life=0, age=0), 2 ** 40, NODE, 0))
    out.append(_line(_bundle(t=1, seq=0, life=1000), 5000, NODE, 0))
    # the exact instant creation + lifetime (expired) and the millisecond before (not expired), with a lifetime Duration that carries
    # 0 / 1 / 999999 extra nanoseconds: the lifetime counts in whole milliseconds
    for ns in (None, 1, 500000, 999999):
        for t, life in ((1000, 5000), (1, 1), (2 ** 40, 3600000)):
            out.append(_line(_bundle(t=t, life=life), t + life, NODE, 0, lifens=ns))
            out.append(_line(_bundle(t=t, life=life), t + life - 1, NODE, 0, lifens=ns))
            out.append(_line(_bundle(t=t, life=life, age=life - 1), t + life - 1, NODE, 1, lifens=ns))
            out.append(_line(_bundle(t=t, life=life, age=life - 1), t + life - 1, NODE, 2, lifens=ns))
    # block processing control flags of the three blocks play no part in the forwarding update (reserved bits 0xF0 included)
    for fl in (0xF0, 0xFF, 0x08, 0x10):
        out.append(_line(_bundle(hop=(3, 3), age=5, bflags=(fl, fl, fl)), 5000, NODE, 7))
        out.append(_line(_bundle(hop=(3, 1), age=5, bflags=(fl, 0, 0)), 5000, NODE, 7))
        out.append(_line(_bundle(age=3600000, bflags=(0, fl, 0)), 5000, NODE, 1))
        out.append(_line(_bundle(bflags=(0, 0, fl)), 5000, NODE, 1))
    return out


def cases(rng, tier):
    out = []
    step = 1 if tier == "thorough" else 1
    for limit in range(0, 256, step):
        for count in range(0, 256, step):
            if tier == "quick" and not (limit in (0, 1, 2, 127, 128, 254, 255) or count in (0, 1, 254, 255) or abs(limit - count) <= 2
                                        or (limit * 256 + count) % 7 == 0):
                continue
            out.append(_line(_bundle(hop=(limit, count), prev=(limit + count) % 2 == 0), 5000, NODE, 0))
    n = 6000 if tier == "quick" else 1000000
    for _ in range(n):
        L = rng.choice([0, 1, 1000, 3600000, 2 ** 32, 2 ** 63, U64 - 1, rnd_u64(rng)])
        bvals = [min(U64 - 1, v) for v in [0, 1, max(0, L - 1), L, L + 1, 2 ** 32, 2 ** 63, U64 - 1, max(0, U64 - 1 - L), max(0, U64 - L)]]
        age = rng.choice([None, None] + bvals + [rnd_u64(rng)])
        rt = rng.choice(bvals + [U64, 2 ** 64 + 1, 2 ** 127, 2 ** 128 - 1, 0, 0, rnd_u64(rng)])
        if age is not None and rng.random() < 0.5 and L >= age:
            rt = rng.choice([L - age, max(0, L - age - 1), L - age + 1])
        t = rng.choice([0, 0, 1] + bvals + [rnd_u64(rng)])
        nows = [0, 1, t, max(0, t - 1), min(U64 - 1, t + L), max(0, min(U64 - 1, t + L) - 1), min(U64 - 1, t + L + 1), 2 ** 63,
                U64 - 1 - OFFSET, rnd_u64(rng)]
        now = min(rng.choice(nows), U64 - 1 - OFFSET)
        hop = rng.choice([None, None, (32, 1), (rng.randrange(256), rng.randrange(256)), (255, 254), (255, 255), (0, 0)])
        # the given node is written into the previous-node block AS GIVEN: node IDs, endpoint IDs with a service part, dtn:none
        node = rng.choice([NODE, ("IPN", 2, 23, 0), ("NONE", 1, 0), ("DTN", 1, b"//here/svc"), ("IPN", 2, 23, 42), ("DTN", 1, "//kö/~grp/x".encode())])
        pv = rng.random() < 0.6
        if pv and rng.random() < 0.3:
            pv = rng.choice([("DTN", 1, b"//HERE/"), ("DTN", 1, b"//Here/svc"), ("DTN", 1, b"//here/"), ("IPN", 2, 23, 0), ("NONE", 1, 0)])
        out.append(_line(_bundle(hop=hop, age=age, prev=pv, extra_first=rng.random() < 0.1, t=t, life=L, seq=rng.choice([0, 0, 1, 40, U64 - 1, rnd_u64(rng)]),
                                 bflags=tuple(rng.choice([0, 0, 0, 1, 4, 16, 0xF0, 0xFF, 8, rng.randrange(256)]) for _ in range(3)),
                                 crcs=None if rng.random() < 0.5 else [rng.choice(CRC_STATES) for _ in range(5)]), now, node, rt,
                         lifens=rng.choice([None, None, None, 1, 999999, rng.randrange(1000000)])))
    # OPSA: the same call answered by the second model (update_extensions written with the block-level operations hop_count_get /
    # _increase / _exceeded, previous_node_update, bundle_age_get / _update of Model/Api.v; C08_code_structure proves the two equal)
    for l in list(out[::3 if tier == "quick" else 2]):
        la = "OPSA" + l[3:]
        _B[la] = _B[l]
        out.append(la)
    return out


def _expect(b, now, node, rt):
    p = b["p"]
    hop = next((c for c in b["cs"] if c["type"] == 10), None)
    age = next((c for c in b["cs"] if c["type"] == 7), None)
    false_ = False
    if hop is not None and hop["data"][2] + 1 > hop["data"][1]:
        false_ = True
    if age is not None and age["data"][1] + rt > p["life"]:
        false_ = True
    if p["t"] != 0 and p["t"] + p["life"] <= now:
        false_ = True
    nb = dict(p=dict(p), cs=[dict(c) for c in b["cs"]])
    for c in nb["cs"]:
        if c["type"] == 10:
            c["data"] = ("HOP", c["data"][1], c["data"][2] + 1)
        elif c["type"] == 7:
            c["data"] = ("AGE", c["data"][1] + rt)
        elif c["type"] == 6:
            c["data"] = ("PREV", node)
    return (not false_), nb


def oracle(line, out, mode):
    if line not in _B:
        return None
    if not out.startswith("OK "):
        return "update_extensions does not return normally: %s" % out[:20]
    b, now, node, rt = _B[line]
    want, nb = _expect(b, now, node, rt)
    toks = out.split(" ")
    # OK [; - <bundle...>] ; <ret> <bundle...> FINAL ...        (the optional first step is LIFENS)
    if " ; LIFENS " in line:
        semi = [i for i, t in enumerate(toks) if t == ";"]
        if len(semi) < 2:
            return "malformed output"
        toks = ["OK"] + toks[semi[1]:]
    ret = toks[2]
    fin = toks.index("FINAL")
    got = genb.parse_bundle(genb.T(toks[3:fin]))
    if ret != ("T" if want else "F"):
        return "returned %s, the hop/age/lifetime rule says %s" % (ret, "T" if want else "F")
    if want and got != nb:
        return "returned true but the bundle is not (hop count + 1, age + residence, previous node = node, rest unchanged)"
    if not want:
        hop = next((c for c in got["cs"] if c["type"] == 10), None)
        old = next((c for c in b["cs"] if c["type"] == 10), None)
        if hop is not None and hop["data"][2] < old["data"][2]:
            return "hop count wrapped"
    return None


def same(line, io, mo):
    return False


def classify(line, out):
    toks = (out or "").split(" ")
    return "UPD:" + (toks[2] if len(toks) > 2 and toks[0] == "OK" else toks[0])


def nontrivial(line, out):
    return True


def search_cases(rng, tier, breaks):
    return cases(rng, "quick")
