"""C09 — creation timestamps unique under any interleaving (K-now channel, scheduler + clock hooks).

Case line (grammar shared with coq/theories/Run/RunClock.v and harness/src/chan_now.rs):
    SCHED <n> T <r> ... T <r> ...  S <tid> ...     one scheduler grant per entry
    SCHED <n> T <r> ... T <r> ...  O <tid> ...     one whole, non-overlapping call per entry
n threads, exactly n T groups: group i = clock readings (Unix ms >= 946684800000) of thread i's successive
now() calls.  Unfinished calls are completed afterwards thread after thread.  Result: OK <tid>:<time>:<seq> ...
in completion order (time in DTN ms).  Every case runs in a fresh child process of the harness."""
import itertools

THEOREMS = ["C09_handed_out_unique", "C09_unique", "C09_unique_from", "C09_complete", "C09_sequential", "C09_sequential_first",
            "C09_sequential_calls", "C09_pinned_refuted"]
OFFSET_MS = 946684800000
U64 = 2 ** 64
BASES = [1759276800000, OFFSET_MS + 1, OFFSET_MS + 1000, U64 - 2]     # T; T-1 and T+1 stay inside [OFFSET, 2^64)
RELEASE = True          # debug and release builds of the harness (debug_assert!, overflow checks, cfg(debug_assertions))
RULE = ("SCHEDR lines = the same schedules with the calls going through helpers::rnd_bundle(CreationTimestamp::now()) / the C interface's helper_rnd_bundle (two draws per call: uniqueness only); SCHEDX lines = the same schedules with the calls going through new_std_payload_bundle / new_status_report_bundle / the C interface's bundle_new_default in rotation with now() (every public entry point that generates a fresh creation timestamp must draw from the one shared generator); SCHED lines: 2-3 (corpus: 1-4) threads x 1-3 calls, clock readings drawn from {T-1, T, T+1} around a base T "
        "(a 2025 date, the DTN epoch + 1, u64::MAX - 1) plus far-apart readings; schedules are random grant sequences "
        "(0 .. 4 grants per call, so both 2-step and 3/4-step implementations are interleaved at every yield point), exact "
        "interleavings, whole-call orders (O) and sequential bursts of 300 / 66000 calls inside one millisecond (sequence numbers beyond 8 and 16 bits); thorough adds every interleaving of 2 threads x 2 calls and 3 x 1 at 2 and "
        "3 grants per call over all clock choices from {T-1,T,T+1}, every whole-call order, and 50k random 3x3 cases. "
        "A case is non-trivial when its line is distinct and it makes at least two calls")
TRUSTED_BASE = ["hooks in /repo under cfg(bp7_verif): verif_hooks::Mutex (yield point before every try_lock, none inside the "
                "critical section), per-thread clock override; harness/src/chan_now.rs parks N OS threads at the yield "
                "points and grants single steps, one fresh child process per case (the static in now() is process-global)",
                "std::sync::Mutex provides mutual exclusion and happens-before between critical sections (Rust std), "
                "so the critical section is one atomic step of Model/Clock.v"]
ASSUMPTIONS = ["interleavings of the instrumented operations (clock read; lock attempt + critical section) are sequentially "
               "consistent; for the repaired code this follows from the mutex, for the pinned two-atomics model weak-memory "
               "reorderings between the two cells (one was accessed Relaxed) are outside the model",
               "a grant runs a thread from one yield point to the next; code between yield points touches no other shared "
               "state than the static inside now()",
               "sequence numbers stay below 2^64 (2^64 calls within one millisecond are not modelled)",
               "the free-running 16-thread stress of the property text is supporting evidence only; the proof covers all "
               "interleavings of the instrumented operations for any number of threads"]
BAD_OUT = ("PANIC", "ABORT", "CRASH", "TIMEOUT", "STUCK", "BADCASE", "WRONGMODE")


# ---------------------------------------------------------------------------------------------------
# case lines
# ---------------------------------------------------------------------------------------------------

def mk(readings, entries, whole=False):
    """readings: list (per thread) of lists of Unix-ms clock readings; entries: thread ids."""
    parts = ["SCHED", str(len(readings))]
    for r in readings:
        parts.append("T")
        parts += [str(x) for x in r]
    parts.append("O" if whole else "S")
    parts += [str(t) for t in entries]
    return " ".join(parts)


def parse(line):
    """-> (readings, whole, entries) or None."""
    tok = line.split()
    if tok and tok[0] in ("D", "R"):
        tok = tok[1:]
    if len(tok) < 3 or tok[0] not in ("SCHED", "SCHEDX", "SCHEDT", "SCHEDR") or not tok[1].isdigit():
        return None
    n = int(tok[1])
    readings, i, whole = [], 2, None
    while i < len(tok):
        t = tok[i]
        i += 1
        if t == "T":
            readings.append([])
        elif t in ("S", "O"):
            whole = (t == "O")
            break
        elif t.isdigit() and readings and OFFSET_MS <= int(t) < U64:
            readings[-1].append(int(t))
        else:
            return None
    if whole is None or len(readings) != n or not 1 <= n <= 64:
        return None
    entries = []
    for t in tok[i:]:
        if not t.isdigit() or int(t) >= n:
            return None
        entries.append(int(t))
    return readings, whole, entries


def parse_out(out):
    """'OK t:time:seq ...' -> [(tid, time, seq)] or None."""
    tok = (out or "").split()
    if not tok or tok[0] != "OK":
        return None
    res = []
    for t in tok[1:]:
        p = t.split(":")
        if len(p) != 3 or not all(x.isdigit() for x in p):
            return None
        res.append((int(p[0]), int(p[1]), int(p[2])))
    return res


def interleavings(counts):
    """all distinct sequences containing thread i exactly counts[i] times."""
    def rec(left, acc):
        if not any(left):
            yield list(acc)
            return
        for t, k in enumerate(left):
            if k:
                left[t] -= 1
                acc.append(t)
                yield from rec(left, acc)
                acc.pop()
                left[t] += 1
    yield from rec(list(counts), [])


# witnesses of the refutation of the original two-atomics code (Proofs/ClockProofs.v), T = base + 1000
def witnesses(base=OFFSET_MS):
    t = base + 1000
    return [
        # race: thread 0 swaps the new millisecond, is preempted before the reset; thread 1 takes the stale counter
        mk([[t], [t]], [0, 0, 1, 1, 1, 0, 0]),
        # the schedule run by hand on the real code in design_probes/sched_proto: (T+1, 2) twice on the original code
        mk([[t + 1], [t, t, t + 1, t + 1, t + 1]], [1, 1, 1, 1, 1, 1, 1, 0, 0, 1, 1, 1, 0, 0, 1, 1, 1, 1, 1, 1]),
        # one thread, clock stepping back: T-1, T, T-1
        mk([[t - 1, t, t - 1]], []),
        mk([[t - 1, t, t - 1]], [0, 0, 0], whole=True),
        # two threads, no overlap, clock stepping back across threads
        mk([[t, t - 1], [t - 1, t + 1]], [0, 1, 0, 1], whole=True),
    ]


def corpus():
    out = []
    for b in (OFFSET_MS, 1759276800000 - 1000):
        out += witnesses(b)
    t = 1759276800000
    out += [
        mk([[t, t + 1], [t, t]], [0, 1, 1, 0, 1, 0, 0, 1]),           # Props/C09.v C09_ex_interleaved
        mk([[t, t + 1], [t, t]], [1, 0, 1, 0, 0], whole=True),
        mk([[OFFSET_MS, OFFSET_MS], [OFFSET_MS]], [0, 1, 0, 1]),        # DTN time 0
        mk([[U64 - 1, U64 - 2], [U64 - 1]], [1, 0, 0, 1]),             # largest clock value
        mk([[t], [t], [t]], [0, 1, 2, 2, 1, 0]),
        mk([[t], [t], [t], [t]], [3, 2, 1, 0, 0, 1, 2, 3, 3, 3]),
        mk([[], []], []),                                               # no calls at all
        mk([[t, t, t]], [0] * 12),
        mk([[t], []], [1, 1, 0]),
        mk([[t + 5, t], [t + 3, t + 9]], [0, 1, 0, 1, 1, 0, 1, 0]),
    ]
    # bursts: many calls inside one millisecond (sequence numbers beyond 8 and 16 bits), a later millisecond in between, two threads
    # taking turns - sequential, no overlap needed
    out += [
        mk([[t] * 300], [0] * 300, whole=True),
        mk([[t] * 260 + [t + 1] * 3 + [t] * 2], [0] * 265, whole=True),
        mk([[t] * 150, [t] * 150], [0, 1] * 150, whole=True),
        mk([[t + 1, t + 1, t, t + 1, t + 1]], [0] * 5, whole=True),
        mk([[t, t + 1, t + 1, t + 1]], [0] * 4, whole=True),
        mk([[t] * 66000], [0] * 66000, whole=True),
    ]
    out += [l.replace("SCHED ", "SCHEDX ", 1) for l in out if len(l) < 100000]
    out += [l.replace("SCHED ", "SCHEDT ", 1) for l in out if l.startswith("SCHED ") and len(l) < 100000]
    out += [l.replace("SCHED ", "SCHEDR ", 1) for l in out if l.startswith("SCHED ") and len(l) < 20000]
    # the free-running stress of the property text: a fresh process each, threads released together, real clock, no hooks - the very
    # first calls of a process race each other
    out += ["STRESS 16 200", "STRESS 16 1", "STRESS 2 1", "STRESS 64 3", "STRESS 3 1000", "STRESS 16 2", "STRESS 32 1", "STRESS 8 1"]
    out += ["STRESS 16 %d" % k for k in (1, 1, 1, 2, 3, 5)]
    return out


def _reading(rng, base):
    r = rng.random()
    if r < 0.85:
        return base + rng.choice((-1, 0, 1))
    if r < 0.95:
        v = base + rng.choice((-1, 1)) * rng.randrange(2, 10 ** 6)
    else:
        v = rng.choice((OFFSET_MS, OFFSET_MS + 1, U64 - 1, 2 ** 63 + OFFSET_MS, base + 1000, base + 86400000))
    return max(OFFSET_MS, min(U64 - 1, v))


def random_case(rng, nmin=2, nmax=3, cmin=1, cmax=3):
    base = rng.choice(BASES) if rng.random() < 0.3 else BASES[0]
    n = rng.randrange(nmin, nmax + 1)
    readings = [[_reading(rng, base) for _ in range(rng.randrange(cmin, cmax + 1))] for _ in range(n)]
    total = sum(len(r) for r in readings)
    k = rng.random()
    if k < 0.15:                                   # whole calls in a random order (non-overlapping)
        order = [t for t, r in enumerate(readings) for _ in r]
        rng.shuffle(order)
        if rng.random() < 0.3:
            order = order[:rng.randrange(0, len(order) + 1)]
        return mk(readings, order, whole=True)
    if k < 0.45:                                   # exact interleaving with g grants per call
        g = rng.choice((2, 2, 3, 4))
        sched = [t for t, r in enumerate(readings) for _ in range(g * len(r))]
        rng.shuffle(sched)
        return mk(readings, sched)
    length = rng.randrange(0, 4 * total + 3)       # arbitrary grant sequence, possibly cut short or too long
    return mk(readings, [rng.randrange(n) for _ in range(length)])


def exhaustive(shape, grants_per_call, base):
    """every interleaving for the given calls-per-thread shape x every clock choice from {T-1,T,T+1}."""
    total = sum(shape)
    scheds = list(interleavings([grants_per_call * c for c in shape]))
    for clocks in itertools.product((-1, 0, 1), repeat=total):
        it = iter(clocks)
        readings = [[base + next(it) for _ in range(c)] for c in shape]
        for s in scheds:
            yield mk(readings, s)


def exhaustive_orders(shape, base):
    total = sum(shape)
    orders = list(interleavings(list(shape)))
    for clocks in itertools.product((-1, 0, 1), repeat=total):
        it = iter(clocks)
        readings = [[base + next(it) for _ in range(c)] for c in shape]
        for o in orders:
            yield mk(readings, o, whole=True)


def cases(rng, tier):
    out = _cases(rng, tier)
    # the same schedules with the calls going through the crate's other entry points that generate a fresh creation timestamp
    # (new_std_payload_bundle, new_status_report_bundle in rotation with now()): same expected result
    return (out + [l.replace("SCHED ", "SCHEDX ", 1) for l in out[::4] if l.startswith("SCHED ")]
            + [l.replace("SCHED ", "SCHEDT ", 1) for l in out[1::3] if l.startswith("SCHED ")]
            + [l.replace("SCHED ", "SCHEDR ", 1) for l in out[2::5] if l.startswith("SCHED ")])


def _cases(rng, tier):
    out = []
    t = BASES[0]
    if tier == "quick":
        out += [random_case(rng) for _ in range(2000)]
        out += list(exhaustive_orders((1, 1), t))
        out += list(exhaustive((1, 1), 2, t))
    else:
        for shape in ((2, 2), (1, 1, 1)):
            out += list(exhaustive(shape, 2, t))          # exact for the repaired code (two grants per call)
            out += list(exhaustive(shape, 3, t))          # one spare grant per call: every 3-step implementation too
            out += list(exhaustive_orders(shape, t))
        out += list(exhaustive((1, 1), 4, t))
        out += list(exhaustive((2, 2), 2, OFFSET_MS + 1))
        out += [random_case(rng, 3, 3, 3, 3) for _ in range(50000)]
        out += [random_case(rng) for _ in range(10000)]
    return out


# ---------------------------------------------------------------------------------------------------
# oracle: the property itself, judged on the implementation's output
# ---------------------------------------------------------------------------------------------------

def non_overlapping_order(readings, whole, entries):
    """the order of calls when the case makes no two calls overlap, else None (judged on the case line only:
    O lines, single-threaded lines, and lines whose calls are all made by the completion phase)."""
    drain = [t for t, r in enumerate(readings) for _ in r]
    if whole:
        return list(entries) + drain
    if len(readings) == 1 or not entries:
        return drain
    return None


def sequential_spec(readings, order):
    """what non-overlapping calls must return (property text): same ms or stepped back -> same time, next seq;
    later ms -> that ms, seq 0; the first call of the process -> its reading, seq 0."""
    nxt = [0] * len(readings)
    last, res = None, []
    for t in order:
        if nxt[t] >= len(readings[t]):
            continue
        c = readings[t][nxt[t]] - OFFSET_MS
        nxt[t] += 1
        if last is not None and c <= last[0]:
            last = (last[0], last[1] + 1)
        else:
            last = (c, 0)
        res.append((t, last[0], last[1]))
    return res


def oracle(line, out, mode):
    t = line.split()
    if t and t[0] in ("D", "R"):
        t = t[1:]
    if t and t[0] == "STRESS":
        if out is None or not out.endswith("UNIQUE") or out != "OK %d UNIQUE" % (int(t[1]) * int(t[2])):
            return "free-running threads on the real clock: %s" % (out or "")[:60]
        return None
    p = parse(line)
    if p is None:
        return None                      # not a well-formed case: nothing to judge
    readings, whole, entries = p
    if out in BAD_OUT or out is None:
        return "now() under the scheduler: %s" % out
    res = parse_out(out)
    if res is None:
        return "unreadable result line %r" % (out,)
    pairs = [(tm, sq) for _, tm, sq in res]
    if len(set(pairs)) != len(pairs):
        dup = sorted(x for x in set(pairs) if pairs.count(x) > 1)[0]
        who = [t for t, tm, sq in res if (tm, sq) == dup]
        return "duplicate (time, seq) = (%d, %d) returned to threads %s" % (dup[0], dup[1], who)
    for t, r in enumerate(readings):
        got = sum(1 for x in res if x[0] == t)
        if got != len(r):
            return "thread %d made %d calls but %d returned" % (t, len(r), got)
    if _ticking(line):
        return None                      # a clock that ticks INSIDE a call (SCHEDT): which reading a call uses is free; the random-bundle
                                         # helpers (SCHEDR) draw two timestamps per call: only uniqueness is judged
    order = non_overlapping_order(readings, whole, entries)
    if order is not None:
        want = sequential_spec(readings, order)
        if res != want:
            return "non-overlapping calls: expected %s" % " ".join("%d:%d:%d" % x for x in want)
    return None


def _ticking(line):
    t = line.split()
    return bool(t) and (t[0] in ("SCHEDT", "SCHEDR") or (len(t) > 1 and t[0] in ("D", "R") and t[1] in ("SCHEDT", "SCHEDR")))


def same(line, io, mo):
    """SCHEDT: the clock ticks inside every call (first read = the written reading, later reads one millisecond more); the model reads
    once, an implementation may read twice and use either - the oracle (distinct pairs, every call returns) judges alone"""
    return _ticking(line)


def _flags(readings, res):
    nxt = [0] * len(readings)
    f = set()
    for t, tm, sq in res:
        if t < len(readings) and nxt[t] < len(readings[t]):
            c = readings[t][nxt[t]] - OFFSET_MS
            nxt[t] += 1
            f.add("back" if tm > c else ("fresh" if sq == 0 else "same"))
    return "+".join(sorted(f)) or "none"


def classify(line, out):
    if "STRESS" in line.split()[:2]:
        return "STRESS:" + (out or "").split(" ")[0]
    p = parse(line)
    if p is None:
        return "malformed:" + (out or "").split(" ")[0]
    readings, whole, entries = p
    res = parse_out(out)
    shape = "%s%dx%d" % ("O" if whole else "S", len(readings), max([len(r) for r in readings] or [0]))
    if res is None:
        return shape + ":" + (out or "").split(" ")[0]
    return shape + ":" + _flags(readings, res)


def nontrivial(line, out):
    p = parse(line)
    return p is not None and sum(len(r) for r in p[0]) >= 2


def search_cases(rng, tier, breaks):
    """aimed at races and clock step-back: few threads, same / neighbouring milliseconds, every interleaving of
    short calls at 2, 3 and 4 grants per call."""
    out = []
    for b in BASES[:3]:
        out += witnesses(b - 1000)
    t = BASES[0]
    for g in (2, 3, 4):
        out += list(exhaustive((1, 1), g, t))
    out += list(exhaustive((2, 1), 3, t))
    out += list(exhaustive((2, 1), 4, t)) if tier != "quick" else []
    out += list(exhaustive_orders((2, 1), t))
    out += list(exhaustive((3,), 4, t))
    out += [random_case(rng) for _ in range(3000 if tier == "quick" else 30000)]
    return out


def shrink(v, runner):
    """greedy: drop schedule entries, then calls, then threads, while the oracle still fails."""
    p = parse(v["case_line"])
    if p is None:
        return v
    readings, whole, entries = p
    best = dict(v)

    budget = [300]          # at most 300 re-runs: a greedy pass over a 66 000-call burst would take hours

    def fails(rd, en):
        if not rd or budget[0] <= 0:
            return None
        budget[0] -= 1
        line = mk(rd, en, whole)
        out = runner([line])[0]
        why = oracle(line, out, v.get("mode", "D"))
        return (line, out, why) if why else None

    changed = True
    while changed:
        changed = False
        for i in range(len(entries)):
            r = fails(readings, entries[:i] + entries[i + 1:])
            if r:
                entries = entries[:i] + entries[i + 1:]
                best.update(case_line=r[0], implementation=r[1], why=r[2], model=None)
                changed = True
                break
        if changed:
            continue
        for t in range(len(readings)):
            for j in range(len(readings[t])):
                rd = [list(x) for x in readings]
                del rd[t][j]
                r = fails(rd, entries)
                if r:
                    readings = rd
                    best.update(case_line=r[0], implementation=r[1], why=r[2], model=None)
                    changed = True
                    break
            if changed:
                break
        if changed:
            continue
        for t in range(len(readings)):
            if not readings[t] and len(readings) > 1:
                rd = readings[:t] + readings[t + 1:]
                en = [e - 1 if e > t else e for e in entries if e != t]
                r = fails(rd, en)
                if r:
                    readings, entries = rd, en
                    best.update(case_line=r[0], implementation=r[1], why=r[2], model=None)
                    changed = True
                    break
    return best
