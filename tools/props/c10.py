"""C10 — endpoint IDs: parse and print are inverse, accessors agree (K-eid channel).

Case lines (strings are x<hex of UTF-8>):
  EID x<s>                EndpointID::try_from(&str)
  EIDDTN x<s>             EndpointID::with_dtn(s)
  EIDIPN <node> <svc>     EndpointID::with_ipn
  EIDNEW <eid> x<s>       <eid>.new_endpoint(s)                  (<eid> ::= DTN c x.. | NONE c a | IPN c n s)
  EIDCBOR x<bytes>        serde_cbor::from_slice::<EndpointID>   (decoder-image EIDs, e.g. [1,"abc"])
Result: OK <eid> P x<to_string> N <node> NID <node_id> SVC <service_name> ISN <is_node_id> NS <is_non_singleton>
        RT <parse(to_string)==self> CB <from_slice(to_vec)==self> NR <node of parse(node_id)> NI <is_node_id of parse(node_id)>
        [SN <node of the source eid>]  |  ERR <EndpointIdError variant> [SN ..]  |  DECERR  |  PANIC
The oracle classifies the input string with its own (Python) reading of the property text and judges the
implementation's output; strings that are neither canonical nor in a listed rejection class (ipn:+5.1, ipn:005.1,
dtn://node without trailing slash) are judged only through the round-trip / accessor relations when accepted."""
import re
import genb
from vlib import xhex, rnd_u64, U64

THEOREMS = ["C10_print_parse", "C10_cbor_roundtrip", "C10_accepts_canonical", "C10_rejects", "C10_node_id", "C10_new_endpoint",
            "C10_api_image", "C10_total"]
REPEAT = 2            # case lines repeated 66 000 times on one thread (state that builds up over many calls)
REPEAT_CMDS = ('EID',)
RELEASE = True          # debug and release builds of the harness (debug_assert!, overflow checks, cfg(debug_assertions))
RULE = ("EID: grammar-generated canonical strings (dtn:none, dtn://node/service with arbitrary UTF-8 node and service names incl. "
        "': - % ~ .', empty node names, multi-segment and '~' services, ipn:n.s over the full u64 range), non-canonical accepted forms "
        "(leading zeros, '+', no trailing slash), one near-miss per rejection class (no ':', unknown scheme, dtn without '//', dtn://none, "
        "ipn node 0, non-numeric / out-of-range fields, wrong field count) and random byte-level mutations of all of these; EIDDTN / EIDIPN "
        "with the same name and number material; EIDNEW on API-form and decoder-image EIDs with every kind of service string (white-space "
        "padded incl. every Unicode White_Space char, signed, out of range, non-numeric); EIDCBOR on encodings of API-form and arbitrary "
        "decoder-image EIDs (dtn names without slashes) and mutated bytes; a case is non-trivial when its line is distinct")
TRUSTED_BASE = [
    "Rust core str::split/splitn/starts_with/contains/trim, u64::from_str, char::is_whitespace and Display for u64 are modelled "
    "(Base/Str.v, Base/Decimal.v, Model/EidText.v) and tied by the K-eid channel, not verified",
    "serde_cbor 0.11.2 / serde for the CBOR form of EndpointID are modelled (Cbor/SerdeDe.v, Model/Encode.v, Model/Decode.v), tied by K-eid/K-dec",
]
ASSUMPTIONS = ["strings are valid UTF-8 (Rust &str invariant) and shorter than 2^64 bytes",
               "'public constructors' = try_from(&str/String), with_dtn, with_ipn, none/new/default, new_endpoint; values assembled "
               "directly from the public enum variants (EndpointID::Dtn(9, ..)) are outside the property"]

# ------------------------------------------------------------------------------------------------ material
WS_CPS = [0x09, 0x0a, 0x0b, 0x0c, 0x0d, 0x20, 0x85, 0xa0, 0x1680] + list(range(0x2000, 0x200b)) + [0x2028, 0x2029, 0x202f, 0x205f, 0x3000]
WS_CHARS = [chr(c) for c in WS_CPS]                                      # Unicode White_Space = char::is_whitespace
NOT_WS = [chr(c) for c in (0x180e, 0x200b, 0x200c, 0x2060, 0xfeff, 0x1c, 0x1f, 0x00, 0x84, 0x86, 0x9f, 0xa1, 0x167f, 0x1681, 0x1fff, 0x200e,
                           0x2027, 0x202a, 0x202e, 0x2030, 0x205e, 0x2060, 0x2fff, 0x3001, 0xe000, 0x10000)]
WS_SET = set(WS_CHARS)
NAME_CHARS = list("abcxyzNODE019") + list(":-%~._+ @#?=&!$'()*,;[]\\\"") + [chr(c) for c in (0xe9, 0xfc, 0x20ac, 0x1f680, 0x3000, 0x85, 0xa0,
                                                                                             0x200b, 0x7f, 0x01, 0x09)]
NODES = ["node1", "n", "", "none", "None", "dtn", "ipn", "a-5", "knoten-äö", "€", "x" * 23, "y" * 24, "home.net", "1", "node:1",
         "\U0001f680", "a:b:c", "~n", "%2f", "-", ".", "..", "n one", " ", "dtn:none", "//", ":", "12.34", "+5", "sensor%41", "n%20x", "%7e", "GW1", "gw1", "nonesuch", "a.b."]
SERVICES = ["", "in", "incoming", "~news", "~", "a/b/c", "tele/sensors/temperature", "123456", "a-5", "dienst-ü", "z" * 240, "-",
            "1-2-3", "%20", "/", "//", "a/", "/a", "~a/~b", ":", "a:b", ".", "0", "none", " ", "x y", "\U0001f680/€", "a//b", "%7Enews", "%7enews", "my%20inbox", "a%2Db", "inbox#urgent", "INBOX", "inbox", "Inbox", "%", "%4"]
NUMS = [0, 1, 2, 9, 10, 23, 42, 255, 256, 65535, 65536, 2 ** 32 - 1, 2 ** 32, 2 ** 63 - 1, 2 ** 63, U64 - 2, U64 - 1]


def rnd_name(rng, slash=False, maxlen=12):
    n = rng.choice([0, 1, 1, 2, 3, 5, 8, maxlen])
    chars = NAME_CHARS + (["/", "/", "/"] if slash else [])
    return "".join(rng.choice(chars) for _ in range(n))


def rnd_node(rng):
    return rng.choice(NODES) if rng.random() < 0.5 else rnd_name(rng)


def rnd_svc(rng):
    return rng.choice(SERVICES) if rng.random() < 0.5 else rnd_name(rng, slash=True)


def rnd_num(rng, lo=0):
    r = rng.random()
    if r < 0.5:
        return max(lo, rng.choice(NUMS))
    return max(lo, rnd_u64(rng))


def num_text(rng, n):
    """a decimal rendering accepted by u64::from_str: optional '+', optional leading zeros"""
    r = rng.random()
    s = str(n)
    if r < 0.7:
        return s
    if r < 0.8:
        return "+" + s
    if r < 0.9:
        return "0" * rng.randrange(1, 25) + s
    return "+" + "0" * rng.randrange(1, 4) + s


def valid_eid_text(rng):
    r = rng.random()
    if r < 0.05:
        return "dtn:none"
    if r < 0.55:
        return "dtn://" + rnd_node(rng) + "/" + rnd_svc(rng)
    if r < 0.62:
        return "dtn://" + rnd_node(rng)                      # accepted without trailing slash unless the node is "none"
    if r < 0.9:
        return "ipn:%d.%d" % (rnd_num(rng, 1), rnd_num(rng))
    return "ipn:" + num_text(rng, rnd_num(rng, 1)) + "." + num_text(rng, rnd_num(rng))


BAD_NUMS = ["", "+", "-", "-1", "-0", "a", "1a", "a1", "0x10", "1e3", " 1", "1 ", "1_0", "１", "٣", "18446744073709551616",
            "99999999999999999999", "184467440737095516150", "+18446744073709551616", "++1", "+-1", "1+", "1,0", "\t1", "1\n"]


def near_miss(rng):
    k = rng.randrange(9)
    if k == 0:   # no scheme separator
        return rng.choice(["", "dtn", "ipn", "dtn//n1/incoming", "n1/incoming", "none", "dtn;//a/b", "ipn.1.2", "//a/b", "dtn／／a"]) \
            if rng.random() < 0.5 else rnd_name(rng).replace(":", "")
    if k == 1:   # unknown scheme
        sch = rng.choice(["", "DTN", "Dtn", "IPN", "dtn ", " dtn", "ipn2", "dt", "dtnn", "http", "d:tn", "dtn\x00", "ıpn", "\tipn",
                          rnd_name(rng).replace(":", "")])
        if sch in ("dtn", "ipn"):
            sch += "x"
        return sch + ":" + rng.choice(["//a/b", "1.2", "none", "", rnd_name(rng, slash=True)])
    if k == 2:   # dtn without //
        ssp = rng.choice(["", "n1/", "n1/incoming", "/n1/x", "/", "none/", "None", "NONE", " none", "none ", "nonee", "non", ".//a/b",
                          "/ /a", "\\\\a\\b", rnd_name(rng)])
        if ssp == "none" or ssp.startswith("//"):
            ssp = "x" + ssp
        return "dtn:" + ssp
    if k == 3:
        return "dtn://none"
    if k == 4:   # ipn node 0
        return "ipn:" + rng.choice(["0", "00", "+0", "+000", "0" * 30]) + "." + num_text(rng, rnd_num(rng))
    if k == 5:   # non-numeric part
        bad = rng.choice(BAD_NUMS)
        good = num_text(rng, rnd_num(rng, 1))
        r = rng.random()
        if r < 0.45:
            return "ipn:%s.%s" % (bad, good)
        if r < 0.9:
            return "ipn:%s.%s" % (good, bad)
        return "ipn:%s.%s" % (bad, rng.choice(BAD_NUMS))
    if k == 6:   # wrong number of fields
        n = rng.choice([1, 3, 3, 4, 7])
        return "ipn:" + ".".join(num_text(rng, rnd_num(rng, 1)) for _ in range(n))
    if k == 7:
        return rng.choice(["ipn:", "ipn:.", "ipn:..", "ipn:1.", "ipn:.1", "ipn:1..2", "ipn://23.42", "ipn:23.data", "ipn:1.2.",
                           "ipn:.1.2", "ipn:1,2", "ipn:1:2", "ipn:1.2:3"])
    return rng.choice(["dtn:none", "dtn://none/", "dtn://none/x", "dtn://nonex", "dtn://None", "dtn:///", "dtn://", "dtn:////",
                       "dtn://none//", "dtn:// none", "dtn://none ", "dtn:none ", "dtn::none", "dtn:dtn:none"])


def mutate_text(rng, s):
    b = bytearray(s.encode())
    for _ in range(rng.choice([1, 1, 1, 2, 3])):
        r = rng.random()
        pool = b":/.~-+0 1none" + bytes([rng.randrange(128)])
        if r < 0.35 and b:
            del b[rng.randrange(len(b))]
        elif r < 0.7:
            b.insert(rng.randrange(len(b) + 1), rng.choice(pool))
        elif r < 0.9 and b:
            b[rng.randrange(len(b))] = rng.choice(pool)
        elif b:
            i = rng.randrange(len(b))
            j = rng.randrange(len(b))
            b[i], b[j] = b[j], b[i]
    try:
        return bytes(b).decode()
    except UnicodeDecodeError:
        return bytes(b).decode("utf-8", "ignore")


def service_arg(rng, ipn):
    r = rng.random()
    if not ipn and r < 0.7:
        return rnd_svc(rng)
    if r < 0.15:
        return rng.choice(BAD_NUMS)
    if r < 0.25:
        return rnd_name(rng, slash=True)
    core = num_text(rng, rnd_num(rng)) if rng.random() < 0.85 else rng.choice(BAD_NUMS)
    pad = WS_CHARS if rng.random() < 0.85 else WS_CHARS + NOT_WS
    left = "".join(rng.choice(pad) for _ in range(rng.choice([0, 0, 1, 1, 2, 4])))
    right = "".join(rng.choice(pad) for _ in range(rng.choice([0, 0, 1, 1, 2, 4])))
    if rng.random() < 0.05:
        core = core[:1] + rng.choice(WS_CHARS) + core[1:]        # inner white space is not trimmed
    return left + core + right


def api_eid(rng):
    r = rng.random()
    if r < 0.1:
        return ("NONE", 1, 0)
    if r < 0.6:
        return ("DTN", 1, ("//" + rnd_node(rng).replace("/", "") + "/" + rnd_svc(rng)).encode())
    return ("IPN", 2, rnd_num(rng, 1), rnd_num(rng))


def image_eid(rng):
    """any EID the CBOR decoder can produce: Dtn 1 <any non-empty text>, DtnNone 1 0, Ipn 2 n>=1 s"""
    r = rng.random()
    if r < 0.6:
        name = rng.choice(["abc", "/", "//", "///", "a/b", "/a/b", "//a", "//none", "none", "a", "//a//", "a//b/c", "/a", "x/y/z/w",
                           "dtn://n/s", "\U0001f680", "€/€", " ", rnd_name(rng, slash=True) or "q"])
        return ("DTN", 1, name.encode())
    return api_eid(rng)


def odd_eid(rng):
    """values only constructible through the public enum variants (outside the property; must still not panic)"""
    r = rng.random()
    if r < 0.3:
        return ("DTN", rng.choice([0, 2, 7, 255]), rng.choice([b"", b"//a/b", b"abc"]))
    if r < 0.6:
        return ("NONE", rng.choice([0, 1, 2, 255]), rng.choice([0, 1, 255]))
    return ("IPN", rng.choice([0, 1, 2, 3, 255]), rnd_num(rng), rnd_num(rng))


def _eid_line(s):
    return "EID " + xhex(s.encode())


def corpus():
    texts = ["dtn:none", "dtn://n1/incoming", "dtn://n1/incoming/", "dtn://n1/", "dtn://n1", "dtn:n1/incoming", "dtn//n1/incoming",
             "n1/incoming", "ipn:23.42", "ipn:23.0", "ipn://23.42", "ipn:23.data", "ipn:0.42", "dtn:n1/", "dtn://none", "dtn://none/",
             "dtn://none/x", "dtn:///", "dtn://", "dtn:////a", "ipn:+5.1", "ipn:005.1", "ipn:18446744073709551615.18446744073709551615",
             "ipn:18446744073709551616.1", "ipn:1.2.3", "ipn:1", "ipn:", "ipn:-1.2", "xyz:1", ":", "", "dtn:", "ipn:1.", "ipn:.1",
             "dtn://home_net/~tele/sensors/temperature", "dtn://node_group/~mail", "dtn://knoten-äö/dienst-ü", "dtn://a:b/c:d",
             "dtn://\U0001f680/€", "DTN://a/b", "dtn://a-5/b-1-2"]
    out = [_eid_line(t) for t in texts]
    out += ["EIDDTN " + xhex(t.encode()) for t in ["node1", "node1/incoming", "//node1/incoming", "", "/", "//", "none", "//none",
                                                   "a/b/c", "/a", "€", "é/ü"]]
    out += ["EIDIPN 23 42", "EIDIPN 0 0", "EIDIPN 0 7", "EIDIPN 1 0", "EIDIPN %d %d" % (U64 - 1, U64 - 1)]
    for e in [("DTN", 1, b"//node1/inbox"), ("DTN", 1, b"abc"), ("DTN", 1, b"/"), ("DTN", 1, b"//none"), ("IPN", 2, 23, 7),
              ("NONE", 1, 0)]:
        for s in ["incoming", "", "42", " 42 ", "-42", "+7", "\u30007\x85", "0", "a/b", "~x"]:
            out.append("EIDNEW %s %s" % (genb.show_eid(e), xhex(s.encode())))
    for e in [("DTN", 1, b"abc"), ("DTN", 1, b"//a"), ("DTN", 1, b"/"), ("DTN", 1, b"//node1/test"), ("NONE", 1, 0), ("IPN", 2, 5, 6),
              ("DTN", 1, b"//none")]:
        out.append("EIDCBOR " + xhex(genb.ref_eid(e)))
    out += ["EIDCBOR x8200", "EIDCBOR x820100", "EIDCBOR x82016161", "EIDCBOR x8201", "EIDCBOR x82028200" + "00", "EIDCBOR x820160",
            "EIDCBOR x83016161" + "00", "EIDCBOR x8201f6"]
    # dtn names as indefinite-length text (one chunk, two chunks, none): a decoder that can only borrow the text would not see them
    out += ["EIDCBOR x82017f652f2f612f62ff", "EIDCBOR x82017f622f2f63612f62ff", "EIDCBOR x82017fff", "EIDCBOR x82017f646e6f6e65ff",
            "EIDCBOR x9f017f652f2f612f62ffff"]
    return out


def cases(rng, tier):
    scale = 1 if tier == "quick" else 50
    out = []
    for _ in range(5000 * scale):
        out.append(_eid_line(valid_eid_text(rng)))
        if rng.random() < 0.08:
            # the same text in another letter case right afterwards, on the same thread: each is parsed on its own merits (a dtn name is
            # case-sensitive, an upper-case scheme is unknown)
            t = valid_eid_text(rng)
            u = rng.choice([t.swapcase(), t.upper(), t[:4] + t[4:].swapcase()])
            out.append("PAIR %s || %s" % (_eid_line(t), _eid_line(u)))
    for _ in range(4000 * scale):
        out.append(_eid_line(near_miss(rng)))
    for _ in range(4000 * scale):
        base = valid_eid_text(rng) if rng.random() < 0.6 else near_miss(rng)
        out.append(_eid_line(mutate_text(rng, base)))
    for _ in range(1200 * scale):
        r = rng.random()
        s = rnd_node(rng) + ("/" + rnd_svc(rng) if r < 0.5 else "")
        if rng.random() < 0.4:
            s = "//" + s
        out.append("EIDDTN " + xhex(s.encode()))
    for _ in range(600 * scale):
        out.append("EIDIPN %d %d" % (rnd_num(rng), rnd_num(rng)))
    for _ in range(4000 * scale):
        r = rng.random()
        e = api_eid(rng) if r < 0.6 else (image_eid(rng) if r < 0.9 else odd_eid(rng))
        out.append("EIDNEW %s %s" % (genb.show_eid(e), xhex(service_arg(rng, e[0] == "IPN").encode())))
    for _ in range(2500 * scale):
        e = image_eid(rng)
        b = genb.ref_eid(e)
        if rng.random() < 0.25:
            b = genb.mutate(rng, b)
        out.append("EIDCBOR " + xhex(b))
    return out


# ------------------------------------------------------------------------------------------------ oracle
NUM_RE = re.compile(rb"\+?[0-9]+\Z")


def _numeric(f):
    return NUM_RE.match(f) is not None and int(f) < U64


def classify_text(s):
    """(class, expected) for the input string per the property text; s: bytes (valid UTF-8)"""
    if b":" not in s:
        return ("rej-no-separator", None)
    sch, ssp = s.split(b":", 1)
    if sch == b"dtn":
        if ssp == b"none":
            return ("canon-none", ("NONE", 1, 0))
        if not ssp.startswith(b"//"):
            return ("rej-dtn-without-slashes", None)
        if ssp == b"//none":
            return ("rej-dtn-none-host", None)
        rest = ssp[2:]
        if b"/" in rest:
            node, svc = rest.split(b"/", 1)
            return ("canon-dtn", ("DTN", 1, ssp), node, svc)
        return ("other-dtn-no-trailing-slash", None)
    if sch == b"ipn":
        fields = ssp.split(b".")
        if len(fields) != 2:
            return ("rej-ipn-field-count", None)
        if not (_numeric(fields[0]) and _numeric(fields[1])):
            return ("rej-ipn-non-numeric", None)
        n, v = int(fields[0]), int(fields[1])
        if n == 0:
            return ("rej-ipn-node-zero", None)
        if fields[0] == b"%d" % n and fields[1] == b"%d" % v:
            return ("canon-ipn", ("IPN", 2, n, v), b"%d" % n, (b"%d" % v) if v else b"")
        return ("other-ipn-non-canonical", None)
    return ("rej-unknown-scheme", None)


def parse_info(toks):
    """tokens after OK -> dict"""
    t = genb.T(toks)
    e = genb.parse_eid(t)
    d = {"eid": e}
    while t.i < len(toks):
        k = t.next()
        d[k] = t.next()
    return d


def _opt(b):
    return "-" if b is None else xhex(b)


def is_api_form(e):
    if e[0] == "NONE":
        return e[1] == 1 and e[2] == 0
    if e[0] == "IPN":
        return e[1] == 2 and 1 <= e[2] < U64 and e[3] < U64
    return e[1] == 1 and e[2].startswith(b"//") and b"/" in e[2][2:]


def _relations(d):
    """relations every API-obtained endpoint ID must satisfy (round trips, node id)"""
    if d["RT"] != "T":
        return "printed form %s does not parse back to an equal endpoint ID" % d["P"]
    if d["CB"] != "T":
        return "CBOR encoding does not decode back to an equal endpoint ID"
    if d["eid"][0] == "NONE":
        if d["N"] != "-" or d["NID"] != "-" or d["SVC"] != "-":
            return "dtn:none reports a node or service"
        return None
    if d["NID"] == "-" or d["N"] == "-":
        return "no node / node ID for a non-none endpoint"
    if d["NR"] != d["N"]:
        return "node ID %s does not parse to an endpoint with the same node part (got %s, want %s)" % (d["NID"], d["NR"], d["N"])
    if d["NI"] != "T":
        return "node ID %s parses to something that is not a node ID" % d["NID"]
    return None


def _trim(s):
    i, j = 0, len(s)
    while i < j and s[i] in WS_SET:
        i += 1
    while j > i and s[j - 1] in WS_SET:
        j -= 1
    return s[i:j]


def oracle(line, out, mode):
    toks = line.split(" ")
    cmd = toks[0]
    if out in ("PANIC", "ABORT", "CRASH"):
        return "the call panics"
    if out in ("BADCASE", "SKIP", "WRONGMODE"):
        return None
    if out.startswith("UNSTABLE"):
        return "the textual entry points disagree: " + out[9:200]
    o = out.split(" ")
    if cmd == "EID":
        s = bytes.fromhex(toks[1][1:])
        c = classify_text(s)
        if c[0].startswith("rej-"):
            return None if o[0] == "ERR" else "string in rejection class %s is accepted" % c[0]
        if c[0].startswith("canon-"):
            if o[0] != "OK":
                return "canonical string (%s) is rejected: %s" % (c[0], out)
            d = parse_info(o[1:])
            if d["eid"] != c[1]:
                return "canonical string parsed to %r, expected %r" % (d["eid"], c[1])
            if c[0] != "canon-none":
                if d["N"] != xhex(c[2]):
                    return "node part reported as %s, the string says %s" % (d["N"], xhex(c[2]))
                if d["SVC"] != (xhex(c[3]) if c[3] else "-"):
                    return "service part reported as %s, the string says %s" % (d["SVC"], xhex(c[3]) if c[3] else "-")
            return _relations(d)
        if o[0] == "OK":
            return _relations(parse_info(o[1:]))
        return None
    if cmd in ("EIDDTN", "EIDIPN"):
        if o[0] == "OK":
            d = parse_info(o[1:])
            if not is_api_form(d["eid"]):
                return "constructor returned an endpoint ID outside its normal form"
            return _relations(d)
        return None
    if cmd == "EIDNEW":
        src = genb.parse_eid(genb.T(toks[1:-1]))
        ep = bytes.fromhex(toks[-1][1:]).decode()
        sn = o[o.index("SN") + 1]
        if o[0] != "OK":
            if src[0] == "DTN":
                return "new_endpoint on a dtn endpoint fails: %s" % out
            if src[0] == "IPN" and src[2] >= 1:
                t = _trim(ep).encode()
                if _numeric(t):
                    return "new_endpoint rejects the numeric service %r" % ep
            return None
        d = parse_info(o[1:o.index("SN")])
        if d["N"] != sn:
            return "sibling endpoint has node %s, the original %s" % (d["N"], sn)
        if src[0] == "DTN":
            want = xhex(ep.encode()) if ep else "-"
        else:
            t = _trim(ep).encode()
            if not _numeric(t):
                return "new_endpoint accepts the non-numeric service %r" % ep
            want = xhex(b"%d" % int(t)) if int(t) else "-"
        if d["SVC"] != want:
            return "sibling endpoint reports service %s, requested %s" % (d["SVC"], want)
        return _relations(d)
    if cmd == "EIDCBOR":
        if o[0] == "OK":
            d = parse_info(o[1:])
            if is_api_form(d["eid"]):
                return _relations(d)
        return None
    return None


def same(line, io, mo):
    """textual inputs the property does not decide (classes `other-*`: a '+' sign or leading zeros in ipn numbers, dtn://node without the
    trailing slash) may be accepted or rejected; when accepted, the oracle still demands the round trips"""
    toks = line.split(" ")
    if toks[0] in ("D", "R"):
        toks = toks[1:]
    if toks[0] == "EID" and len(toks) == 2:
        try:
            return classify_text(bytes.fromhex(toks[1][1:]))[0].startswith("other-")
        except ValueError:
            return False
    return False


def classify(line, out):
    cmd = line.split(" ")[0]
    o = (out or "").split(" ")
    if cmd == "EID":
        try:
            c = classify_text(bytes.fromhex(line.split(" ")[1][1:]))[0]
        except Exception:
            c = "?"
        return "EID:%s:%s" % (c, " ".join(o[:2]) if o[0] == "ERR" else o[0])
    return cmd + ":" + (" ".join(o[:2]) if o[0] == "ERR" else (o[0] + ":" + o[1] if len(o) > 1 else o[0]))


def nontrivial(line, out):
    return True


def search_cases(rng, tier, breaks):
    return cases(rng, "quick")
