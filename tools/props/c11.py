"""C11 — block-list invariants survive any sequence of bundle mutations (K-ops channel, debug+release).

Case line:  OPS <clock_ms> <bundle> ; op ; op ...      with op one of
    SORT | BUILD | BUILDP x<hex> (the bundle goes through BundleBuilder) | ADD <C type num flags crc data> | ADDC <C ..> (the block is made by
    the public constructor of its type) | SETPAYLOAD x<hex> | SETPB <C ...> | SETCRC <0..255> | UPD <eid> <residence>
Both sides print the whole bundle after every operation and `FINAL <VALID|INVALID n> PL <payload> RT <T|F>`.
The oracle is stateless (it re-parses the case line) and evaluates the invariant of Model/OpSeq.v (`Inv`) on the
implementation's bundle after EVERY step of an in-domain line (valid builder start state, admissible arguments)."""
import itertools
import genb
from vlib import rnd_u64, U64, xhex
from props.codec_common import CODEC_TRUSTED
from props import api_common

THEOREMS = ["C11_invariant", "C11_start", "C11_builder_build", "C11_std_bundle", "C11_step", "C11_inv_reading",
            "C11_roundtrip_unknown_crc", "C11_wf_conservative", "C11_bundle_builder", "C11_from_builder", "C11_builder_payload_last",
            "C11_constructors_admissible", "C11_constructors_valid", "C11_primary_builder", "C11_std_bundle_api", "C11_block_ops", "C11_tie_crc_code"]
REPEAT = 2            # case lines repeated 66 000 times on one thread (state that builds up over many calls)
REPEAT_CMDS = ('OPS',)
RELEASE = True
OFFSET = 946684800000
RULE = ("OPS <clock> <builder bundle> ; [SORT ;] op ...: start bundles = payload-only, new_std_payload_bundle shape (hop count 2 + payload 1) and "
        "BundleBuilder inputs with 0-5 extension blocks of mixed types (previous node, bundle age, hop count, unknown) with distinct numbers >= 2 in "
        "any order (SORT first = what build() does), named/anonymous source, administrative record, creation time 0 with age block, every CRC "
        "state incl. unknown CRC types; operations = every sequence of operation kinds {ADD type 6/7/10/192/1, SETPAYLOAD, SETPB, SETCRC 0/1/2 and the unknown "
        "types 3/4/200/255 (stored as CrcValue::Unknown: no CRC field on the wire), UPD} up to length 3 (thorough: 4) "
        "with boundary arguments (requested numbers 0/1/2/666/2^64-1, empty and non-empty payloads, residence 0/1/2^64/2^128-1, hop counts at the "
        "limit) plus random sequences of length <= 8; the oracle checks Inv (unique non-zero strictly descending numbers, single payload block "
        "numbered 1 and last, singleton types at most once, valid by an independent Python rule list, well-formed) on the implementation's bundle "
        "after every step, the payload read back == the payload most recently set, every block carries the CRC type last set, FINAL VALID and RT T; debug and release builds; "
        "non-trivial = distinct in-domain line.  K-api (`API ...`, tools/props/api_common.py): every public constructor (new_hop_count_block, "
        "new_bundle_age_block, new_previous_node_block, new_payload_block, new_canonical_block, CanonicalBlock::new/default, CanonicalBlockBuilder with "
        "each setter called or not), the block accessors and mutators (payload_data, hop_count_get/_increase/_exceeded, bundle_age_get/_update, "
        "previous_node_get/_update; also on blocks whose data does not belong to their type and on alias types 262/263/266), PrimaryBlockBuilder with "
        "each of its nine setters called or not, new_primary_block on valid and invalid endpoint texts, BundleBuilder with primary/canonicals/payload "
        "called or not (blocks in any order, payload blocks inside the list, numbers 0/1), Bundle::default, new_std_payload_bundle under the clock hook, "
        "Bundle::previous_node; model = Model/Api.v, oracle = what the function documents; OPSA = the OPS lines with a UPD step answered by the model "
        "that writes update_extensions with the block-level operations")
TRUSTED_BASE = CODEC_TRUSTED + ["tools/props/c11.py: Python transcription of Inv / the validation rules / admissibility (oracle)"]
ASSUMPTIONS = ["start state = builder bundle accepted by validate and inside the C01 domain (wf_bundle: block data variant matches block type; "
               "validate alone accepts CanonicalData::Unknown under a known type, which does not round-trip)",
               "admissible arguments (Model/OpSeq.v op_ok): type-consistent blocks, reserved block-flag mask not hit, no status-report flag when "
               "the bundle is an administrative record or anonymous, SETCRC code any u8, valid EIDs, clock not before 2000-01-01"]

MAXN = U64 - 1
KINDS = ["A6", "A7", "A10", "A192", "A1", "SP", "SPB", "C0", "C1", "C2", "C3", "C4", "C200", "C255", "U"]
REQ_NUMS = [0, 1, 2, 666, MAXN]
EIDS = [("DTN", 1, b"//n1/a"), ("IPN", 2, 23, 0), ("NONE", 1, 0), ("DTN", 1, "//kö/~x".encode()), ("IPN", 2, MAXN, MAXN)]
NAMED = [e for e in EIDS if e[0] != "NONE"]
PAYLOADS = [b"", b"p", b"ABC", bytes(24), b"\xff" * 3]
RESIDENCE = [0, 1, U64, 5, 2 ** 128 - 1, 3600000]
UNKNOWN_TYPES = [192, 2, 11, 12, 255, 65536, MAXN]
CRCS = [("N",), ("E16",), ("E32",), ("V16", b"\x12\x34"), ("V32", b"\x00\x00\x00\x00"), ("U", 3), ("U", 200)]


# ------------------------------------------------------------------ the property, in Python -------------------

def eid_valid(e):
    if e[0] == "DTN":
        return True
    if e[0] == "IPN":
        return e[1] == 2 and e[2] >= 1
    return e[1] == 1 and e[2] == 0


def eid_wf(e):
    if e[0] == "DTN":
        try:
            e[2].decode("utf-8")
        except UnicodeDecodeError:
            return False
        return e[1] == 1 and len(e[2]) > 0
    return eid_valid(e) and all(0 <= x < U64 for x in e[1:])


def ext_valid(c):
    d, t = c["data"], c["type"]
    k = d[0]
    if k == "DATA":
        return t == 1 and c["num"] == 1
    if k == "AGE":
        return t == 7
    if k == "HOP":
        return t == 10
    if k == "PREV":
        return t == 6 and eid_valid(d[1])
    return k == "UNK"


def data_wf(t, d):
    k = d[0]
    if k == "DATA":
        return t == 1
    if k == "AGE":
        return t == 7 and 0 <= d[1] < U64
    if k == "HOP":
        return t == 10 and 0 <= d[1] < 256 and 0 <= d[2] < 256
    if k == "PREV":
        return t == 6 and eid_wf(d[1])
    return k == "UNK" and t not in (1, 6, 7, 10)


def crc_wf(c):
    """known type with a value of the right length (or none yet), or an unknown type code 3..255 (no CRC field)"""
    return (c[0] in ("N", "E16", "E32") or (c[0] == "V16" and len(c[1]) == 2) or (c[0] == "V32" and len(c[1]) == 4)
            or (c[0] == "U" and 3 <= c[1] < 256))


def block_wf(c):
    return 0 <= c["type"] < U64 and 0 <= c["num"] < U64 and 0 <= c["flags"] < 256 and crc_wf(c["crc"]) and data_wf(c["type"], c["data"])


def is_strict(p):
    return bool(p["flags"] & 2) or p["src"] == ("NONE", 1, 0)


def payload_of(b):
    for c in b["cs"]:
        if c["type"] == 1 and ext_valid(c):
            return c["data"][1] if c["data"][0] == "DATA" else None
    return None


def valid(b):
    """the rule list Bundle::validate implements (RFC 9171 rules of C07), written independently"""
    p, cs = b["p"], b["cs"]
    f = p["flags"]
    if p["ver"] != 7 or (f & 0xE218) == 0xE218 or ((f & 1) and (f & 4)):
        return False
    if (f & 2) and (f & (0x4000 | 0x10000 | 0x20000 | 0x40000)):
        return False
    if not (eid_valid(p["dst"]) and eid_valid(p["src"]) and eid_valid(p["rpt"])):
        return False
    strict = is_strict(p)
    for c in cs:
        if (c["flags"] & 0xF0) == 0xF0 or not ext_valid(c) or (strict and c["flags"] & 2):
            return False
    nums = [c["num"] for c in cs]
    if len(set(nums)) != len(nums):
        return False
    if any(sum(1 for c in cs if c["type"] == t) > 1 for t in (6, 7, 10)):
        return False
    if p["t"] == 0 and not any(c["type"] == 7 for c in cs):
        return False
    return payload_of(b) is not None


def wf(b):
    p = b["p"]
    ok = (0 <= p["ver"] < 2 ** 32 and 0 <= p["flags"] < U64 and crc_wf(p["crc"]) and eid_wf(p["dst"]) and eid_wf(p["src"]) and eid_wf(p["rpt"])
          and all(0 <= p[k] < U64 for k in ("t", "seq", "life", "foff", "flen")) and ((p["flags"] & 1) or (p["foff"] == 0 and p["flen"] == 0)))
    return bool(ok) and all(block_wf(c) for c in b["cs"])


def inv(b):
    """None when Inv holds, otherwise the first clause that fails"""
    cs = b["cs"]
    nums = [c["num"] for c in cs]
    if len(set(nums)) != len(nums):
        return "block numbers not unique: %s" % nums
    if 0 in nums:
        return "block number 0 present"
    if any(not (nums[i] > nums[i + 1]) for i in range(len(nums) - 1)):
        return "block numbers not strictly descending: %s" % nums
    pl = [i for i, c in enumerate(cs) if c["type"] == 1]
    if len(pl) != 1:
        return "%d payload blocks" % len(pl)
    if pl[0] != len(cs) - 1:
        return "payload block is not last (position %d of %d)" % (pl[0] + 1, len(cs))
    if cs[-1]["num"] != 1 or cs[-1]["data"][0] != "DATA":
        return "payload block has number %d / data %s" % (cs[-1]["num"], cs[-1]["data"][0])
    for t in (6, 7, 10):
        if sum(1 for c in cs if c["type"] == t) > 1:
            return "block type %d occurs more than once" % t
    if not valid(b):
        return "bundle violates a validation rule"
    if not wf(b):
        return "bundle outside the round-trip domain (block data does not fit its type)"
    return None


def block_ok(strict, c):
    return (0 <= c["type"] < U64 and 0 <= c["flags"] < 256 and crc_wf(c["crc"]) and data_wf(c["type"], c["data"])
            and (c["flags"] & 0xF0) != 0xF0 and not (strict and c["flags"] & 2)
            and (c["data"][0] != "PREV" or eid_valid(c["data"][1])))


def op_ok(strict, clock, o):
    k = o[0]
    if k == "SORT":
        return True
    if k in ("ADD", "ADDC"):
        return block_ok(strict, o[1])
    if k == "SETPAYLOAD":
        return True
    if k == "SETPB":
        return block_ok(strict, o[1]) and o[1]["type"] == 1
    if k == "SETCRC":
        return 0 <= o[1] < 256
    if k == "UPD":
        return eid_valid(o[1]) and eid_wf(o[1]) and clock >= OFFSET
    return False


def sort_desc(cs):
    return sorted(cs, key=lambda c: -c["num"])     # stable


def in_domain(clock, b0, ops):
    """start_ok of the state the builder returns (after the leading SORT, if any) and admissible operations"""
    start = b0
    rest = ops
    if ops and ops[0][0] in ("SORT", "BUILD"):        # BUILD = BundleBuilder: sorts, and refuses unless the last block carries payload data
        start = dict(p=b0["p"], cs=sort_desc(b0["cs"]))
        rest = ops[1:]
    elif ops and ops[0][0] == "BUILDP":               # .canonicals(cs).payload(d): the payload block is pushed behind the others first
        start = dict(p=b0["p"], cs=sort_desc(b0["cs"] + [dict(type=1, num=1, flags=0, crc=("N",), data=("DATA", ops[0][1]))]))
        rest = ops[1:]
    nums = [c["num"] for c in start["cs"]]
    if nums != sorted(nums, reverse=True) or not start["cs"] or start["cs"][-1]["data"][0] != "DATA":
        return False
    if not (valid(start) and wf(start)):
        return False
    strict = is_strict(b0["p"])
    return all(o[0] not in ("SORT", "BUILD", "BUILDP") and op_ok(strict, clock, o) for o in rest)


# ------------------------------------------------------------------ case lines ---------------------------------

def show_op(o):
    k = o[0]
    if k in ("SORT", "BUILD"):
        return k
    if k == "BUILDP":
        return "BUILDP " + xhex(o[1])
    if k in ("ADD", "SETPB", "ADDC"):
        return "%s %s" % (k, genb.show_canonical(o[1]))
    if k == "SETPAYLOAD":
        return "SETPAYLOAD " + xhex(o[1])
    if k == "SETCRC":
        return "SETCRC %d" % o[1]
    return "UPD %s %d" % (genb.show_eid(o[1]), o[2])


def mk_line(clock, b, ops):
    return "OPS %d %s%s" % (clock, genb.show_bundle(b), "".join(" ; " + show_op(o) for o in ops))


def parse_canonical(t):
    assert t.next() == "C"
    return dict(type=t.n(), num=t.n(), flags=t.n(), crc=genb.parse_crc(t), data=genb.parse_data(t))


def parse_line(line):
    toks = line.split()
    if toks and toks[0] in ("D", "R"):
        toks = toks[1:]
    if not toks or toks[0] not in ("OPS", "OPSA", "OPSX"):
        return None
    t = genb.T(toks)
    t.next()
    clock = t.n()
    b = genb.parse_bundle(t)
    ops = []
    while t.i < len(toks):
        assert t.next() == ";"
        k = t.next()
        if k in ("SORT", "BUILD"):
            ops.append((k,))
        elif k == "BUILDP":
            ops.append((k, t.b()))
        elif k in ("ADD", "SETPB", "ADDC"):
            ops.append((k, parse_canonical(t)))
        elif k == "SETPAYLOAD":
            ops.append((k, t.b()))
        elif k == "SETCRC":
            ops.append((k, t.n()))
        elif k == "UPD":
            ops.append((k, genb.parse_eid(t), t.n()))
        else:
            return None
    return clock, b, ops


def parse_out(out):
    """-> (list of (ret, bundle) per step, validity text, payload text, rt text) or None"""
    toks = out.split(" ")
    if not toks or toks[0] != "OK" or "FINAL" not in toks:
        return None
    fin = toks.index("FINAL")
    steps, i = [], 1
    while i < fin:
        assert toks[i] == ";"
        j = i + 1
        while j < fin and toks[j] != ";":
            j += 1
        seg = toks[i + 1:j]
        k = seg.index("B")
        steps.append((" ".join(seg[:k]), genb.parse_bundle(genb.T(seg[k:]))))
        i = j
    tail = toks[fin + 1:]
    pl = tail.index("PL")
    return steps, " ".join(tail[:pl]), tail[pl + 1], tail[tail.index("RT") + 1]


# ------------------------------------------------------------------ generators ------------------------------------

def _primary(rng, strict=None, t=None, crc=None, flags=None):
    if strict is None:
        strict = rng.random() < 0.3
    how = rng.choice(["anon", "admin"]) if strict else "named"
    if flags is None:
        flags = rng.choice([0, 4, 0x20004, 0x40, 0x60, 1, 0x10000]) if how != "admin" else rng.choice([2, 6, 0x42])
    src = ("NONE", 1, 0) if how == "anon" else rng.choice(NAMED)
    frag = bool(flags & 1)
    return dict(ver=7, flags=flags, crc=crc if crc is not None else rng.choice(CRCS), dst=rng.choice(EIDS), src=src, rpt=rng.choice(EIDS),
                t=t if t is not None else rng.choice([0, 1, 1000, 1000, 5000, 2 ** 40, MAXN]), seq=rng.choice([0, 1, MAXN]),
                life=rng.choice([0, 1000, 3600000, 3600000, MAXN]), foff=rng.choice([0, 7]) if frag else 0, flen=rng.choice([9, MAXN]) if frag else 0)


def _flags(rng, strict):
    return rng.choice([0, 0, 0, 1, 4, 16, 0x15, 0x65] + ([] if strict else [2, 3, 0x17, 0x67]))


def _data(rng, btype):
    if btype == 1:
        return ("DATA", rng.choice(PAYLOADS + [bytes(rng.randrange(256) for _ in range(rng.randrange(1, 9)))]))
    if btype == 7:
        return ("AGE", rng.choice([0, 1, 999, 3599999, 3600000, 2 ** 63, MAXN - 1, MAXN]))
    if btype == 10:
        return ("HOP",) + rng.choice([(32, 0), (32, 1), (1, 0), (1, 1), (0, 0), (255, 254), (255, 255), (3, 200), (rng.randrange(256), rng.randrange(256))])
    if btype == 6:
        return ("PREV", rng.choice(EIDS))
    return ("UNK", rng.choice([b"", b"\x00", b"\x18\x18", b"\x82\x01\x02", bytes(rng.randrange(256) for _ in range(rng.randrange(0, 6)))]))


def _block(rng, btype, num, strict, crc=None):
    return dict(type=btype, num=num, flags=_flags(rng, strict), crc=crc if crc is not None else rng.choice(CRCS), data=_data(rng, btype))


START_NUMS = [2, 3, 4, 5, 6, 7, 23, 24, 255, 256, 666, 2 ** 32, 2 ** 63, MAXN - 1, MAXN]


def start_bundle(rng, shape=None):
    """(bundle as handed to Bundle::new, needs_sort)"""
    shape = shape or rng.choice(["payload", "std", "builder", "builder", "builder", "builder"])
    if shape == "payload":
        p = _primary(rng, t=rng.choice([1, 1000, MAXN]))
        return dict(p=p, cs=[_block(rng, 1, 1, is_strict(p))]), False
    if shape == "std":
        p = _primary(rng, strict=False, t=rng.choice([1, 1000, 2 ** 40]), crc=("N",), flags=0x20004)
        p["rpt"] = p["src"]
        p["life"] = 3600000
        return dict(p=p, cs=[dict(type=10, num=2, flags=0, crc=("N",), data=("HOP", 32, 0)),
                             dict(type=1, num=1, flags=0, crc=("N",), data=("DATA", rng.choice(PAYLOADS)))]), False
    p = _primary(rng)
    strict = is_strict(p)
    n = rng.randrange(0, 6)
    types = []
    singles = [6, 7, 10]
    rng.shuffle(singles)
    for _ in range(n):
        if singles and rng.random() < 0.6:
            types.append(singles.pop())
        else:
            types.append(rng.choice(UNKNOWN_TYPES))
    if p["t"] == 0 and 7 not in types:
        types.append(7)
    lo = rng.random() < 0.6
    nums = rng.sample(START_NUMS[:7] if lo else START_NUMS, len(types))
    cs = [_block(rng, ty, nu, strict) for ty, nu in zip(types, nums)] + [_block(rng, 1, 1, strict)]
    if rng.random() < 0.7:
        rng.shuffle(cs)
        return dict(p=p, cs=cs), True
    return dict(p=p, cs=sort_desc(cs)), rng.random() < 0.3


def mk_op(rng, kind, strict, reqnum=None):
    if kind[0] == "A":
        ty = int(kind[1:])
        if ty == 192:
            ty = rng.choice(UNKNOWN_TYPES[:3] + [192, 192, 8, 8, 9, 5, 11])   # 8 and 9 lie between the singleton types 6, 7 and 10
        return ("ADD", _block(rng, ty, rng.choice(REQ_NUMS) if reqnum is None else reqnum, strict))
    if kind == "SP":
        return ("SETPAYLOAD", _data(rng, 1)[1])
    if kind == "SPB":
        return ("SETPB", _block(rng, 1, rng.choice(REQ_NUMS) if reqnum is None else reqnum, strict))
    if kind[0] == "C":
        return ("SETCRC", int(kind[1:]))
    return ("UPD", rng.choice(EIDS), rng.choice(RESIDENCE))


def _clock(rng, p):
    now = rng.choice([0, 2000, 2000, p["t"], min(MAXN, p["t"] + p["life"]), max(0, min(MAXN, p["t"] + p["life"]) - 1), 2 ** 41])
    return OFFSET + min(now, MAXN - OFFSET)


def _constructible(c):
    """can the block be made by the public constructor of its type (new_*_block / new_canonical_block)?"""
    return c["crc"] == ("N",) and (c["data"][0] != "HOP" or c["data"][2] == 0)


def seq_line(rng, kinds, shape=None, reqnum=None):
    b, needs_sort = start_bundle(rng, shape)
    strict = is_strict(b["p"])
    first = []
    if needs_sort:
        # the start state is made by BundleBuilder itself (BUILD; BUILDP when the payload block can be handed over through payload():
        # flags 0, no CRC), or - as before - by Bundle::new + sort_canonicals, which is what build() does
        r = rng.random()
        pl = [c for c in b["cs"] if c["type"] == 1]
        if r < 0.45:
            first = [("BUILD",)]
        elif r < 0.75 and len(pl) == 1 and pl[0]["flags"] == 0 and pl[0]["crc"] == ("N",) and pl[0]["num"] == 1:
            b = dict(p=b["p"], cs=[c for c in b["cs"] if c["type"] != 1])
            first = [("BUILDP", pl[0]["data"][1])]
        else:
            first = [("SORT",)]
    ops = first + [mk_op(rng, k, strict, reqnum) for k in kinds]
    ops = [("ADDC", o[1]) if o[0] == "ADD" and _constructible(o[1]) and rng.random() < 0.5 else o for o in ops]
    return mk_line(_clock(rng, b["p"]), b, ops)


P0 = dict(ver=7, flags=0, crc=("N",), dst=("DTN", 1, b"//d/x"), src=("DTN", 1, b"//s/y"), rpt=("NONE", 1, 0), t=1000, seq=0, life=3600000, foff=0, flen=0)


def _c(ty, num, data, flags=0, crc=("N",)):
    return dict(type=ty, num=num, flags=flags, crc=crc, data=data)


def corpus():
    out = []
    pay = _c(1, 1, ("DATA", b"ABC"))
    age = _c(7, 0, ("AGE", 0))
    unk = _c(192, 0, ("UNK", b"\x01"))
    # highest block number 2^64-1, then ADD: the original `highest + 1` overflowed (panic in debug, block number 0 in release)
    bmax = dict(p=dict(P0), cs=[_c(192, MAXN, ("UNK", b"")), pay])
    out.append(mk_line(OFFSET + 2000, bmax, [("ADD", age)]))
    out.append(mk_line(OFFSET + 2000, bmax, [("ADD", unk), ("ADD", _c(10, 5, ("HOP", 32, 0))), ("SETPB", _c(1, MAXN, ("DATA", b"z")))]))
    out.append(mk_line(OFFSET + 2000, dict(p=dict(P0), cs=[_c(192, MAXN - 1, ("UNK", b"")), pay]), [("ADD", unk), ("ADD", age), ("ADD", unk)]))
    # creation time 0: valid only with a bundle age block (the original validate had the rule inverted)
    p0 = dict(P0, t=0)
    out.append(mk_line(OFFSET + 2000, dict(p=p0, cs=[_c(7, 2, ("AGE", 5)), pay]), [("ADD", unk), ("SETPAYLOAD", b"q"), ("UPD", EIDS[1], 7)]))
    out.append(mk_line(OFFSET, dict(p=p0, cs=[_c(7, 2, ("AGE", 5)), pay]), [("ADD", age), ("SETCRC", 1)]))
    # out of the start domain (not judged for Inv) but the final verdict must follow the rules: age block added to a time-0 bundle
    out.append(mk_line(OFFSET + 2000, dict(p=p0, cs=[pay]), [("ADD", age)]))
    # the sequence of the crate's own test bundle_add_cblock, on the std bundle
    std = dict(p=dict(P0, flags=0x20004, rpt=P0["src"]), cs=[_c(10, 2, ("HOP", 32, 0)), pay])
    out.append(mk_line(OFFSET + 2000, std, [("ADD", _c(10, 666, ("HOP", 16, 0))), ("ADD", _c(1, 0, ("DATA", b"xyz"))), ("ADD", _c(7, 0, ("AGE", 0))),
                                            ("SETPB", _c(1, 1, ("DATA", b"new"))), ("SETPAYLOAD", b"newer"), ("SETCRC", 2), ("UPD", EIDS[0], 10)]))
    # unknown CRC types: stored as CrcValue::Unknown, five-element blocks without a CRC field, still decodable
    out.append(mk_line(OFFSET + 2000, std, [("SETCRC", 200)]))
    out.append(mk_line(OFFSET + 2000, std, [("SETCRC", 3), ("ADD", _c(7, 9, ("AGE", 5))), ("SETPAYLOAD", b"u"), ("UPD", EIDS[1], 1)]))
    out.append(mk_line(OFFSET + 2000, std, [("SETCRC", 255), ("SETCRC", 1), ("ADD", _c(192, 0, ("UNK", b""), crc=("U", 4)))]))
    # unassigned block types between the singleton types (6, 7, 10): any number of them is allowed
    out.append(mk_line(OFFSET + 2000, std, [("ADD", _c(8, 0, ("UNK", b"a"))), ("ADD", _c(8, 0, ("UNK", b"a"))), ("ADD", _c(9, 0, ("UNK", b""))),
                                            ("ADD", _c(9, 7, ("UNK", b"b"))), ("ADD", _c(5, 0, ("UNK", b""))), ("ADD", _c(11, 0, ("UNK", b""))), ("ADD", _c(11, 0, ("UNK", b"")))]))
    # outside the start domain (compared with the model, not judged for Inv): set_payload on a bundle WITHOUT a payload block makes one;
    # a block whose data is the decoder's DecodingError marker never validates; BundleBuilder refuses a list without payload data at the end
    nopl = dict(p=dict(P0), cs=[_c(7, 2, ("AGE", 0)), _c(10, 3, ("HOP", 32, 0))])
    out.append(mk_line(OFFSET + 2000, nopl, [("SETPAYLOAD", b"made")]))
    out.append(mk_line(OFFSET + 2000, nopl, [("SETPAYLOAD", b"made"), ("ADD", unk), ("SETPAYLOAD", b"again")]))
    out.append(mk_line(OFFSET + 2000, nopl, [("BUILD",), ("SETPAYLOAD", b"x")]))
    out.append(mk_line(OFFSET + 2000, dict(p=dict(P0), cs=[_c(7, 2, ("DERR",)), pay]), [("SETCRC", 1)]))
    # a payload whose block gets the CORRECT CRC-32C 0x00000000 (witness re-verified in genb.zero_crc_bundles): after set_crc(2) and
    # set_payload the bundle must still round-trip (a decoder that reads four zero bytes as "no CRC calculated yet" does not)
    out.append(mk_line(OFFSET + 2000, std, [("SETCRC", 2), ("SETPAYLOAD", bytes.fromhex("62703720f81c8f51"))]))
    out.append(mk_line(OFFSET + 2000, std, [("SETPAYLOAD", bytes.fromhex("62703720f81c8f51")), ("SETCRC", 2), ("ADD", _c(7, 0, ("AGE", 1)))]))
    # a payload of several MiB, then small ones again (anything an encoder keeps between calls must not leak into the next encoding);
    # implementation only - the extracted model needs minutes for 10 MB lines - judged by the oracle (invariant, payload read back, round trip)
    big = bytes((i * 7 + 3) % 256 for i in range(5 * 1024 * 1024 + 17))
    small_line = mk_line(OFFSET + 2000, std, [("SETPAYLOAD", b"small again"), ("SETCRC", 1)])
    out.append("PAIR OPSX%s || %s || %s" % (mk_line(OFFSET + 2000, std, [("SETCRC", 1), ("SETPAYLOAD", big)])[3:], small_line, small_line))
    out.append("OPSX" + mk_line(OFFSET + 2000, std, [("SETPAYLOAD", big), ("SETPAYLOAD", b"small again"), ("SETCRC", 1), ("SETPAYLOAD", b"")])[3:])
    out.append("OPSX" + mk_line(OFFSET + 2000, std, [("SETCRC", 2), ("SETPAYLOAD", big[:1048576 + 3]), ("ADD", unk), ("SETPAYLOAD", b"x")])[3:])
    # builder input in arbitrary order, payload first
    out.append(mk_line(OFFSET + 2000, dict(p=dict(P0), cs=[pay, _c(7, 2, ("AGE", 0)), _c(10, 4, ("HOP", 32, 0)), _c(6, 3, ("PREV", EIDS[2]))]),
                       [("SORT",), ("ADD", unk), ("UPD", EIDS[1], U64)]))
    return out


def cases(rng, tier):
    out = []
    maxlen = 3 if tier == "quick" else 4
    reps = 2
    i = 0
    for n in range(1, maxlen + 1):
        for kinds in itertools.product(KINDS, repeat=n):
            for r in range(reps):
                out.append(seq_line(rng, kinds, shape=["builder", "std", "payload", "builder"][(i + r) % 4], reqnum=REQ_NUMS[(i + r) % 5] if r == 0 else None))
            i += 1
    nrand = 4000 if tier == "quick" else 400000
    for _ in range(nrand):
        n = rng.randrange(1, 9)
        out.append(seq_line(rng, [rng.choice(KINDS) for _ in range(n)]))
    # the same lines with update_extensions answered by the second model (block-level operations, Model/Api.v)
    upd = [l for l in out if " ; UPD " in l]
    out += ["OPSA" + l[3:] for l in upd[:1500 if tier == "quick" else 100000]]
    out += api_common.lines(rng, 6000 if tier == "quick" else 300000)
    return out


# ------------------------------------------------------------------ oracle -----------------------------------------

def oracle(line, out, mode):
    if api_common.is_api(line):
        return api_common.oracle(line, out, inv=inv, valid=valid, wf=wf)
    try:
        parsed = parse_line(line)
    except (AssertionError, IndexError, ValueError):
        parsed = None
    if parsed is None:
        return None
    clock, b0, ops = parsed
    dom = in_domain(clock, b0, ops)
    if out in ("PANIC", "ABORT", "CRASH"):
        return "a mutator or the final encode/decode aborts (%s)" % out
    if out in ("SKIP", "BADCASE"):
        return None if not dom else "harness cannot run an in-domain line: %s" % out
    try:
        po = parse_out(out)
    except (AssertionError, IndexError, ValueError):
        po = None
    if po is None:
        return "unexpected output: %s" % out[:40]
    steps, verdict, pl, rt = po
    if len(steps) != len(ops):
        return "%d steps printed for %d operations" % (len(steps), len(ops))
    final = steps[-1][1] if steps else b0
    # always: the verdict on the final bundle follows the rule list, and a well-formed final bundle round-trips
    dont_care = (final["p"]["flags"] & 0xE218) == 0xE218 or any((c["flags"] & 0xF0) == 0xF0 for c in final["cs"])   # C07: free
    if not dont_care and (verdict == "VALID") != valid(final):
        return "FINAL %s but the rule list says %s" % (verdict, "valid" if valid(final) else "invalid")
    if wf(final) and rt != "T":
        return "final bundle does not round-trip through CBOR"
    if not dom:
        return None
    expect = payload_of(b0)
    for i, (o, (ret, b)) in enumerate(zip(ops, steps)):
        if o[0] in ("BUILD", "BUILDP") and ret != "OK":
            return "BundleBuilder refuses a block list whose last block (after sorting) carries payload data"
        if o[0] in ("SETPAYLOAD", "BUILDP"):
            expect = o[1]
        elif o[0] == "SETPB":
            expect = o[1]["data"][1]
        why = inv(b)
        if why:
            return "after step %d (%s): %s" % (i + 1, o[0], why)
        if b["p"] != dict(b0["p"], crc=b["p"]["crc"]):
            return "after step %d (%s): primary block fields changed" % (i + 1, o[0])
        if o[0] == "SETCRC" and any(genb.crc_type(x["crc"]) != o[1] for x in [b["p"]] + b["cs"]):
            return "after step %d (SETCRC %d): CRC types are %s" % (i + 1, o[1], [genb.crc_type(x["crc"]) for x in [b["p"]] + b["cs"]])
        got = payload_of(b)
        if got != expect:
            return "after step %d (%s): payload read back %r, most recently set %r" % (i + 1, o[0], got, expect)
    if verdict != "VALID":
        return "FINAL %s" % verdict
    if rt != "T":
        return "final bundle does not round-trip through CBOR"
    if pl != xhex(expect):
        return "FINAL PL %s, most recently set %s" % (pl, xhex(expect))
    return None


def same(line, io, mo):
    """Equality with the model is demanded where the property forces the answer.  Where the implementation has latitude - every `API`
    line, and `OPS` lines whose start state or arguments are made by BundleBuilder / the public constructors (BUILD, BUILDP, ADDC: a
    constructor may normalise its arguments) - the oracle alone judges (invariant after every step, payload, validity, round trip)."""
    return api_common.same(line, io, mo) or any(k in line for k in (" ; BUILD", " ; ADDC ")) or line.startswith("OPSX ")


def _sig(ops):
    m = {"SORT": "S", "ADD": "A", "ADDC": "A", "SETPAYLOAD": "P", "SETPB": "B", "SETCRC": "C", "UPD": "U", "BUILD": "S", "BUILDP": "S"}
    return "".join(m[o[0]] for o in ops)


def classify(line, out):
    if api_common.is_api(line):
        tag = "differs-from-documentation" if api_common.observed_difference(line, out) else "as-documented"
        return "API " + " ".join(line.split()[1:3][:1 if line.split()[1] != "BLK" else 2]) + " " + (out or "").split(" ")[0] + " " + tag
    try:
        clock, b0, ops = parse_line(line)
    except Exception:
        return "unparsed"
    tail = (out or "").split(" FINAL ")
    dom = "dom" if in_domain(clock, b0, ops) else "OUT-OF-DOMAIN"
    return "%s len=%d %s" % (dom, len([o for o in ops if o[0] not in ("SORT", "BUILD", "BUILDP")]), tail[1].split(" PL ")[0] if len(tail) > 1 else (out or "")[:10])


def nontrivial(line, out):
    if api_common.is_api(line):
        return bool(out) and out.startswith("OK ")
    try:
        clock, b0, ops = parse_line(line)
    except Exception:
        return False
    return bool(out) and out.startswith("OK ") and in_domain(clock, b0, ops)


def search_cases(rng, tier, breaks):
    return cases(rng, "quick")


def shrink(v, run):
    """greedy: drop operations (keeping a leading SORT), then extension blocks of the start bundle, while the oracle still fails"""
    p = parse_line(v["case_line"])
    if p is None:
        return v
    clock, b, ops = p
    mode = v.get("mode", "D")

    def fails(b2, ops2):
        l = mk_line(clock, b2, ops2)
        o = run([l])[0]
        w = oracle(l, o, mode)
        return (l, o, w) if w else None

    changed = True
    while changed:
        changed = False
        for i in range(len(ops)):
            if ops[i][0] in ("SORT", "BUILD", "BUILDP"):
                continue
            r = fails(b, ops[:i] + ops[i + 1:])
            if r:
                ops = ops[:i] + ops[i + 1:]
                v = dict(v, case_line=r[0], implementation=r[1], why=r[2], model=None)
                changed = True
                break
        if changed:
            continue
        for i in range(len(b["cs"])):
            if b["cs"][i]["type"] == 1:
                continue
            nb = dict(p=b["p"], cs=b["cs"][:i] + b["cs"][i + 1:])
            r = fails(nb, ops)
            if r:
                b = nb
                v = dict(v, case_line=r[0], implementation=r[1], why=r[2], model=None)
                changed = True
                break
    return v
