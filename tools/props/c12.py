"""C12 — administrative records round-trip; status reports describe the right bundle (K-adm channel, clock hook, debug+release).

Case lines (grammar: coq/theories/Run/RunAdmin.v, harness/src/chan_adm.rs):
  ADMENC <record>   -> OK x<bytes> DEC <record>|ERR        to_vec, then from_slice of those bytes
  ADMSPEC <record>  -> OK x<bytes>                          model: RFC 9171 6.1 layout (Spec/Rfc9171Admin.v); code: to_vec
  ADMDEC x<bytes>   -> OK <record> | ERR
  SRB <clock_ms> <crc_type> <pos> <reason> <src eid> <bundle B>
                    -> OK <bundle R> V VALID|INVALID n REC <record>|ERR|NOPAYLOAD  |  PANIC   (fresh process per case)
The oracle is the property text evaluated on the implementation's output; the independent encoder of the
section 6.1 layout is `ref_record` below, written with genb.c_uint / c_arr / c_bytes / ref_eid only."""
import genb
from genb import c_uint, c_arr, c_bytes
from vlib import rnd_u64, rnd_bytes, xhex, U64
from props.codec_common import CODEC_TRUSTED

THEOREMS = ["C12_record_roundtrip", "C12_record_layout", "C12_status_report_bundle", "C12_status_report_bundle_total",
            "C12_fragment_unimplemented", "C12_no_report_to_panics"]
REPEAT = 2            # case lines repeated 66 000 times on one thread (state that builds up over many calls)
REPEAT_CMDS = ('ADMENC', 'ADMDEC')
RELEASE = True
OFFSET = 946684800000
U32 = 2 ** 32
RULE = ("ADMENC/ADMSPEC/ADMDEC on normal-form administrative records (status reports with 0-6, 23-25 and 300 status items of the three "
        "normal kinds, reason codes 0-11, > 11 and up to 2^32-1, dtn/ipn/none sources, boundary-biased u64 timestamps, with and without "
        "fragment fields; unknown records with type codes 0, 2 .. 2^32-1 and empty to 70 000-byte content, the large ones as a repeated byte), judged against an independent "
        "Python encoding of the RFC 9171 section 6.1 layout and by decode(encode r) == r; SRB on C01-domain subject bundles (forced "
        "non-fragment, report-to not dtn:none) x status position 0..3 x CRC type 0..2 x reason codes x status-time flag on/off x "
        "dtn/ipn/none reporting node x clock readings after 2000-01-01 (clock hook, one fresh process per case so that "
        "CreationTimestamp::now() starts from its initial state), judged clause by clause; plus agreement-only streams: records outside "
        "the normal form, Mismatched records, structure-aware mutations of valid encodings (ADMDEC), subject bundles outside the domain "
        "(fragments, no report-to, position >= 4, CRC type >= 3, clock at or before the DTN epoch); debug and release builds; "
        "non-trivial = distinct line")
TRUSTED_BASE = CODEC_TRUSTED + [
    "serde's Vec<T>/bool/u32 visitors and serde_cbor's SeqAccess::size_hint are modelled (Model/AdminRecord.v, Cbor/SerdeDe.v), tied by K-adm",
    "tools/props/c12.py ref_record: independent Python encoder of the RFC 9171 section 6.1 layout (oracle)"]
ASSUMPTIONS = ["clock after 2000-01-01T00:00:00Z and below 2^64 ms (dtn_time_now underflows before; at exactly the epoch the report bundle "
               "would have creation time 0 without a bundle age block)",
               "the reporting node's EID passes EndpointID::validate",
               "CreationTimestamp::now() has handed out fewer than 2^64 - 1 timestamps in the current millisecond (gen_ok)",
               "subject bundle: source name shorter than 2^64 bytes (wf_eid)"]

_R = {}      # line -> ("enc"|"spec"|"dec", record) for judged record lines   (cache; ADMENC/ADMSPEC/SRB lines are also
_S = {}      # line -> (clock, crc, pos, reason, src, B) for judged SRB lines   re-parsed from the line itself, see _lookup)
REASONS = list(range(0, 12)) + [12, 23, 24, 255, 256, 65535, 65536, U32 - 1]
CODES = [0, 2, 3, 23, 24, 255, 256, 65535, 65536, U32 - 2, U32 - 1]


# ------------------------------------------------------------------ record values ---------------------
# item:   (asserted, time, status_requested)
# record: ("SR", [items], reason, eid, t, seq, foff, flen) | ("UNK", code, data) | ("MIS", code, data)

def show_bool(b):
    return "T" if b else "F"


def show_record(r):
    if r[0] == "SR":
        _, items, reason, e, t, seq, foff, flen = r
        return "SR %d %s%d %s %d %d %d %d" % (len(items), "".join("I %s %d %s " % (show_bool(a), tm, show_bool(q)) for a, tm, q in items),
                                              reason, genb.show_eid(e), t, seq, foff, flen)
    d = r[2]
    if len(d) > 2000 and d == d[:1] * len(d):          # <data> ::= r<count>x<hex>: large contents on a short line
        return "%s %d r%dx%02x" % (r[0], r[1], len(d), d[0])
    return "%s %d %s" % (r[0], r[1], xhex(d))


def parse_record(t):
    k = t.next()
    if k == "SR":
        n = t.n()
        items = []
        for _ in range(n):
            assert t.next() == "I"
            a = t.next() == "T"
            tm = t.n()
            q = t.next() == "T"
            items.append((a, tm, q))
        return ("SR", items, t.n(), genb.parse_eid(t), t.n(), t.n(), t.n(), t.n())
    if k in ("UNK", "MIS"):
        return (k, t.n(), t.b())
    raise ValueError(k)


def ref_record(r):
    """RFC 9171 6.1 / 6.1.1: [type code, content]; status report content = [[status items], reason, source EID,
    [creation time, sequence], (fragment offset, fragment length)?]; status item = [asserted, (time)?]"""
    if r[0] == "SR":
        _, items, reason, e, t, seq, foff, flen = r
        its = [c_arr([b"\xf5" if a else b"\xf4"] + ([c_uint(tm)] if a and q else [])) for a, tm, q in items]
        content = [c_arr(its), c_uint(reason), genb.ref_eid(e), c_arr([c_uint(t), c_uint(seq)])]
        if flen != 0:
            content += [c_uint(foff), c_uint(flen)]
        return c_arr([c_uint(1), c_arr(content)])
    return c_arr([c_uint(r[1]), c_bytes(r[2])])


def normal_form(r):
    if r[0] == "SR":
        _, items, reason, e, t, seq, foff, flen = r
        for a, tm, q in items:
            if a and q:
                continue
            if tm != 0 or q:
                return False
        return flen != 0 or foff == 0
    return r[0] == "UNK" and r[1] != 1


def rnd_item(rng, nf=True):
    k = rng.randrange(3)
    if not nf and rng.random() < 0.6:
        return (rng.random() < 0.5, rnd_u64(rng), rng.random() < 0.5)
    if k == 0:
        return (False, 0, False)
    if k == 1:
        return (True, 0, False)
    return (True, rnd_u64(rng), True)


def rnd_reason(rng):
    r = rng.random()
    if r < 0.5:
        return rng.randrange(12)
    if r < 0.85:
        return rng.choice(REASONS)
    return rng.randrange(U32)


def rnd_report(rng, nf=True):
    r = rng.random()
    n = rng.randrange(0, 7) if r < 0.9 else rng.choice([4, 4, 23, 24, 25]) if r < 0.995 else 300
    items = [rnd_item(rng, nf) for _ in range(n)]
    if rng.random() < 0.5:
        foff, flen = 0, 0
    else:
        foff, flen = rnd_u64(rng), max(1, rnd_u64(rng))
    if not nf and rng.random() < 0.5:
        foff, flen = max(1, rnd_u64(rng)), 0
    return ("SR", items, rnd_reason(rng), genb.rnd_eid(rng), rnd_u64(rng), rnd_u64(rng), foff, flen)


def rnd_unknown(rng):
    code = rng.choice(CODES) if rng.random() < 0.7 else rng.randrange(2, U32)
    r = rng.random()
    if r < 0.1:
        data = b""
    elif r < 0.995:
        data = rnd_bytes(rng, 300)
    else:
        data = bytes([rng.choice([0, 0x5a, 0xff])]) * rng.choice([65535, 65536, 70000])
    return ("UNK", code, data)


def rnd_record(rng):
    return rnd_report(rng) if rng.random() < 0.7 else rnd_unknown(rng)


def _rec_lines(r):
    out = []
    for cmd, kind in (("ADMENC", "enc"), ("ADMSPEC", "spec")):
        l = "%s %s" % (cmd, show_record(r))
        _R[l] = (kind, r)
        out.append(l)
    ref = ref_record(r)
    if len(ref) <= 3000:                       # the shared tokenizer of the model is quadratic in the token length
        l = "ADMDEC " + xhex(ref)
        _R[l] = ("dec", r)
        out.append(l)
    return out


# ------------------------------------------------------------------ SRB cases -----------------------------

def _subject(rng, time_flag, nblocks=None):
    b = genb.rnd_bundle(rng, nblocks=nblocks if nblocks is not None else rng.choice([0, 0, 1, 2, 3, 5]), fragment=False)
    p = b["p"]
    if p["rpt"] == ("NONE", 1, 0):
        p["rpt"] = genb.rnd_eid(rng, allow_none=False)
    p["flags"] = (p["flags"] | 0x40) if time_flag else (p["flags"] & ~0x40)
    return b


def _srb_line(clock, crc, pos, reason, src, b, judged=True):
    l = "SRB %d %d %d %d %s %s" % (clock, crc, pos, reason, genb.show_eid(src), genb.show_bundle(b))
    if judged:
        _S[l] = (clock, crc, pos, reason, src, b)
    return l


def rnd_clock(rng):
    r = rng.random()
    if r < 0.3:
        return OFFSET + rng.choice([1, 2, 23, 24, 255, 256, 65535, 65536, 2 ** 32 - 1, 2 ** 32])
    if r < 0.7:
        return rng.randrange(OFFSET + 1, 4102444800000)          # 2000 .. 2100
    if r < 0.85:
        return rng.choice([2 ** 63 - 1, 2 ** 63, U64 - 2, U64 - 1, 253402300800000, 253402300799999])
    return rng.randrange(OFFSET + 1, U64)


def _srb_cases(rng, n):
    out = []
    for i in range(n):
        pos, crc, tf = i % 4, (i // 4) % 3, (i // 12) % 2 == 1
        b = _subject(rng, tf)
        src = genb.rnd_eid(rng)
        out.append(_srb_line(rnd_clock(rng), crc, pos, rnd_reason(rng), src, b))
    return out


def _srb_pairs(rng, n):
    """two or three reports made in a row by one thread: about the SAME bundle identity (source, creation timestamp) with one other field
    changed - 'status time requested' on / off, another report-to, another lifetime - or about the same bundle for another status item"""
    out = []
    for i in range(n):
        tf = i % 2 == 1
        b = _subject(rng, tf)
        b2 = dict(p=dict(b["p"]), cs=b["cs"])
        k = i % 4
        if k in (0, 1):
            b2["p"]["flags"] ^= 0x40
        elif k == 2:
            b2["p"]["rpt"] = genb.rnd_eid(rng, allow_none=False)
        else:
            b2["p"]["life"] = rnd_u64(rng)
        src, clock, crc = genb.rnd_eid(rng), rnd_clock(rng), rng.randrange(3)
        lines = [_srb_line(clock, crc, i % 4, rnd_reason(rng), src, b), _srb_line(clock, crc, (i + (1 if k == 3 else 0)) % 4, rnd_reason(rng), src, b2)]
        if i % 5 == 0:
            lines.append(_srb_line(clock, crc, i % 4, rnd_reason(rng), src, b))
        out.append("PAIR " + " || ".join(lines))
    return out


def _srb_outside(rng, n):
    """agreement only: inputs outside the property's domain"""
    out = []
    for _ in range(n):
        b = _subject(rng, rng.random() < 0.5, nblocks=rng.choice([0, 1, 2]))
        clock, crc, pos = rnd_clock(rng), rng.randrange(3), rng.randrange(4)
        k = rng.randrange(6)
        if k == 0:
            b = genb.rnd_bundle(rng, nblocks=1, fragment=True)
        elif k == 1:
            b["p"]["rpt"] = ("NONE", 1, 0)
        elif k == 2:
            pos = rng.choice([4, 5, 255, U32 - 1])
        elif k == 3:
            crc = rng.choice([3, 4, 255])
        elif k == 4:
            clock = rng.choice([0, 1, OFFSET - 1, OFFSET, rng.randrange(0, OFFSET)])
        else:
            b["p"]["rpt"] = ("NONE", 1, 0)
            clock = OFFSET - 1
        out.append(_srb_line(clock, crc, pos, rnd_reason(rng), genb.rnd_eid(rng), b, judged=False))
    return out


# ------------------------------------------------------------------ corpus / cases --------------------------

def corpus():
    import vlib
    rng = vlib.Rng(1212)
    out = []
    dtn = ("DTN", 1, b"//node1/incoming")
    recs = [
        ("SR", [(True, 0, False), (False, 0, False), (False, 0, False), (False, 0, False)], 0, ("IPN", 2, 1, 2), 10, 3, 0, 0),
        ("SR", [(False, 0, False)] * 3 + [(True, 1000, True)], 1, ("NONE", 1, 0), 0, 0, 5, 7),
        ("SR", [], 0, dtn, 0, 0, 0, 0),
        ("SR", [(True, U64 - 1, True)] * 6, U32 - 1, ("IPN", 2, U64 - 1, U64 - 1), U64 - 1, U64 - 1, U64 - 1, U64 - 1),
        ("SR", [(True, 0, True)], 12, dtn, 1, 2, 0, 1),                      # time 0 present
        ("SR", [(False, 0, False)] * 24, 5, dtn, 1, 2, 0, 0),                  # array head 0x98 0x18
        ("UNK", 0, b""), ("UNK", 2, b"\x82\x01\x00"), ("UNK", U32 - 1, bytes(range(256))), ("UNK", 24, b"\xff"),
        ("UNK", 3, b"\x00" * 65535), ("UNK", 3, b"\xff" * 65536),
    ]
    # unknown records whose opaque content happens to BE a complete status-report (or record) encoding: still opaque, still Unknown
    for code in (0, 2, 7, 255):
        for inner in (recs[0], recs[1], recs[2], recs[4]):
            body = ref_record(inner)
            recs.append(("UNK", code, body))            # the whole record encoding [1, [...]]
            if body[:2] == b"\x82\x01":
                recs.append(("UNK", code, body[2:]))    # just the status-report array
    for r in recs:
        out += _rec_lines(r)
    # outside the normal form / Mismatched: agreement only
    for r in [("SR", [(False, 5, True)], 0, dtn, 0, 0, 0, 0), ("SR", [(False, 0, True)], 0, dtn, 0, 0, 0, 0), ("SR", [], 0, dtn, 0, 0, 9, 0),
              ("UNK", 1, b""), ("UNK", 1, b"\x84\x80\x00\x82\x01\x00\x82\x00\x00"), ("MIS", 1, b"\x01"), ("MIS", 7, b"")]:
        out.append("ADMENC " + show_record(r))
    # decoder corner cases: indefinite arrays, wrong element counts, non-shortest heads, text instead of bytes, trailing data
    for h in ["9f0040ff", "820040", "82024100", "8201", "83024000", "820240ff", "8202616b", "82028101", "8218024100", "8201848000820100820000",
              "82019f80008201008200 00ff".replace(" ", ""), "82018480008201008200009f", "8201868000820100820000 0507".replace(" ", ""),
              "8201858000820100820000 05".replace(" ", ""), "82018481 9ff5ff 00 820100 820000".replace(" ", ""),
              "82018481 82f505 00 820100 820000".replace(" ", ""), "82018481 83f50505 00 820100 820000".replace(" ", ""),
              "82018481 81f6 00 820100 820000".replace(" ", ""), "82018481 8101 00 820100 820000".replace(" ", ""),
              "820184 80 1a00000000 820100 820000".replace(" ", ""), "820184 80 1b0000000100000000 820100 820000".replace(" ", ""),
              "820184 80 20 820100 820000".replace(" ", ""), "1a00000001", "c1" * 10 + "820240", "82 c101 84 80 00 820100 820000".replace(" ", ""),
              "82019f80008201008200000507ff", "820184819ff505ff00820100820000", "", "ff", "80", "8101"]:
        out.append("ADMDEC x" + h)
    # status-report bundles: every position x CRC type x time flag on a fixed subject, plus boundary clocks
    for tf in (False, True):
        b = _subject(rng, tf, nblocks=2)
        for pos in range(4):
            for crc in range(3):
                out.append(_srb_line(1790000000000, crc, pos, pos + 3 * crc, ("DTN", 1, b"//reporter/"), b))
    b = _subject(rng, True, nblocks=0)
    for clock in (OFFSET + 1, U64 - 1, 2 ** 63):
        out.append(_srb_line(clock, 1, 3, 1, ("IPN", 2, 7, 0), b))
    out += [_srb_line(OFFSET, 0, 0, 0, ("IPN", 2, 7, 0), b, judged=False), _srb_line(OFFSET - 1, 0, 0, 0, ("IPN", 2, 7, 0), b, judged=False)]
    return out


def cases(rng, tier):
    out = []
    n_rec = 2200 if tier == "quick" else 170000
    for _ in range(n_rec):
        out += _rec_lines(rnd_record(rng))
    for _ in range(n_rec // 8):                       # outside the normal form, Mismatched: agreement only
        r = rnd_report(rng, nf=False) if rng.random() < 0.7 else (rng.choice(["UNK", "MIS"]), rng.choice([1, 1, 0, 7, U32 - 1]), rnd_bytes(rng, 40))
        out.append("ADMENC " + show_record(r))
    for _ in range(n_rec // 2):                       # malformed stream
        buf = ref_record(rnd_report(rng) if rng.random() < 0.8 else rnd_unknown(rng))
        if len(buf) > 4000:
            continue
        for _ in range(rng.choice([1, 1, 2, 3])):
            buf = genb.mutate(rng, buf)
        out.append("ADMDEC " + xhex(buf))
    n_srb = 1200 if tier == "quick" else 100000
    out += _srb_cases(rng, n_srb)
    out += _srb_outside(rng, n_srb // 8)
    out += _srb_pairs(rng, n_srb // 8)
    return out


# ------------------------------------------------------------------ oracle -------------------------------------

def _judge_record(kind, r, out):
    toks = out.split(" ")
    if toks[0] != "OK":
        return "%s of a normal-form record fails: %s" % ("decoding" if kind == "dec" else "encoding", out[:40])
    if kind == "dec":
        got = parse_record(genb.T(toks[1:]))
        return None if got == r else "bytes of the RFC 9171 6.1 layout decode to a different record"
    ref = ref_record(r)
    if toks[1] != xhex(ref):
        return "encoding is not the RFC 9171 section 6.1 layout"
    if kind == "enc":
        if toks[2] != "DEC" or toks[3] == "ERR":
            return "the record's own encoding does not decode"
        got = parse_record(genb.T(toks[3:]))
        if got != r:
            return "decode(encode r) != r"
    return None


def _judge_srb(case, out):
    clock, crc, pos, reason, src, b = case
    toks = out.split(" ")
    if toks[0] != "OK":
        return "new_status_report_bundle does not return a bundle: %s" % out[:40]
    v = toks.index("V")
    R = genb.parse_bundle(genb.T(toks[1:v]))
    rec_at = toks.index("REC", v)
    validity = toks[v + 1:rec_at]
    p, q = b["p"], R["p"]
    if validity != ["VALID"]:
        return "report bundle is not valid (%s)" % " ".join(validity)
    if not q["flags"] & 0x2:
        return "report bundle is not flagged as administrative record"
    if q["dst"] != p["rpt"]:
        return "report bundle is not addressed to the subject's report-to endpoint"
    if q["src"] != src:
        return "report bundle is not sourced from the reporting node"
    if q["life"] != p["life"]:
        return "report bundle does not carry the subject's lifetime"
    if toks[rec_at + 1] in ("ERR", "NOPAYLOAD"):
        return "payload of the report bundle is not an administrative record (%s)" % toks[rec_at + 1]
    rec = parse_record(genb.T(toks[rec_at + 1:]))
    if rec[0] != "SR":
        return "payload is not a status report"
    _, items, rsn, e, t, seq, foff, flen = rec
    if e != p["src"] or (t, seq) != (p["t"], p["seq"]):
        return "status report does not reference the subject's source and creation timestamp"
    if [a for a, _, _ in items] != [i == pos for i in range(4)]:
        return "status report does not assert exactly the requested status item"
    want_time = bool(p["flags"] & 0x40)
    for i, (a, tm, rq) in enumerate(items):
        if i == pos:
            if rq != want_time:
                return "status time %s although the subject %s status times" % ("present" if rq else "absent", "requested" if want_time else "did not request")
            if want_time and tm != clock - OFFSET:
                return "status time is not the clock reading"
        elif rq:
            return "status time on a non-asserted item"
    if rsn != reason:
        return "status report carries a different reason code"
    return None


def _data_tok(tok):
    if tok.startswith("r"):
        n, pat = tok[1:].split("x", 1)
        return bytes.fromhex(pat) * int(n)
    return bytes.fromhex(tok[1:])


def _record_of_line(toks):
    """the record of an ADMENC / ADMSPEC case line (replay: the line is all there is)"""
    if toks[1] in ("UNK", "MIS"):
        return (toks[1], int(toks[2]), _data_tok(toks[3]))
    return parse_record(genb.T(toks[1:]))


def _lookup(line):
    """('rec', kind, r) | ('srb', case) | None = not judged (outside the property's domain)"""
    if line in _R:
        return ("rec",) + _R[line]
    if line in _S:
        return ("srb", _S[line])
    toks = line.split(" ")
    try:
        if toks[0] in ("ADMENC", "ADMSPEC"):
            r = _record_of_line(toks)
            if r[0] == "SR":
                in_range = r[2] < U32 and all(x < U64 for x in (r[4], r[5], r[6], r[7]) + tuple(i[1] for i in r[1]))
            else:
                in_range = r[1] < U32
            if normal_form(r) and in_range:
                return ("rec", "enc" if toks[0] == "ADMENC" else "spec", r)
        elif toks[0] == "SRB":
            t = genb.T(toks[1:])
            clock, crc, pos, reason = t.n(), t.n(), t.n(), t.n()
            src = genb.parse_eid(t)
            b = genb.parse_bundle(t)
            p = b["p"]
            src_ok = src[0] == "DTN" or src == ("NONE", 1, 0) or (src[0] == "IPN" and src[1] == 2 and src[2] >= 1)
            if (OFFSET < clock < U64 and crc <= 2 and pos < 4 and reason < U32 and src_ok and not p["flags"] & 1
                    and p["rpt"] != ("NONE", 1, 0) and p["ver"] == 7):
                return ("srb", (clock, crc, pos, reason, src, b))
    except (ValueError, IndexError, AssertionError):
        pass
    return None


def oracle(line, out, mode):
    cmd = line.split(" ", 1)[0]
    case = _lookup(line)
    if out in ("PANIC", "ABORT", "CRASH", "TIMEOUT"):
        if cmd == "SRB" and case is None and out == "PANIC":
            return None                           # outside the domain: unimplemented!() / unwrap / clock underflow are modelled
        return "%s aborts (%s)" % (cmd, out)
    if case is None:
        return None
    try:
        if case[0] == "rec":
            return _judge_record(case[1], case[2], out)
        return _judge_srb(case[1], out)
    except (ValueError, IndexError, AssertionError) as ex:
        return "unparsable result: %r" % (ex,)


def same(line, io, mo):
    """SRB: the property lists what a status-report bundle must be (valid administrative record, destination, source, lifetime, the
    report's reference / item / time / reason) and the oracle checks every item of that list on the implementation's bundle; everything
    else about the bundle (further control flags, CRC types of its blocks, extra blocks, what happens for subjects outside the
    quantifier) is the implementation's choice and is not compared with the model"""
    return line.split(" ", 2)[0] == "SRB" or (line.split(" ")[0] in ("D", "R") and line.split(" ")[1] == "SRB")


def classify(line, out):
    cmd = line.split(" ", 1)[0]
    toks = (out or "").split(" ")
    if cmd == "SRB":
        tag = "domain" if _lookup(line) else "outside"
        return "SRB:%s:%s" % (tag, toks[0])
    if cmd == "ADMDEC":
        return "ADMDEC:%s:%s" % ("ref" if line in _R else "malformed", toks[1] if toks[0] == "OK" and len(toks) > 1 else toks[0])
    kind = line.split(" ")[1] if " " in line else "?"
    return "%s:%s:%s:%s" % (cmd, kind, "nf" if _lookup(line) else "other", toks[0])


def nontrivial(line, out):
    return True


def search_cases(rng, tier, breaks):
    return cases(rng, "quick")
