"""C13 — bundle IDs identify bundles (K-id channel).

Case lines:
  ID <bundle>                    -> OK x<Bundle::id()> x<Bundle::to_string()>
  IDPAIR <bundle> | <bundle>     -> OK x<id 1> x<id 2> <T|F ids equal>
  IDREF <pos> <reason> <bundle>  -> OK x<new_status_report(&b,pos,reason).refbundle()> x<b.id()>  (PANIC for a fragment: unimplemented!())
The oracle judges the property on the implementation's output: for a pair, "IDs equal" must coincide with "same source
endpoint ID, creation time, sequence number, fragment-ness and (for fragments) offset"; for IDREF the reference must be the ID.
The full 'iff' is false by design of the ID format (Props/C13.v C13_refuted); failing pairs inside the two decidable classes
proved to be the only ones (C13_injective_outside_known) are classified by known_class, not reported:
  id-dash-source  one bundle is a fragment, the other is not, and the non-fragment's source text is the fragment's source
                  text followed by '-' and decimal digits
  id-none-name    equal source text, different source value (decoded dtn name "none" vs the none endpoint)"""
import re
import genb
from vlib import rnd_u64, U64, xhex

THEOREMS = ["C13_builder_route", "C13_received_report_refers", "C13_depends_only_on_ident", "C13_injective_outside_known", "C13_iff_outside_known", "C13_refuted", "C13_fragment_collides",
            "C13_known_none_name_narrow", "C13_refbundle"]
REPEAT = 2            # case lines repeated 66 000 times on one thread (state that builds up over many calls)
REPEAT_CMDS = ('ID',)
RELEASE = True          # debug and release builds of the harness (debug_assert!, overflow checks, cfg(debug_assertions))
RULE = ("IDPAIR: (a) adversarial re-splittings of one ID text 'T-n1-n2[-n3]' into (source, time, seq[, offset]) at every dash, sources "
        "and services containing '-' and digits, numeric fields that are prefixes/suffixes of one another, fragment vs non-fragment, "
        "dtn / ipn / none sources and decoder-image dtn names; (b) single-field perturbations: every field outside the identity "
        "(destination, report-to, lifetime, CRC, other flag bits, total length, offset of a non-fragment, blocks) must keep the ID, every "
        "identity field must change it; (c) random pairs. ID: random bundles of the C01 generator (model tie). IDREF: non-fragment bundles "
        "with all status positions / reasons (+ fragments for the tie only). A case is non-trivial when its line is distinct")
TRUSTED_BASE = ["Display for u64 / EndpointID and format! are modelled (Base/Decimal.v, Model/EidText.v, Model/BundleId.v), tied by K-id"]
ASSUMPTIONS = ["sources are endpoint IDs as the textual API or the CBOR decoder produce them (scheme code 1 / 2), u64 timestamp fields",
               "new_status_report on a fragment is unimplemented!() in the crate; the reference clause is judged for non-fragments"]
FRAG = 0x1
OTHER_FLAGS = [0x2, 0x4, 0x20, 0x40, 0x4000, 0x10000, 0x20000, 0x40000]
_P = {}

NODES = [b"n", b"node1", b"a-5", b"n-1", b"1", b"12", b"-", b"--", b"5-1", b"x-1-2", b"0", b"n-", b"-n", b"none", b"", b"a.b", b"10-2", b"n%2D1", b"a%41", b"GW1", b"gw1"]
SVCS = [b"", b"a", b"a-5", b"a-5-1", b"a-", b"-5", b"5", b"1-2-3", b"-", b"a-5-1-2", b"svc-01", b"a-05", b"a/b-1", b"~g-7", b"0-0", b"a-5x", b"a%2Db", b"a%2d5", b"%7Eg", b"my%20in", b"A-5"]
NUMS = [0, 1, 2, 5, 10, 11, 12, 21, 51, 100, 101, 123, 1234, 2 ** 32, 2 ** 63, U64 - 1, 18446744073709551610]


def eid_text(e):
    if e[0] == "DTN":
        return b"dtn:" + e[2]
    if e[0] == "NONE":
        return b"dtn:none"
    return b"ipn:%d.%d" % (e[2], e[3])


def mk(src, t, q, frag=False, off=0, flags=0, dst=("NONE", 1, 0), rpt=("NONE", 1, 0), life=3600000, flen=None, crc=("N",), cs=None):
    fl = (flags & ~FRAG) | (FRAG if frag else 0)
    p = dict(ver=7, flags=fl, crc=crc, dst=dst, src=src, rpt=rpt, t=t, seq=q, life=life, foff=off,
             flen=(flen if flen is not None else (min(U64 - 1, off + 10) if frag else 0)))
    return dict(p=p, cs=cs or [])


def ident(b):
    p = b["p"]
    fr = bool(p["flags"] & FRAG)
    return (p["src"], p["t"], p["seq"], fr, p["foff"] if fr else 0)


def pair_line(b1, b2):
    l = "IDPAIR %s | %s" % (genb.show_bundle(b1), genb.show_bundle(b2))
    _P[l] = (b1, b2)
    return l


def rnd_num(rng):
    return rng.choice(NUMS) if rng.random() < 0.6 else rnd_u64(rng)


def rnd_src(rng):
    r = rng.random()
    if r < 0.6:
        return ("DTN", 1, b"//" + rng.choice(NODES) + b"/" + rng.choice(SVCS))
    if r < 0.7:   # decoder-image names
        return ("DTN", 1, rng.choice([b"none", b"abc", b"a-1", b"none-1", b"x-1-2-3", b"-", b"1", b"//n", b"n/a-5"]))
    if r < 0.8:
        return ("NONE", 1, 0)
    return ("IPN", 2, max(1, rnd_num(rng)), rnd_num(rng))


def resplit_pairs(rng):
    """one ID text, every way of reading it back as (source, time, seq[, offset])"""
    base = rng.choice([b"//n/a", b"//n/", b"//a-5/b", b"//n/a-5", b"abc", b"//n/1", b"//1/2", b"//n/-"])
    nums = [rnd_num(rng) if rng.random() < 0.5 else rng.choice([0, 1, 2, 5, 12]) for _ in range(rng.choice([3, 4, 5]))]
    toks = [base] + [b"%d" % n for n in nums]
    readings = []
    for k in range(1, len(toks)):
        src = ("DTN", 1, b"-".join(toks[:k]))
        rest = nums[k - 1:]
        if len(rest) == 2:
            readings.append(mk(src, rest[0], rest[1]))
        elif len(rest) == 3:
            readings.append(mk(src, rest[0], rest[1], frag=True, off=rest[2]))
    out = []
    for i in range(len(readings)):
        for j in range(i + 1, len(readings)):
            out.append(pair_line(readings[i], readings[j]))
            out.append(pair_line(readings[j], readings[i]))
    return out


def dash_partner(b):
    """the colliding non-fragment partner of a dtn-sourced fragment (Coq: BundleIdProofs.partner)"""
    p = b["p"]
    return mk(("DTN", 1, p["src"][2] + b"-%d" % p["t"]), p["seq"], p["foff"])


def perturb(rng, b):
    """(b', identity_changed)"""
    p = dict(b["p"])
    k = rng.randrange(14)
    fr = bool(p["flags"] & FRAG)
    changed = False
    if k == 0:
        p["dst"] = rnd_src(rng)
    elif k == 1:
        p["rpt"] = rnd_src(rng)
    elif k == 2:
        p["life"] = rnd_num(rng)
    elif k == 3:
        p["flags"] ^= rng.choice(OTHER_FLAGS)
    elif k == 4:
        p["flen"] = rnd_num(rng)
    elif k == 5:
        p["crc"] = rng.choice([("N",), ("E16",), ("E32",), ("V16", b"\x01\x02"), ("V32", b"\x01\x02\x03\x04")])
    elif k == 6:
        if fr:
            new = rng.choice([p["foff"] + 1, max(0, p["foff"] - 1), rnd_num(rng), int(str(p["foff"]) + "0") % U64]) % U64
            changed = new != p["foff"]
            p["foff"] = new
        else:
            p["foff"] = rnd_num(rng)            # ignored for a non-fragment
    elif k == 7:
        new = rng.choice([p["t"] + 1, max(0, p["t"] - 1), rnd_num(rng), int(str(p["t"]) + str(p["seq"])) % U64]) % U64
        changed = new != p["t"]
        p["t"] = new
    elif k == 8:
        new = rng.choice([p["seq"] + 1, max(0, p["seq"] - 1), rnd_num(rng)]) % U64
        changed = new != p["seq"]
        p["seq"] = new
    elif k == 9:
        p["flags"] ^= FRAG
        changed = True
    elif k == 10:
        new = rnd_src(rng)
        changed = new != p["src"]
        p["src"] = new
    elif k == 11:
        s = p["src"]
        if s[0] == "DTN":
            new = ("DTN", 1, rng.choice([s[2] + b"-", s[2] + b"-1", s[2][:-1] or b"x", s[2] + b"/", s[2] + b"0"]))
        elif s[0] == "IPN":
            new = ("IPN", 2, s[2], (s[3] + 1) % U64)
        else:
            new = ("DTN", 1, b"none")
        changed = new != s
        p["src"] = new
    elif k == 12:    # swap time and sequence number
        changed = p["t"] != p["seq"]
        p["t"], p["seq"] = p["seq"], p["t"]
    else:
        cs = [dict(type=1, num=1, flags=0, crc=("N",), data=("DATA", b"payload"))]
        return dict(p=p, cs=cs), False
    return dict(p=p, cs=b["cs"]), changed


def rnd_bundle(rng):
    fr = rng.random() < 0.45
    fl = 0
    for f in OTHER_FLAGS:
        if rng.random() < 0.15:
            fl |= f
    return mk(rnd_src(rng), rnd_num(rng), rnd_num(rng), frag=fr, off=rnd_num(rng) if (fr or rng.random() < 0.2) else 0, flags=fl,
              dst=rnd_src(rng), rpt=rnd_src(rng), life=rnd_num(rng))


W1 = mk(("DTN", 1, b"//n/a-5"), 1, 2)
W2 = mk(("DTN", 1, b"//n/a"), 5, 1, frag=True, off=2, flen=100)
WITNESS = "IDPAIR %s | %s" % (genb.show_bundle(W1), genb.show_bundle(W2))
W3 = mk(("DTN", 1, b"none"), 1, 2)
W4 = mk(("NONE", 1, 0), 1, 2)
WITNESS_NONE = "IDPAIR %s | %s" % (genb.show_bundle(W3), genb.show_bundle(W4))


def corpus():
    out = [pair_line(W1, W2), pair_line(W2, W1), pair_line(W3, W4), pair_line(W1, W1), pair_line(W2, W2)]
    out.append(pair_line(mk(("DTN", 1, b"//n/a-5"), 1, 2), mk(("DTN", 1, b"//n/a"), 5, 1)))            # both non-fragments: no collision
    # received status reports about fragments: offset and length differ, offset 0 (first fragment), equal values
    import vlib
    r0 = vlib.Rng(131313)
    for off, flen in ((0, 10), (3, 10), (10, 3), (7, 7), (0, 0), (0, 1), (U64 - 1, 1), (1, U64 - 1)):
        out.append(srref_line(r0, ("DTN", 1, b"//n/a"), 5, 1, off, flen))
        out.append(srref_line(r0, ("IPN", 2, 23, 42), 1000, 0, off, flen))
        out.append(srref_line(r0, ("DTN", 1, b"//n/a"), 5, 1, off, flen, enc=True))
    # long source texts that agree on a long prefix (250..300 characters) and differ only behind it: the whole source is part of the ID
    for L in (20, 240, 247, 248, 249, 250, 256, 300, 1000):
        a, c = ("DTN", 1, b"//" + b"n" * L + b"/a"), ("DTN", 1, b"//" + b"n" * L + b"/c")
        out.append(pair_line(mk(a, 7, 9), mk(c, 7, 9)))
        out.append(pair_line(mk(a, 7, 9, frag=True, off=3), mk(c, 7, 9, frag=True, off=3)))
        out.append("IDREF 0 0 " + genb.show_bundle(mk(a, 7, 9, rpt=("DTN", 1, b"//r/"), cs=[dict(type=1, num=1, flags=0, crc=("N",), data=("DATA", b"x"))])))
    out.append(pair_line(mk(("DTN", 1, b"//n/a"), 51, 2), mk(("DTN", 1, b"//n/a"), 5, 12)))            # 51-2 vs 5-12
    out.append(pair_line(mk(("IPN", 2, 1, 2), 3, 4), mk(("IPN", 2, 1, 23), 4, 4)))
    out.append(pair_line(mk(("IPN", 2, 1, 2), 3, 4, frag=True, off=0), mk(("IPN", 2, 1, 2), 3, 4)))    # fragment offset 0 vs non-fragment
    out.append(pair_line(mk(("NONE", 1, 0), 0, 0), mk(("NONE", 1, 0), 0, 0, frag=True, off=0)))
    for b in (W1, W2, W3, W4):
        out.append("ID " + genb.show_bundle(b))
    out.append("IDREF 0 0 " + genb.show_bundle(W1))
    out.append("IDREF 3 9 " + genb.show_bundle(W3))
    out.append("IDREF 0 0 " + genb.show_bundle(W2))
    return out


_SR = {}


def srref_line(rng, src=None, t=None, q=None, off=None, flen=None, enc=False):
    """a status report as a peer puts it on the wire (Python reference encoding) about the bundle (src, t, q[, fragment off of flen])"""
    from props import c12
    src = src if src is not None else rnd_src(rng)
    t = t if t is not None else rnd_num(rng)
    q = q if q is not None else rnd_num(rng)
    if off is None:
        if rng.random() < 0.7:
            off, flen = rng.choice([0, 0, 1, 7, rnd_num(rng)]), rng.choice([1, 1, 10, rnd_num(rng) or 1])
        else:
            off, flen = 0, 0
    items = [(i == rng.randrange(4), 0, False) for i in range(4)]
    rec = ("SR", items, rng.choice([0, 1, 5]), src, t, q, off, flen)
    l = ("SRREFE " if enc else "SRREF ") + xhex(c12.ref_record(rec))
    _SR[l] = (src, t, q, off, flen)
    return l


def cases(rng, tier):
    scale = 1 if tier == "quick" else 40
    out = []
    for _ in range(1500 * scale):                          # received status reports: which bundle do they refer to
        out.append(srref_line(rng))
        out.append(srref_line(rng, enc=True))          # .. and still after this node re-encoded the record (store / forward)
    for _ in range(700 * scale):
        out += resplit_pairs(rng)
    for _ in range(3000 * scale):                          # collisions of the known class and their near misses
        b = mk(rnd_src(rng), rnd_num(rng), rnd_num(rng), frag=True, off=rnd_num(rng))
        if b["p"]["src"][0] != "DTN":
            b["p"]["src"] = ("DTN", 1, b"//" + rng.choice(NODES) + b"/" + rng.choice(SVCS))
        c = dash_partner(b)
        r = rng.random()
        if r < 0.5:
            c, _ = perturb(rng, c)
        elif r < 0.6:
            b, _ = perturb(rng, b)
        out.append(pair_line(b, c) if rng.random() < 0.5 else pair_line(c, b))
    for _ in range(9000 * scale):                          # single-field perturbations
        b = rnd_bundle(rng)
        c, _ = perturb(rng, b)
        out.append(pair_line(b, c))
    for _ in range(3000 * scale):
        out.append(pair_line(rnd_bundle(rng), rnd_bundle(rng)))
    for _ in range(2000 * scale):
        out.append("ID " + genb.show_bundle(genb.rnd_bundle(rng, nblocks=rng.choice([0, 1, 3]))))
    for _ in range(2500 * scale):
        b = rnd_bundle(rng)
        if rng.random() < 0.9:
            b["p"]["flags"] &= ~FRAG
        out.append("IDREF %d %d %s" % (rng.choice([0, 1, 2, 3, 4, 7, 2 ** 32 - 1]), rng.choice([0, 1, 5, 11, 12, 255, 2 ** 32 - 1]),
                                       genb.show_bundle(b)))
    return out


# ------------------------------------------------------------------------------------------------ oracle
def _bundles(line):
    if line in _P:
        return _P[line]
    toks = line.split(" ")
    bar = toks.index("|")
    return genb.parse_bundle(genb.T(toks[1:bar])), genb.parse_bundle(genb.T(toks[bar + 1:]))


def oracle(line, out, mode):
    cmd = line.split(" ", 1)[0]
    o = (out or "").split(" ")
    if out in ("BADCASE", "SKIP", "WRONGMODE"):
        return None
    if cmd == "IDPAIR" and out.startswith("ALTDIFF"):
        return ("the ID of a bundle depends on how its primary block was constructed: PrimaryBlockBuilder with the same source, "
                "timestamp, flags and fragment offset gives another ID than the public fields")
    if cmd == "IDPAIR":
        if o[0] != "OK":
            return "Bundle::id does not return normally: %s" % out[:30]
        b1, b2 = _bundles(line)
        same_id = o[1] == o[2]
        if (o[3] == "T") != same_id:
            return "harness inconsistency"
        same_ident = ident(b1) == ident(b2)
        if same_id and not same_ident:
            return "two bundles with different (source, timestamp, fragment offset) have the same ID %s" % bytes.fromhex(o[1][1:]).decode("utf-8", "replace")
        if same_ident and not same_id:
            return "the ID depends on something besides source, creation timestamp and fragment offset"
        return None
    if cmd in ("SRREF", "SRREFE"):
        if line not in _SR:
            return None
        src, t, q, off, flen = _SR[line]
        want = eid_text(src) + b"-%d-%d" % (t, q) + (b"-%d" % off if flen > 0 else b"")
        if out != "OK " + xhex(want):
            got = bytes.fromhex(o[1][1:]).decode("utf-8", "replace") if len(o) > 1 and o[1].startswith("x") else out[:40]
            return "a received status report about %s refers to %s" % (want.decode("utf-8", "replace"), got)
        return None
    if cmd == "ID":
        return None if o[0] == "OK" else "Bundle::id / to_string does not return normally: %s" % out[:30]
    if cmd == "IDREF":
        toks = line.split(" ")
        b = genb.parse_bundle(genb.T(toks[3:]))
        if b["p"]["flags"] & FRAG:
            return None                  # new_status_report is unimplemented!() for fragments (DESIGN.md section 11): tie only
        if o[0] != "OK":
            return "new_status_report / refbundle does not return normally for a non-fragment bundle: %s" % out[:30]
        if o[1] != o[2]:
            return "status report refers to %s, the bundle's ID is %s" % (o[1], o[2])
        return None
    return None


DASH_EXT = re.compile(rb"-[0-9]+\Z")


def _dash_ext(t1, t2):
    return t2.startswith(t1) and DASH_EXT.match(t2[len(t1):]) is not None


def known_class(line, out):
    """the decidable classes of Model/BundleId.v known_c13, evaluated on the case line"""
    if not line.startswith("IDPAIR "):
        return None
    b1, b2 = _bundles(line)
    f1, f2 = bool(b1["p"]["flags"] & FRAG), bool(b2["p"]["flags"] & FRAG)
    t1, t2 = eid_text(b1["p"]["src"]), eid_text(b2["p"]["src"])
    if (f1 and not f2 and _dash_ext(t1, t2)) or (f2 and not f1 and _dash_ext(t2, t1)):
        return "id-dash-source"
    if t1 == t2 and b1["p"]["src"] != b2["p"]["src"]:
        return "id-none-name"
    return None


def same(line, io, mo):
    return False


def classify(line, out):
    cmd = line.split(" ", 1)[0]
    o = (out or "").split(" ")
    if cmd == "IDPAIR" and o[0] == "OK":
        try:
            b1, b2 = _bundles(line)
            k = known_class(line, out)
            return "IDPAIR:id-%s:ident-%s%s" % ("same" if o[3] == "T" else "diff", "same" if ident(b1) == ident(b2) else "diff",
                                                 ":" + k if k else "")
        except Exception:
            pass
    return cmd + ":" + o[0]


def nontrivial(line, out):
    return True


def search_cases(rng, tier, breaks):
    return cases(rng, "quick")
