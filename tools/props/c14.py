"""C14 — C FFI: invalid input yields null; every returned object frees cleanly (K-ffi channel: call sequences against the
real extern "C" functions, one child process per case, counting allocator)."""
import genb
from vlib import xhex, rnd_u64, rnd_bytes, U64
from props.codec_common import CODEC_TRUSTED
from props import c07

THEOREMS = ["C14_no_abort_outside_new_default", "C14_null_on_invalid", "C14_null_on_empty", "C14_valid_gives_bundle", "C14_from_cbor_outcomes",
            "C14_agrees_with_rust_api", "C14_roundtrip_through_ffi", "C14_step_allocations", "C14_no_leak_no_double_free",
            "C14_net_allocations_zero", "C14_balanced_from", "C14_use_after_free_flagged", "C14_book_rejects_exactly_protocol_errors",
            "C14_aborts_only_on_caller_error", "C14_new_default_returns", "C14_pinned_refuted"]
OFFSET = 946684800000
RULE = ("FFI <op> ; <op> ...: call sequences create/decode -> query* -> free against bp7::ffi::* in a child process under a counting "
        "allocator. Buffers: valid bundles of the C01 domain (reference-encoder bytes, all CRC mixes, 0-40 blocks, empty payloads), "
        "bundles violating one validation rule, structure-aware mutants, random bytes, empty ({ptr,0} and {NULL,0}), bp7_buffer_test, "
        "helper_rnd_bundle. Sequences: every protocol-respecting order of META/PAYLOAD/TOCBOR/VALID and the three free functions "
        "of length <= 6 over one bundle and over two bundles (quick: <= 5 for two), re-decoding of re-encodings, bundle_new_default "
        "with the clock hook, plus seeded random walks; the examples/ffi/bp7-test.c sequence. Oracle on the implementation: "
        "undecodable/invalid -> NULL with no allocation left, never ABORT; valid -> non-NULL, metadata/payload/validity/re-encoding "
        "equal to the Python reference (metadata of a bundle whose EID text contains U+0000: NULL, nothing allocated); every free releases exactly what the creating call allocated; Buffer = struct + data "
        "(len > 0), metadata = struct + 2 strings; net allocations 0 once everything is freed. non-trivial = distinct line with at "
        "least one completed library call")
TRUSTED_BASE = CODEC_TRUSTED + [
    "harness/src/chan_ffi.rs: counting #[global_allocator] (per-thread live-allocation count around each call), #[repr(C)] mirror "
    "structs of Buffer / BundleMetaData, child process per case (abort = outcome)",
    "out-of-bounds reads/writes inside a call are runtime behaviour (ASan territory): not exhibited by the model or by allocation counts",
]
ASSUMPTIONS = ["the C caller follows bp7.h: live objects of the right kind, each freed once by its own free function (anything else is "
               "undefined behaviour in C and is never executed)",
               "bundle_new_default: invalid EID strings / dtn:none destination / {NULL,0} payload are caller errors (abort)",
               "clock not before 2000-01-01 for bundle_new_default"]
XCHECK = 60

_BUF = {}      # hex of a caller buffer -> dict(bundle=<genb bundle or None>, valid=True/False/None)


# ------------------------------------------------------------------ reference text of EIDs -----------------

def eid_text(e):
    if e[0] == "DTN":
        return b"dtn:" + e[2]
    if e[0] == "NONE":
        return b"dtn:none"
    return b"ipn:%d.%d" % (e[2], e[3])


def _parse_u64(s):
    if s.startswith(b"+") and len(s) > 1:
        s = s[1:]
    if not s or not all(48 <= c <= 57 for c in s):
        return None
    n = int(s)
    return n if n < U64 else None


def eid_parse(s):
    """EndpointID::try_from(&str) as ffi.rs uses it; None = error (unwrap -> abort)"""
    if b":" not in s:
        return None
    scheme, ssp = s.split(b":", 1)
    if scheme == b"dtn":
        if ssp == b"none":
            return ("NONE", 1, 0)
        if not ssp.startswith(b"//") or ssp == b"//none":
            return None
        return ("DTN", 1, ssp if b"/" in ssp[2:] else ssp + b"/")
    if scheme == b"ipn":
        f = ssp.split(b".")
        if len(f) != 2:
            return None
        a, b = _parse_u64(f[0]), _parse_u64(f[1])
        if a is None or b is None or a < 1:
            return None
        return ("IPN", 2, a, b)
    return None


def _utf8(s):
    try:
        s.decode("utf-8")
        return True
    except UnicodeDecodeError:
        return False


def new_args(src, dst):
    src, dst = src.split(b"\0")[0], dst.split(b"\0")[0]
    if not _utf8(src) or not _utf8(dst):
        return None
    se, de = eid_parse(src), eid_parse(dst)
    if se is None or de is None or de == ("NONE", 1, 0):
        return None
    return se, de


def payload_of(b):
    for c in b["cs"]:
        if c["type"] == 1 and c["data"][0] == "DATA" and c["num"] == 1:
            return c["data"][1]
    return None


# ------------------------------------------------------------------ buffers ---------------------------------

SAFE_FLAGS = [0x4, 0x20, 0x40, 0x4000, 0x10000, 0x20000, 0x40000]


def valid_bundle(rng, nblocks=None, crc_kind=None):
    """a bundle of the C01 domain that satisfies every validation rule"""
    for _ in range(50):
        if nblocks is None:
            r = rng.random()
            nb = 0 if r < 0.2 else rng.randrange(1, 5) if r < 0.85 else rng.randrange(5, 41)
        else:
            nb = nblocks
        frag = rng.random() < 0.15
        b = genb.reorder(rng, genb.rnd_bundle(rng, nblocks=nb, crc_kind=crc_kind, fragment=frag))
        f = 0x1 if frag else 0
        for bit in SAFE_FLAGS:
            if rng.random() < 0.3 and not (frag and bit == 0x4):
                f |= bit
        if rng.random() < 0.1:
            f = (f | 0x2) & ~(0x4000 | 0x10000 | 0x20000 | 0x40000)
        b["p"]["flags"] = f
        seen, cs = set(), []
        for c in b["cs"]:
            if c["type"] in (6, 7, 10):
                if c["type"] in seen:
                    continue
                seen.add(c["type"])
            c["flags"] &= 0x05
            cs.append(c)
        b["cs"] = cs
        if rng.random() < 0.15:
            b["p"]["t"] = 0
            if 7 not in seen:
                b["cs"].insert(0, dict(type=7, num=len(cs) + 5, flags=0, crc=("N",), data=("AGE", rnd_u64(rng))))
        else:
            b["p"]["t"] = max(1, b["p"]["t"])
        if rng.random() < 0.2 and len(b["cs"]) > 1:
            # a peer need not put the payload block last (validation does not look at the order): payload first or in the middle
            pb = b["cs"].pop()
            b["cs"].insert(rng.randrange(len(b["cs"])), pb)
        if c07.rules(b) and not c07.dont_care(b):
            return b
    raise RuntimeError("could not generate a valid bundle")


def _reg(buf, bundle=None, valid=None):
    h = xhex(buf)
    _BUF[h] = dict(bundle=bundle, valid=valid)
    return h


def buf_valid(rng, **kw):
    b = valid_bundle(rng, **kw)
    return _reg(genb.ref_bundle(b)[0], b, True)


def buf_invalid(rng):
    """decodable, but violating one validation rule -> NULL expected"""
    for _ in range(50):
        b = c07._violate(rng, valid_bundle(rng, nblocks=rng.randrange(0, 4)))
        if not c07.dont_care(b) and not c07.rules(b):
            return _reg(genb.ref_bundle(b)[0], b, False)
    return _reg(b"\x9f\xff", None, False)


def buf_mutant(rng):
    buf = genb.ref_bundle(valid_bundle(rng, nblocks=rng.randrange(0, 4)))[0]
    for _ in range(rng.choice([1, 1, 1, 2, 3])):
        buf = genb.mutate(rng, buf)
    return xhex(buf) if xhex(buf) in _BUF else _reg(buf, None, None)


def buf_random(rng):
    n = rng.choice([0, 1, 2, 3, 4, 8, 16, 40, 200])
    buf = bytes(rng.randrange(256) for _ in range(n))
    return xhex(buf) if xhex(buf) in _BUF else _reg(buf, None, None if n > 2 else False)


# ------------------------------------------------------------------ sequences -------------------------------

def enum_orders(nbundles, maxlen):
    """every protocol-respecting sequence of query/free calls of length <= maxlen over bundle handles 1..nbundles
    (handle 0 = the caller's buffer) that ends with every library object freed"""
    res = []
    start = tuple([(0, "C")] + [(i + 1, "B") for i in range(nbundles)])

    def rec(objs, nxt, seq):
        if seq and all(k == "C" for _, k in objs):
            res.append(seq)
            return
        if len(seq) >= maxlen:
            return
        for (h, k) in objs:
            rest = tuple(o for o in objs if o[0] != h)
            if k == "B":
                for q, nk in (("META", "M"), ("PAYLOAD", "F"), ("TOCBOR", "F")):
                    rec(objs + ((nxt, nk),), nxt + 1, seq + ["%s %d" % (q, h)])
                rec(objs, nxt, seq + ["VALID %d" % h])
                rec(rest, nxt, seq + ["BNDFREE %d" % h])
            elif k == "M":
                rec(rest, nxt, seq + ["MFREE %d" % h])
            elif k == "F":
                rec(rest, nxt, seq + ["BFREE %d" % h])
    rec(start, nbundles + 1, [])
    return res


def line(ops):
    return "FFI " + " ; ".join(ops)


C_EXAMPLE = ["RND", "FROM 0", "META 1", "MFREE 2", "PAYLOAD 1", "BFREE 3", "BNDFREE 1", "BFREE 0"]   # examples/ffi/bp7-test.c

NUL_SRC = "x9f880700008201652f2f642f788201662f2f6100622f8201008205001903e88501010000426869ff"   # source dtn://a\0b/
NUL_DST = "x9f880700008201652f2f642f008201652f2f61622f8201008205001903e88501010000426869ff"     # destination dtn://d/\0


def _new(src, dst, life, h, clock):
    return "NEW %s %s %d %d %d" % (xhex(src), xhex(dst), life, h, clock)


def corpus():
    import vlib
    rng = vlib.Rng(1414)
    out = [line(C_EXAMPLE), line(["TESTBUF", "BFREE 0"]), line(["TESTBUF", "FROM 0", "BFREE 0"])]
    # empty and undecodable buffers (D11: abort instead of NULL)
    for junk in ("x", "x00", "x9f", "x9fff", "xff", "x9f88", "x" + "ff" * 40):
        _BUF.setdefault(junk, dict(bundle=None, valid=False))
        out.append(line(["MK " + junk, "FROM 0", "DROP 0"]))
        out.append(line(["MK " + junk, "FROM 0", "FROM 0", "DROP 0"]))
    out.append(line(["MKNULL", "FROM 0", "DROP 0"]))
    # one valid bundle per CRC kind / size, the C example's sequence on a caller buffer, everything freed in creation and reverse order
    for nb, ck in [(0, 0), (0, 1), (0, 2), (1, None), (3, None), (22, 1), (23, 2), (24, None), (40, None)]:
        h = buf_valid(rng, nblocks=nb, crc_kind=ck)
        out.append(line(["MK " + h, "FROM 0", "META 1", "MFREE 2", "PAYLOAD 1", "BFREE 3", "BNDFREE 1", "DROP 0"]))
        out.append(line(["MK " + h, "FROM 0", "VALID 1", "TOCBOR 1", "META 1", "PAYLOAD 1", "BFREE 2", "MFREE 3", "BFREE 4", "BNDFREE 1", "DROP 0"]))
        out.append(line(["MK " + h, "FROM 0", "DROP 0", "TOCBOR 1", "META 1", "PAYLOAD 1", "BNDFREE 1", "BFREE 4", "MFREE 3", "BFREE 2"]))
        # re-encoding decodes again, to a bundle that re-encodes to the same bytes
        out.append(line(["MK " + h, "FROM 0", "TOCBOR 1", "FROM 2", "TOCBOR 3", "VALID 3", "META 3", "BNDFREE 1", "BFREE 2", "BFREE 4",
                         "MFREE 5", "BNDFREE 3", "DROP 0"]))
    # empty payload: Buffer {dangling, 0}
    b = valid_bundle(rng, nblocks=1)
    next(c for c in b["cs"] if c["type"] == 1)["data"] = ("DATA", b"")
    h = _reg(genb.ref_bundle(b)[0], b, True)
    out.append(line(["MK " + h, "FROM 0", "PAYLOAD 1", "PAYLOAD 1", "BFREE 2", "BFREE 3", "BNDFREE 1", "DROP 0"]))
    # a complete valid bundle followed by more bytes, and definite-length outer arrays announcing far more blocks than follow
    # (after a primary block that decodes): NULL, never an abort (capacity overflow / allocation failure) and never a "valid" bundle
    for nb in (0, 2):
        vb = valid_bundle(rng, nblocks=nb, crc_kind=rng.randrange(3))
        raw = genb.ref_bundle(vb)[0]
        for tail in (b"\x00", b"\xff", raw, b"\x9f\xff", b"\xf6" * 3):
            out.append(line(["MK " + _reg(raw + tail, None, False), "FROM 0", "DROP 0"]))
        body = raw[1:-1]
        for hd in (b"\x9b" + b"\xff" * 8, b"\x9b\x80" + b"\x00" * 7, b"\x9b\x00\x00\x00\x01" + b"\x00" * 4, b"\x9a\xff\xff\xff\xff", b"\x99\xff\xff",
                   bytes([0x80 + len(vb["cs"]) + 2]), b"\x98\x40"):
            out.append(line(["MK " + _reg(hd + body, None, False), "FROM 0", "DROP 0"]))
        # the honest definite-length form of the same bundle is a valid bundle
        out.append(line(["MK " + _reg(bytes([0x80 + len(vb["cs"]) + 1]) + body, vb, True), "FROM 0", "VALID 1", "TOCBOR 1", "BFREE 2", "BNDFREE 1", "DROP 0"]))
    # CRC fields of the wrong length (one byte more / one byte less than the CRC type says) in the primary block and in a canonical block:
    # NULL, never an abort (a decoder that copies the field into a fixed-size array must check the length first)
    for ck in (1, 2):
        vb = valid_bundle(rng, nblocks=1, crc_kind=ck)
        raw, _ = genb.ref_bundle(vb)
        n = 2 if ck == 1 else 4
        for (st, en) in genb.block_spans(vb):
            if raw[en - n - 1] != 0x40 + n:
                continue
            longer = raw[:en - n - 1] + bytes([0x40 + n + 1]) + raw[en - n:en] + b"\x00" + raw[en:]
            shorter = raw[:en - n - 1] + bytes([0x40 + n - 1]) + raw[en - n:en - 1] + raw[en:]
            empty = raw[:en - n - 1] + b"\x40" + raw[en:]
            for t in (longer, shorter, empty):
                out.append(line(["MK " + _reg(t, None, False), "FROM 0", "DROP 0"]))
    # a valid bundle in non-canonical but legal CBOR (payload as a chunked, indefinite-length byte string), decoded TWICE from the same
    # caller buffer: decoding must not write to the caller's memory, so the second decode gives the same bundle
    cb = dict(p=dict(ver=7, flags=0, crc=("N",), dst=("DTN", 1, b"//d/x"), src=("DTN", 1, b"//s/y"), rpt=("NONE", 1, 0), t=5, seq=0, life=1000,
                     foff=0, flen=0), cs=[dict(type=1, num=1, flags=0, crc=("N",), data=("DATA", b"ABC"))])
    canon = genb.ref_bundle(cb)[0]
    assert canon.endswith(bytes.fromhex("850101000043414243ff"))
    chunked = canon[:-5] + bytes.fromhex("5f42414241 43ff".replace(" ", "")) + b"\xff"
    h = _reg(chunked, cb, True)
    out.append(line(["MK " + h, "FROM 0", "FROM 0", "PAYLOAD 1", "PAYLOAD 2", "VALID 2", "TOCBOR 2", "BFREE 3", "BFREE 4", "BFREE 5", "BNDFREE 1", "BNDFREE 2", "DROP 0"]))
    # many bundles alive at the same time (beyond any small fixed table of live objects), all released afterwards
    h = buf_valid(rng, nblocks=1, crc_kind=0)
    for n in (65, 70, 130, 260):
        out.append(line(["MK " + h] + ["FROM 0"] * n + ["BNDFREE %d" % k for k in range(n, 0, -1)] + ["DROP 0"]))
    # invalid bundles -> NULL
    for _ in range(6):
        out.append(line(["MK " + buf_invalid(rng), "FROM 0", "DROP 0"]))
    # bundle_new_default
    clock = OFFSET + 1000
    out.append(line(["MK x414243", _new(b"dtn://node1/in", b"dtn://node2/out", 3600000, 0, clock), "VALID 1", "META 1", "PAYLOAD 1", "TOCBOR 1",
                     "FROM 4", "META 5", "MFREE 2", "BFREE 3", "BFREE 4", "MFREE 6", "BNDFREE 5", "BNDFREE 1", "DROP 0"]))
    out.append(line(["MK x", _new(b"ipn:1.2", b"ipn:+3.004", 0, 0, clock), _new(b"dtn://a", b"dtn://b", U64 - 1, 0, clock),
                     _new(b"dtn:none", b"dtn://c/~g", 5, 0, clock - 1), "META 1", "META 2", "META 3", "PAYLOAD 1", "VALID 3",
                     "BFREE 7", "MFREE 6", "MFREE 5", "MFREE 4", "BNDFREE 3", "BNDFREE 2", "BNDFREE 1", "DROP 0"]))
    out.append(line(["MK x41", _new(b"dtn://a/", b"dtn://b/", 1, 0, OFFSET), "VALID 1", "BNDFREE 1", "DROP 0"]))   # creation time 0, no age block
    # caller errors of bundle_new_default (abort, expected)
    for src, dst in [(b"abc", b"dtn://b/"), (b"dtn://a/", b"dtn:none"), (b"dtn://a/", b"dtn://none"), (b"ipn:0.1", b"dtn://b/"),
                     (b"dtn://a/", b"ipn:1"), (b"dtn://\xff/", b"dtn://b/"), (b"dtn://a/", b"ipn:1.18446744073709551616")]:
        out.append(line(["MK x41", _new(src, dst, 1, 0, clock)]))
    out.append(line(["MKNULL", _new(b"dtn://a/", b"dtn://b/", 1, 0, clock)]))
    # a valid bundle whose EID text contains U+0000 is not representable as a C string: bundle_get_metadata returns NULL
    # (the original code aborted in CString::new(..).unwrap()); everything else works on it
    for h, src, dst in ((NUL_SRC, b"//a\x00b/", b"//d/x"), (NUL_DST, b"//ab/", b"//d/\x00")):
        nb = dict(p=dict(ver=7, flags=0, crc=("N",), dst=("DTN", 1, dst), src=("DTN", 1, src), rpt=("NONE", 1, 0), t=5, seq=0, life=1000,
                         foff=0, flen=0), cs=[dict(type=1, num=1, flags=0, crc=("N",), data=("DATA", b"hi"))])
        assert xhex(genb.ref_bundle(nb)[0]) == h
        _BUF[h] = dict(bundle=nb, valid=True)
        out.append(line(["MK " + h, "FROM 0", "VALID 1", "META 1", "BNDFREE 1", "DROP 0"]))
        out.append(line(["MK " + h, "FROM 0", "META 1", "PAYLOAD 1", "TOCBOR 1", "META 1", "FROM 3", "META 4", "BFREE 2", "BFREE 3", "BNDFREE 4",
                         "BNDFREE 1", "DROP 0"]))
    return out


def _random_walk(rng, pool):
    """a random protocol-respecting sequence over several buffers / bundles, everything freed at the end"""
    ops, objs, nxt = [], {}, 0      # objs: handle -> (kind, decodes to a valid bundle?)
    last = None
    n_steps = rng.randrange(3, 14)

    def add(kind, info=None):
        nonlocal nxt
        objs[nxt] = (kind, info)
        nxt += 1
        return nxt - 1
    for _ in range(n_steps):
        live = list(objs.items())
        bundles = [h for h, (k, _) in live if k == "B"]
        bufs = [h for h, (k, i) in live if k in ("C", "F")]
        r = rng.random()
        if not live or r < 0.15:
            ops.append("MK " + rng.choice(pool))
            add("C", True)
        elif r < 0.2:
            ops.append("TESTBUF")
            add("F", False)
        elif r < 0.4 and bufs:
            h = rng.choice(bufs)
            ops.append("FROM %d" % h)
            if objs[h][1]:
                add("B", True)
        elif r < 0.47 and bufs:
            h = rng.choice(bufs)
            src = rng.choice([b"dtn://n1/a", b"ipn:7.1", b"dtn://x", b"dtn:none"])
            dst = rng.choice([b"dtn://n2/~g", b"ipn:1.0", b"dtn://y/z"])
            now = rng.choice([0, 1, 1000, 1000, 999, 10 ** 12])
            ops.append(_new(src, dst, rnd_u64(rng), h, OFFSET + now))
            last = (last[0], last[1] + 1) if last is not None and now <= last[0] else (now, 0)
            add("B", last[0] != 0)      # creation time 0 without a bundle age block does not validate
        elif bundles and r < 0.85:
            h = rng.choice(bundles)
            q = rng.choice(["META", "PAYLOAD", "TOCBOR", "VALID", "VALID"])
            ops.append("%s %d" % (q, h))
            if q == "META":
                add("M")
            elif q == "PAYLOAD":
                add("F", False)
            elif q == "TOCBOR":
                add("F", objs[h][1])
        elif live:
            h, (k, _) = rng.choice(live)
            ops.append({"C": "DROP", "F": "BFREE", "B": "BNDFREE", "M": "MFREE"}[k] + " %d" % h)
            del objs[h]
    rest = list(objs.items())
    rng.shuffle(rest)
    for h, (k, _) in rest:
        ops.append({"C": "DROP", "F": "BFREE", "B": "BNDFREE", "M": "MFREE"}[k] + " %d" % h)
    return line(ops)


EID_TEXTS = [b"dtn:none", b"dtn://n", b"dtn://n/", b"dtn://n/svc", b"dtn://n/~grp", b"dtn:/x", b"dtn:x", b"dtn:", b"dtn://", b"dtn:///", b"dtn://none",
             b"dtn://none/", b"dtn://none/x", b"dtn:none/", b"ipn:1.2", b"ipn:1.0", b"ipn:0.1", b"ipn:0.0", b"ipn:1.2.3", b"ipn:1", b"ipn:.", b"ipn:1.",
             b"ipn:.2", b"ipn:+1.+2", b"ipn:-1.2", b"ipn:1.-2", b"ipn:+.1", b"ipn:007.010", b"ipn: 1.2", b"ipn:18446744073709551615.18446744073709551615",
             b"ipn:18446744073709551616.1", b"ipn:1.18446744073709551616", b"http://x/", b"", b":", b"::", b"dtn", b"ipn", b"DTN://n/", b"dtn:://n/",
             "dtn://knoten-\u00e4/\u20ac".encode(), b"dtn://a\xff/", b"\xc3(", b"dtn://a\x00b/", b"ipn:1.2\x00junk", b"\x00dtn://a/", b"dtn://a/b/c/d", b"dtn://a//"]


def _rnd_eid_text(rng):
    r = rng.random()
    if r < 0.75:
        return rng.choice(EID_TEXTS)
    if r < 0.9:     # splice two texts
        a, b = rng.choice(EID_TEXTS), rng.choice(EID_TEXTS)
        return a[:rng.randrange(len(a) + 1)] + b[rng.randrange(len(b) + 1):]
    return bytes(rng.choice(b"dtnip:/.+-0129~ax\x00\xc3\xa4") for _ in range(rng.randrange(0, 12)))


def cases(rng, tier):
    out = []
    # bundle_new_default on valid and invalid EID texts (abort exactly on the caller errors), then the full query/free cycle
    for _ in range(400 if tier == "quick" else 20000):
        src, dst = _rnd_eid_text(rng), _rnd_eid_text(rng)
        if rng.random() < 0.5:
            src = rng.choice([b"dtn://n1/a", b"ipn:7.1", b"dtn:none"])
        if rng.random() < 0.5:
            dst = rng.choice([b"dtn://n2/~g", b"ipn:1.0", b"dtn://y/z"])
        pl = rnd_bytes(rng, 40)
        out.append(line(["MK " + xhex(pl), _new(src, dst, rnd_u64(rng), 0, OFFSET + rng.choice([1, 1000, 10 ** 12, U64 - 1 - OFFSET])),
                         "META 1", "PAYLOAD 1", "TOCBOR 1", "FROM 4", "VALID 1", "BFREE 3", "MFREE 2", "BNDFREE 5", "BFREE 4", "BNDFREE 1", "DROP 0"]))
    pool = [buf_valid(rng) for _ in range(60 if tier == "quick" else 400)]
    one = enum_orders(1, 6)
    two = enum_orders(2, 5 if tier == "quick" else 6)
    for i, seq in enumerate(one):
        out.append(line(["MK " + pool[i % len(pool)], "FROM 0"] + seq + ["DROP 0"]))
    if tier == "quick":
        two = [s for i, s in enumerate(two) if len(s) <= 4 or i % 2 == 0]
    for i, seq in enumerate(two):
        h = pool[(7 * i + 3) % len(pool)]
        # the second bundle: the same buffer decoded twice (two independent boxes)
        out.append(line(["MK " + h, "FROM 0", "FROM 0"] + seq + ["DROP 0"]))
    # not-a-bundle buffers; if a mutant still happens to be a valid bundle the rest of the line exercises it
    n_bad = 300 if tier == "quick" else 6000
    for i in range(n_bad):
        h = buf_mutant(rng) if i % 3 else buf_random(rng)
        out.append(line(["MK " + h, "FROM 0", "VALID 1", "TOCBOR 1", "META 1", "PAYLOAD 1", "BFREE 4", "MFREE 3", "BFREE 2", "BNDFREE 1", "DROP 0"]))
    for _ in range(60 if tier == "quick" else 1000):
        out.append(line(["MK " + buf_invalid(rng), "FROM 0", "DROP 0"]))
    for _ in range(300 if tier == "quick" else 20000):
        out.append(_random_walk(rng, pool))
    for _ in range(3 if tier == "quick" else 50):
        out.append(line(C_EXAMPLE))          # helper_rnd_bundle is random: every run is a different bundle (de-duplicated line, run once)
    return out


# ------------------------------------------------------------------ oracle ----------------------------------

def _ops_of(line_):
    toks = line_.split(" ")
    if toks[0] != "FFI":
        return None
    ops, cur = [], []
    for t in toks[1:]:
        if t == ";":
            ops.append(cur)
            cur = []
        else:
            cur.append(t)
    ops.append(cur)
    return ops


def _delta(tok):
    return int(tok[1:]) if tok.startswith("d") else None


def _model_bundle_new(se, de, life, t, seq, data):
    return dict(p=dict(ver=7, flags=4, crc=("N",), dst=de, src=se, rpt=se, t=t, seq=seq, life=life, foff=0, flen=0),
                cs=[dict(type=1, num=1, flags=0, crc=("N",), data=("DATA", data))])


def _undecided_eid_text(op):
    """bundle_new_default takes endpoint IDs as TEXT: a text C10 neither requires to be accepted nor to be rejected (a '+' sign or
    leading zeros in ipn numbers, dtn://node without the trailing slash) may be taken or refused"""
    from props import c10
    try:
        return any(c10.classify_text(bytes.fromhex(x[1:]))[0].startswith("other-") for x in op[1:3])
    except ValueError:
        return True


def oracle(line_, out, mode):
    if not _BUF:
        corpus()
    if out in ("BADCASE", "SKIP"):
        return None
    if out is None or not out.startswith("OK"):
        return "harness failure: %s" % (out or "")[:40]
    ops = _ops_of(line_)
    if ops is None:
        return None
    res = out[3:].split(" ; ") if len(out) > 3 else []
    objs = {}          # handle -> dict(kind, made (delta of the creating call), bytes, bundle, valid)
    nxt = 0
    last = None        # static LAST of CreationTimestamp::now
    net = 0
    for i, op in enumerate(ops):
        if i >= len(res):
            return "fewer results than calls"
        r = res[i].split(" ")
        name = op[0]
        if r[0] in ("TIMEOUT", "SPAWNFAIL"):
            return "call %d (%s) did not finish: %s" % (i, name, r[0])
        if r[0] == "PROTOCOL":
            return None        # the generator (or an earlier NULL on a not-known-valid buffer) made the rest of the line meaningless
        if r[0] == "ABORT":
            if name == "NEW":
                a = new_args(bytes.fromhex(op[1][1:]), bytes.fromhex(op[2][1:]))
                src = objs.get(int(op[4]))
                if a is None or (src is not None and src["bytes"] is None) or int(op[5]) < OFFSET or _undecided_eid_text(op):
                    return None      # caller error (documented by the unwraps / asserts of bundle_new_default)
                return "bundle_new_default aborts the process on valid arguments"
            if name == "META":
                return "bundle_get_metadata aborts the process (an EID text with a NUL byte must give NULL)"
            if name == "FROM":
                return "bundle_from_cbor aborts the process instead of returning NULL"
            return "%s aborts the process" % name
        d = _delta(r[-1])
        if name in ("MK", "MKNULL"):
            if r != ["H%d" % nxt]:
                return "harness: unexpected MK result"
            b = bytes.fromhex(op[1][1:]) if name == "MK" else None
            info = _BUF.get(op[1], {}) if name == "MK" else dict(valid=False)
            objs[nxt] = dict(kind="C", made=0, bytes=b, bundle=info.get("bundle"), valid=info.get("valid"))
            nxt += 1
            continue
        if name == "DROP":
            objs.pop(int(op[1]), None)
            continue
        if d is None:
            return "no allocation delta reported for %s" % name
        net += d
        if name in ("TESTBUF", "RND"):
            if r[0] != "H%d" % nxt or len(r) != 3:
                return "harness: unexpected %s result" % name
            b = bytes.fromhex(r[1][1:])
            if name == "TESTBUF" and b != b"BCDE":
                return "bp7_buffer_test content"
            if d != 2:
                return "%s allocates %d objects (Buffer struct + data = 2)" % (name, d)
            objs[nxt] = dict(kind="F", made=d, bytes=b, bundle=None, valid=(True if name == "RND" else False), rnd=(name == "RND"))
            nxt += 1
        elif name == "FROM":
            src = objs.get(int(op[1]))
            if src is None:
                return None
            if r[0] == "NULL":
                if d != 0:
                    return "bundle_from_cbor returned NULL but left %d allocation(s) behind" % d
                if src["valid"] is True:
                    return "bundle_from_cbor returns NULL for a valid bundle"
            else:
                if r[0] != "H%d" % nxt:
                    return "harness: unexpected handle"
                if src["valid"] is False:
                    return "bundle_from_cbor accepts a buffer that is not a valid bundle"
                if d < 1:
                    return "bundle_from_cbor returned a bundle without allocating"
                objs[nxt] = dict(kind="B", made=d, bundle=src["bundle"], from_bytes=src["bytes"], decoded=True,
                                 reenc=src["bytes"] if src.get("rnd") or src.get("is_reenc") else None)
                nxt += 1
        elif name == "NEW":
            a = new_args(bytes.fromhex(op[1][1:]), bytes.fromhex(op[2][1:]))
            src = objs.get(int(op[4]))
            if src is None:
                return None
            if a is None or src["bytes"] is None or int(op[5]) < OFFSET:
                return None      # a caller error: the property does not say what happens (the pinned code aborts; NULL is just as good)
            if r[0] != "H%d" % nxt or d < 1:
                return "bundle_new_default did not return a fresh bundle"
            now = int(op[5]) - OFFSET
            last = (last[0], last[1] + 1) if last is not None and now <= last[0] else (now, 0)
            objs[nxt] = dict(kind="B", made=d, bundle=_model_bundle_new(a[0], a[1], int(op[3]), last[0], last[1], src["bytes"]),
                             decoded=False, reenc=None)
            nxt += 1
        elif name in ("TOCBOR", "PAYLOAD", "META", "VALID"):
            bo = objs.get(int(op[1]))
            if bo is None or bo["kind"] != "B":
                return None
            mb = bo["bundle"]
            if name == "VALID":
                if d != 0:
                    return "bundle_is_valid changes the number of live allocations by %d" % d
                want = True if bo["decoded"] else (None if mb is None or c07.dont_care(mb) else c07.rules(mb))
                if want is not None and r[0] != ("T" if want else "F"):
                    return "bundle_is_valid = %s, the validation rules say %s" % (r[0], "T" if want else "F")
                continue
            if name == "META":
                nul = None if mb is None else (b"\0" in eid_text(mb["p"]["src"]) or b"\0" in eid_text(mb["p"]["dst"]))
                if r[0] == "NULL":
                    if d != 0:
                        return "bundle_get_metadata returned NULL but left %d allocation(s) behind" % d
                    if nul is False:
                        return "bundle_get_metadata returns NULL for a bundle whose EID texts are C strings"
                    continue
                if nul is True:
                    return "bundle_get_metadata returned metadata for an EID text containing a NUL byte"
            if r[0] != "H%d" % nxt:
                return "harness: unexpected handle"
            if name == "META":
                if d != 3:
                    return "bundle_get_metadata allocates %d objects (struct + 2 strings = 3)" % d
                if mb is not None:
                    p = mb["p"]
                    want = [xhex(eid_text(p["src"])), xhex(eid_text(p["dst"])), str(p["t"]), str(p["seq"]), str(p["life"])]
                    if r[1:6] != want:
                        return "metadata differs from the bundle (src, dst, time, seq, lifetime)"
                objs[nxt] = dict(kind="M", made=d)
            else:
                data = None if r[1] == "NODATA" else bytes.fromhex(r[1][1:])
                wantd = 1 + (1 if data else 0)
                if d != wantd:
                    return "%s: %d allocation(s) for a Buffer with %s bytes (expected %d)" % (name, d, "no" if not data else len(data), wantd)
                if name == "PAYLOAD":
                    if mb is not None and data != payload_of(mb):
                        return "bundle_payload differs from the bundle's payload"
                    if data is None:
                        return "bundle_payload: no payload in a validated bundle"
                    objs[nxt] = dict(kind="F", made=d, bytes=data, bundle=None, valid=None)
                else:
                    if mb is not None and data != genb.ref_bundle(mb)[0]:
                        return "bundle_to_cbor differs from the reference encoding of the bundle"
                    if bo.get("reenc") is not None and data != bo["reenc"]:
                        return "re-encoding is not stable (differs from the bytes this bundle was decoded from / encoded to before)"
                    bo["reenc"] = data
                    objs[nxt] = dict(kind="F", made=d, bytes=data, bundle=mb, is_reenc=True,
                                     valid=True if bo["decoded"] else None)
            nxt += 1
        elif name in ("BFREE", "BNDFREE", "MFREE"):
            o = objs.pop(int(op[1]), None)
            if o is None:
                return None
            if d != -o["made"]:
                what = {"BFREE": "buffer_free", "BNDFREE": "bundle_free", "MFREE": "bundle_metadata_free"}[name]
                return "%s releases %d of the %d allocation(s) made for the object: %d leaked" % (what, -d, o["made"], o["made"] + d)
        else:
            return None
    if len(res) != len(ops) + 1 or not res[-1].startswith("NET "):
        return "missing NET/LIVE summary"
    t = res[-1].split(" ")
    live_objs = sum(1 for o in objs.values() if o["kind"] != "C")
    if int(t[3]) != live_objs:
        return "harness: LIVE %s, expected %d" % (t[3], live_objs)
    if live_objs == 0 and int(t[1]) != 0:
        return "every object was freed but %s allocation(s) made by the library are still live" % t[1]
    return None


def known_class(line_, out):
    return None


def same(line_, io, mo):
    # helper_rnd_bundle is random: the model cannot know the bytes (BADCASE on the model side), the oracle judges the line
    if " RND" in line_ and mo == "BADCASE":
        return True
    # caller errors (invalid arguments of bundle_new_default, calls on NULL handles): the model follows the pinned code and predicts an
    # abort; the property does not say what happens there, so from the first call the model answers with ABORT on, nothing is compared
    if io and mo and io.startswith("OK") and mo.startswith("OK"):
        a, b = io[3:].split(" ; "), mo[3:].split(" ; ")
        ops = _ops_of(line_) or []
        for i, (x, y) in enumerate(zip(a, b)):
            if x != y:
                if i < len(ops) and ops[i][0] == "NEW" and _undecided_eid_text(ops[i]):
                    return True
                return y.split(" ")[0] == "ABORT"
        return len(a) != len(b) and len(b) < len(a) and False
    return False


def classify(line_, out):
    o = out or ""
    tag = "abort" if o.endswith("ABORT") else "protocol" if o.endswith("PROTOCOL") else "null" if "NULL d0" in o else "ok"
    n = min(len(_ops_of(line_) or []), 15)
    return "%s:%d-calls" % (tag, n)


def nontrivial(line_, out):
    return out is not None and " d" in out


def search_cases(rng, tier, breaks):
    return cases(rng, "quick")
