"""C15 — JSON codec round trip (K-json channel: JSON <bundle>, JTOK <token tree>, JSONDEC x<text>)."""
import json

import genb
from vlib import rnd_u64, xhex, U64
from props.codec_common import CODEC_TRUSTED, boundary_bundles, same_content, crcs_filled, split_out

THEOREMS = ["C15_json_roundtrip", "C15_decode_encode", "C15_text_is_print", "C15_idempotent", "C15_pinned_refuted"]
REPEAT = 1            # case lines repeated 66 000 times on one thread (state that builds up over many calls)
REPEAT_CMDS = ('JSON',)
RELEASE = True          # debug and release builds of the harness (debug_assert!, overflow checks, cfg(debug_assertions))
RULE = ("JSON <bundle>: the implementation serialises with Bundle::to_json and parses its own text back with Bundle::try_from(String); "
        "bundles drawn over the C01 domain (0-40 extension blocks plus 22/23/24/25/300-block cases, every CRC type and prior CRC state per "
        "block, dtn/ipn/none EIDs incl. names with quotes, backslashes, control characters and multi-byte UTF-8, boundary-biased u64 "
        "fields, fragments and non-fragments, unknown block types, empty payloads); oracle: parsed-back bundle = bundle with the CRCs of an "
        "independent Python reference, JSON text = independent Python rendering; JTOK <tree>: from_tokens vs try_from on mutated token "
        "trees (correspondence only); non-trivial = distinct JSON line whose bundle is a fragment, has a CRC or an extension block")
TRUSTED_BASE = CODEC_TRUSTED + [
    "serde_json 1.0.151: the serde token interface (size_hint None, end_seq, what a failed element consumes) is modelled in Model/Json.v and "
    "tied by the K-json channel; its TEXT layer (lexer, escapes, number syntax) is trusted: parse(print t) = t is not proved — the printer is "
    "diffed byte for byte against to_json and against Python's json.dumps on every run",
]
ASSUMPTIONS = ["well-formed bundles: Duration lifetimes are whole milliseconds below 2^64 (the encoder truncates as_millis() to u64)",
               "endpoint names are valid UTF-8 (Rust String)"]

TRICKY = [b'//d"q/x', b"//b\\s/", b"//nl\n/x", b"//tab\t\r/\x08\x0c", b"//c\x01\x1f\x7f/", "//uä€\U0001f680/ ".encode(),
          b"//a/\"\\\"", b"/", b"\x00", b"\\u0041", b"//x/</script>"]


# ------------------------------------------------------------------ Python reference for the JSON form ---------

def _j_eid(e):
    if e[0] == "DTN":
        return [e[1], e[2].decode("utf-8")]
    if e[0] == "NONE":
        return [e[1], e[2]]
    return [e[1], [e[2], e[3]]]


def _j_crc(c):
    return [list(c[1])] if c[0] in ("V16", "V32") else []


def _raw(d):
    k = d[0]
    if k in ("DATA", "UNK"):
        return d[1]
    if k == "AGE":
        return genb.c_uint(d[1])
    if k == "HOP":
        return genb.c_arr([genb.c_uint(d[1]), genb.c_uint(d[2])])
    if k == "PREV":
        return genb.ref_eid(d[1])
    return b"\xf6"


def ref_tree(b):
    """token tree (nested python lists) of the JSON form of a bundle whose CRC values are already the reference ones"""
    p = b["p"]
    jp = [p["ver"], p["flags"], genb.crc_type(p["crc"]), _j_eid(p["dst"]), _j_eid(p["src"]), _j_eid(p["rpt"]), [p["t"], p["seq"]], p["life"]]
    if p["flags"] & genb.IS_FRAGMENT:
        jp += [p["foff"], p["flen"]]
    jp += _j_crc(p["crc"])
    out = [jp]
    for c in b["cs"]:
        out.append([c["type"], c["num"], c["flags"], genb.crc_type(c["crc"]), list(_raw(c["data"]))] + _j_crc(c["crc"]))
    return out


def ref_text(tree):
    return json.dumps(tree, separators=(",", ":"), ensure_ascii=False).encode("utf-8")


def show_tree(t):
    if t is True:
        return "T"
    if t is False:
        return "F"
    if t is None:
        return "Z"
    if isinstance(t, int):
        return "N %d" % t
    if isinstance(t, str):
        return "S " + xhex(t.encode("utf-8"))
    return "[ " + "".join(show_tree(x) + " " for x in t) + "]"


# ------------------------------------------------------------------ cases ---------------------------------------

def _line(b):
    return "JSON " + genb.show_bundle(b)


def _tricky(rng, b):
    """replace some endpoint names by strings that need JSON escaping"""
    for k in ("dst", "src", "rpt"):
        if rng.random() < 0.5:
            b["p"][k] = ("DTN", 1, rng.choice(TRICKY))
    for c in b["cs"]:
        if c["data"][0] == "PREV" and rng.random() < 0.5:
            c["data"] = ("PREV", ("DTN", 1, rng.choice(TRICKY)))
    return b


def _fixed(flags, crc, foff, flen, ccrc=("N",)):
    p = dict(ver=7, flags=flags, crc=crc, dst=("DTN", 1, b"//d/x"), src=("NONE", 1, 0), rpt=("IPN", 2, 5, 7), t=1000, seq=2, life=3600000,
             foff=foff, flen=flen)
    cs = [dict(type=10, num=2, flags=0, crc=ccrc, data=("HOP", 32, 1)), dict(type=1, num=1, flags=0, crc=("N",), data=("DATA", b"\x01\x02"))]
    return dict(p=p, cs=cs)


JTOK_WITNESSES = [
    # dtn:none from [1,0] / [1,null] / [1,true] / [1] / [1,""] / [1,2^64]; an array or a third element in that place fails
    "JTOK [ [ N 7 N 0 N 0 [ N 1 N 0 ] [ N 1 Z ] [ N 1 ] [ N 0 N 0 ] N 0 ] [ N 1 N 1 N 0 N 0 [ N 1 ] ] ]",
    "JTOK [ [ N 7 N 0 N 0 [ N 1 T ] [ N 1 S x ] [ N 1 N 18446744073709551616 ] [ N 0 N 0 ] N 0 ] [ N 1 N 1 N 0 N 0 S x6162 ] ]",
    "JTOK [ [ N 7 N 0 N 0 [ N 1 [ N 2 ] ] [ N 1 N 0 ] [ N 1 N 0 ] [ N 0 N 0 ] N 0 ] [ N 1 N 1 N 0 N 0 [ N 1 ] ] ]",
    "JTOK [ [ N 7 N 0 N 0 [ N 1 [ ] ] [ N 1 N 0 ] [ N 1 N 0 ] [ N 0 N 0 ] N 0 ] [ N 1 N 1 N 0 N 0 [ N 1 ] ] ]",
    "JTOK [ [ N 7 N 0 N 0 [ N 1 N 0 N 5 ] [ N 1 N 0 ] [ N 1 N 0 ] [ N 0 N 0 ] N 0 ] [ N 1 N 1 N 0 N 0 [ N 1 ] ] ]",
    # fragment flag without / with the fragment fields, fields without the flag
    "JTOK [ [ N 7 N 1 N 0 [ N 1 N 0 ] [ N 1 N 0 ] [ N 1 N 0 ] [ N 0 N 0 ] N 0 ] [ N 1 N 1 N 0 N 0 [ N 1 ] ] ]",
    "JTOK [ [ N 7 N 1 N 0 [ N 1 N 0 ] [ N 1 N 0 ] [ N 1 N 0 ] [ N 0 N 0 ] N 0 N 4 N 5 ] [ N 1 N 1 N 0 N 0 [ N 1 ] ] ]",
    "JTOK [ [ N 7 N 0 N 0 [ N 1 N 0 ] [ N 1 N 0 ] [ N 1 N 0 ] [ N 0 N 0 ] N 0 N 4 N 5 ] [ N 1 N 1 N 0 N 0 [ N 1 ] ] ]",
    "JTOK [ [ N 7 N 3 N 1 [ N 1 N 0 ] [ N 1 N 0 ] [ N 1 N 0 ] [ N 0 N 0 ] N 0 N 4 N 5 S x4142 ] [ N 1 N 1 N 0 N 0 [ N 1 ] ] ]",
    "JTOK [ [ N 7 N 0 N 3 [ N 1 N 0 ] [ N 1 N 0 ] [ N 1 N 0 ] [ N 0 N 0 ] N 0 ] [ N 7 N 2 N 0 N 9 [ N 24 N 100 ] ] [ N 1 N 1 N 0 N 0 [ N 1 ] ] ]",
    "JTOK [ ]", "JTOK N 5", "JTOK [ [ ] ]", "JTOK Z",
]


def corpus():
    out = []
    # a bundle whose JSON text exceeds 16 MiB (5 MB payload): to_json has no size limit, so the way back must not have one either
    big = _fixed(0, ("N",), 0, 0)
    next(c for c in big["cs"] if c["type"] == 1)["data"] = ("DATA", bytes((i * 11 + 5) % 256 for i in range(5 * 1000 * 1000)))
    out.append("JSONX" + _line(big)[4:])
    for frag in (0, 1):
        for crc in (("N",), ("E16",), ("E32",), ("V16", b"\x00\x00"), ("V32", b"\xff\xff\xff\xff")):
            out.append(_line(_fixed(frag, crc, 10 * frag, 20 * frag)))
            out.append(_line(_fixed(frag | 0x40004, crc, (U64 - 1) * frag, (U64 - 1) * frag, ccrc=("E16",))))
    import vlib
    rng = vlib.Rng(151515)
    for ssp in TRICKY:
        b = _fixed(1, ("E32",), 1, 2)
        b["p"]["dst"] = ("DTN", 1, ssp)
        b["cs"].insert(0, dict(type=6, num=3, flags=0, crc=("E32",), data=("PREV", ("DTN", 1, ssp))))
        out.append(_line(b))
    out += [_line(b) for b in boundary_bundles()]
    out += JTOK_WITNESSES
    # the implementation's parser on hand-written text (no model counterpart): whitespace, float, negative, object
    for txt in (b'[[7,0,0,[1,0],[1,0],[1,0],[0,0],0],[1,1,0,0,[1]]]', b' [ [7,0,0,[1,0],[1,0],[1,0],[0,0],0] , [1,1,0,0,[1]] ] ',
                b'[[7,0,0,[1,0.5],[1,-1],[1,{}],[0,0],0],[1,1,0,0,[1]]]', b'[[7.0,0,0,[1,0],[1,0],[1,0],[0,0],0],[1,1,0,0,[1]]]'):
        out.append("JSONDEC " + xhex(txt))
    return out


SCALARS = [0, 1, 2, 3, 6, 7, 10, 23, 24, 255, 256, 65535, 65536, 2 ** 32 - 1, 2 ** 32, 2 ** 63, U64 - 1, U64, U64 + 1, 2 ** 100]


def _paths(t, pre=()):
    out = [pre]
    if isinstance(t, list):
        for i, x in enumerate(t):
            # do not descend into long byte arrays element by element (keeps the choice structural)
            if isinstance(x, list) or len(t) <= 12 or i < 3:
                out += _paths(x, pre + (i,))
    return out


def _get(t, path):
    for i in path:
        t = t[i]
    return t


def _set(t, path, v):
    if not path:
        return v
    t = list(t)
    t[path[0]] = _set(t[path[0]], path[1:], v)
    return t


def _mutate(rng, tree):
    paths = _paths(tree)
    path = rng.choice(paths)
    cur = _get(tree, path)
    r = rng.random()
    if r < 0.35 or not path:
        new = rng.choice(SCALARS + [True, False, None, "", "//n/s", "ä\"\\\n", [], [1], [1, 0], [2, [1, 1]], [[[]]]])
        return _set(tree, path, new)
    parent = list(_get(tree, path[:-1]))
    i = path[-1]
    if r < 0.5:
        del parent[i]
    elif r < 0.65:
        parent.insert(i, cur)
    elif r < 0.75:
        parent.insert(i, rng.choice(SCALARS + [None, "x", []]))
    elif r < 0.85 and isinstance(cur, list) and all(isinstance(x, int) and not isinstance(x, bool) and x < 128 for x in cur):
        parent[i] = bytes(cur).decode("ascii")            # ByteBuf also accepts a string
    elif r < 0.92 and isinstance(cur, int) and not isinstance(cur, bool):
        parent[i] = max(0, cur + rng.choice([-1, 1, 256, -256]))
    else:
        j = rng.randrange(len(parent))
        parent[i], parent[j] = parent[j], parent[i]
    return _set(tree, path[:-1], parent)


def _bundle(rng):
    b = genb.reorder(rng, genb.rnd_bundle(rng, fragment=rng.choice([True, False, None])), free=True)
    if rng.random() < 0.25:
        b = _tricky(rng, b)
    return b


def cases(rng, tier):
    n = 1500 if tier == "quick" else 150000
    out = [_line(_bundle(rng)) for _ in range(n)]
    for _ in range(n // 3):
        b = genb.rnd_bundle(rng, nblocks=rng.randrange(0, 4), fragment=rng.choice([True, False]))
        if rng.random() < 0.3:
            b = _tricky(rng, b)
        tree = ref_tree(genb.ref_bundle(b)[1])
        for _ in range(rng.choice([0, 1, 1, 1, 2, 3])):
            tree = _mutate(rng, tree)
        out.append("JTOK " + show_tree(tree))
    return out


# ------------------------------------------------------------------ oracle (on the implementation's output) --------

def oracle(line, out, mode):
    if line.startswith("JSONX "):
        line = "JSON " + line[6:]
    if not line.startswith("JSON "):
        return None                      # JTOK / JSONDEC lines are correspondence / observation only
    if not out.startswith("OK "):
        return "to_json does not complete: %s" % out[:40]
    b = genb.parse_bundle_line(line[5:])
    parts = split_out(out[3:], "BACK")
    if len(parts) != 2 or not parts[0] or not parts[1]:
        return "malformed output"
    text = bytes.fromhex(parts[0][0][1:])
    b1 = genb.parse_bundle(genb.T(parts[0][1:]))
    ref = genb.ref_bundle(b)[1]
    if not same_content(b, b1):
        return "to_json changed something other than stored CRC values"
    if not crcs_filled(b1) or b1 != ref:
        return "CRC values after to_json are not those of the reference encoder"
    if text != ref_text(ref_tree(ref)):
        # white space and the choice of string escapes are not part of any property: compare the JSON VALUES
        import json as _json
        try:
            if _json.loads(text.decode("utf-8")) != _json.loads(ref_text(ref_tree(ref)).decode("utf-8")):
                return "JSON value differs from the reference rendering"
        except (ValueError, UnicodeDecodeError):
            return "to_json does not print JSON"
    if parts[1][0] != "OK":
        return "the library cannot parse its own JSON (%s)" % ("fragment" if b["p"]["flags"] & genb.IS_FRAGMENT else "non-fragment")
    d = genb.parse_bundle(genb.T(parts[1][1:]))
    if d != ref:
        return "bundle parsed back from JSON differs from the serialised one"
    return None


def canon(out):
    """the JSON text is compared as a JSON value (white space, escape style and number spelling are free)"""
    import json as _json
    import runner
    if out and out.startswith("OK x"):
        head, _, rest = out[3:].partition(" ")
        try:
            v = _json.loads(bytes.fromhex(head[1:]).decode("utf-8"))
            return runner.default_canon("OK J" + _json.dumps(v, separators=(",", ":"), ensure_ascii=True) + " " + rest)
        except (ValueError, UnicodeDecodeError):
            pass
    return runner.default_canon(out)


def same(line, io, mo):
    return line.startswith(("JSONDEC ", "JSONX "))   # no JSON text parser in the model; megabyte-sized bundles are implementation + oracle only


def _is_fragment_line(line):
    if not line.startswith("JSON "):
        return False
    toks = line.split()
    return len(toks) > 4 and int(toks[4]) & genb.IS_FRAGMENT == 1


def known_class(line, out):
    """D12: every fragment's JSON fails to parse back on the pinned tree"""
    if _is_fragment_line(line) and out.startswith("OK ") and out.endswith(" BACK ERR"):
        return "json-fragment-size-hint"
    return None


def classify(line, out):
    if not line.startswith("JSON "):
        return "%s:%s" % (line.split(" ", 1)[0], (out or "")[:3].strip())
    toks = line.split()
    n = line.count(" C ")
    back = "?" if not out or " BACK " not in out else out.split(" BACK ", 1)[1][:2]
    return "json:%s:crc=%s:blocks=%s:back=%s" % ("frag" if _is_fragment_line(line) else "whole", toks[5][:3],
                                                 "1" if n == 1 else "2-5" if n <= 5 else "6-23" if n <= 23 else ">23", back)


def nontrivial(line, out):
    return line.startswith("JSON ") and (_is_fragment_line(line) or line.count(" C ") > 1 or any(
        k in line for k in (" E16 ", " E32 ", " V16 ", " V32 ")))


def search_cases(rng, tier, breaks):
    return [_line(_bundle(rng)) for _ in range(3000)]


def shrink(v, run):
    """drop blocks while the failure persists"""
    if not v["case_line"].startswith("JSON "):
        return v
    b = genb.parse_bundle_line(v["case_line"][5:])
    changed = True
    while changed and len(b["cs"]) > 1:
        changed = False
        for i in range(len(b["cs"]) - 1):
            nb = dict(p=b["p"], cs=b["cs"][:i] + b["cs"][i + 1:])
            l = _line(nb)
            o = run([l])[0]
            if oracle(l, o, v["mode"]):
                b, changed = nb, True
                v = dict(v, case_line=l, implementation=o, why=oracle(l, o, v["mode"]))
                break
    return v
