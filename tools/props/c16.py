"""C16 — BPSec integrity: IPPT and HMAC follow RFC 9173 for every target, key, scope (K-sec channel, feature `bpsec`).

Case lines (grammar in coq/theories/Run/RunSec.v and harness/src/chan_sec.rs):
  IPPT <scope flags> <primary | -> <H type num flags | -> <canonical>
  BIB x<key> {RESIGN x<old key> <k> <number>*k}.. <scope flags> <ctx flags> <source eid> (NOPAR | PAR <sha> <wrapped key> <scope>) <bib num>
      <bib flags> <bundle> T <targets..> I <numbers..>
      (each RESIGN round = an earlier compute_hmac(old key, IPPTs of the listed blocks) on the SAME IntegrityBlock: re-signing / key rotation;
       the results must be those of the LAST key only)
The oracle recomputes everything on the implementation's output with Python only: genb's CBOR writer / RFC 9171 reference
encoder for the IPPT (RFC 9173 3.7), the ASB (RFC 9172 3.6) and the BIB block, hashlib/hmac for the MACs; the RFC 9173
Appendix A.1 hex strings are hard-coded below and compared on the A.1 corpus line."""
import hashlib
import hmac as pyhmac

import genb
from genb import c_uint, c_bytes, c_arr
from vlib import rnd_u64, xhex, U64

THEOREMS = ["C16_ippt", "C16_ippt_raw_flags", "C16_result_shape", "C16_result_shape_generic", "C16_unsupported_variant_panics",
            "C16_results_ignored", "C16_resign_replaces", "C16_resign_pipeline",
            "C16_asb_layout", "C16_bib_pipeline", "C16_bib_block", "C16_ippt_injective", "C16_ippt_injective_target"]
REPEAT = 2            # case lines repeated 66 000 times on one thread (state that builds up over many calls)
REPEAT_CMDS = ('IPPT',)
XCHECK = 120
RELEASE = True          # debug and release builds of the harness (debug_assert!, overflow checks, cfg(debug_assertions))
RULE = ("IPPT: target blocks of every carried type (payload, bundle age, hop count, previous node, unknown types incl. 11/12/192/2^64-1) x all 8 "
        "scope-flag values (plus raw words >= 8 for correspondence only) x primaries of the C01 domain without CRC (fragment and non-fragment, all "
        "EID kinds) x security headers with boundary-biased numbers; BIB: bundles with 0-3 extension blocks, 1..n targets in random order, SHA "
        "variants 5/6/7 (others: abort expected), random 16-byte keys plus all-zero / all-0xff, keys of 0/1/64/65/128/129/200 bytes on the model "
        "side only (the API takes [u8;16]; the model line is then judged by the same Python oracle), parameter sets with/without wrapped key and "
        "scope parameter, mismatching IPPT lists; RE-SIGNING: 1-3 earlier compute_hmac rounds on the same IntegrityBlock (other key, same / "
        "reordered / shorter / longer / empty IPPT list) before the final one, expected: exactly one result per target under the LAST key; "
        "non-trivial = distinct line with an OK result")
TRUSTED_BASE = [
    "crates sha2 0.10.9 / hmac 0.12.1 are tied to Model/Sha2.v + Model/Hmac.v (anchored in the kernel to RFC 4231 cases 1, 2, 6 and RFC 9173 A.1) "
    "by the K-sec channel and judged by python hashlib/hmac, not verified",
    "serde_cbor serializer behaviour on Vec<u64>, tuples, Option, serde_bytes::Bytes is modelled (Model/Security.v), tied by the K-sec channel",
    "harness/src/chan_sec.rs: glue between the library calls (the one of tests/security_tests.rs) and fd-1 redirection around the library's println!",
    "tools/genb.py: independent Python CBOR writer / RFC 9171 reference encoder (oracle)",
]
ASSUMPTIONS = ["scope flags < 8 (bits 3-15 unassigned: the library serializes the raw word, see C16_ippt_raw_flags)",
               "primary blocks without CRC (property quantifier); primary and security header are supplied when their flag is set",
               "ASB: parameters present and context flag bit 0 set (the builder refuses to build without parameters)"]

SHA = {5: hashlib.sha256, 6: hashlib.sha384, 7: hashlib.sha512}

# RFC 9173 Appendix A.1 (Example 1), copied from the RFC text
A1_PRIMARY = dict(ver=7, flags=0, crc=("N",), dst=("IPN", 2, 1, 2), src=("IPN", 2, 2, 1), rpt=("IPN", 2, 2, 1), t=0, seq=40, life=1000000,
                  foff=0, flen=0)
A1_PAYLOAD = dict(type=1, num=1, flags=0, crc=("N",), data=("DATA", b"Ready to generate a 32-byte payload"))
A1_KEY = bytes.fromhex("1a2b1a2b1a2b1a2b1a2b1a2b1a2b1a2b")
A1_IPPT = "005823526561647920746f2067656e657261746520612033322d62797465207061796c6f6164"
A1_SIG = ("3bdc69b3a34a2b5d3a8554368bd1e808f606219d2a10a846eae3886ae4ecc83c4ee550fdfb1cc636b904e2f1a73e303dcd4b6ccece003e95e8164dcc89a156e1")
A1_ASB = "81010101820282020182820107820300818182015840" + A1_SIG
A1_BIB = "850b0200005856" + A1_ASB
A1_BUNDLE = ("9f88070000820282010282028202018202820201820018281a000f4240" + A1_BIB +
             "85010100005823526561647920746f2067656e657261746520612033322d62797465207061796c6f6164ff")


# ------------------------------------------------------------------ rendering ---------------------------

def _show_opt_primary(p):
    return "-" if p is None else genb.show_primary(p)


def _show_opt_sh(sh):
    return "-" if sh is None else "H %d %d %d" % sh


def ippt_line(flags, p, sh, c):
    return "IPPT %d %s %s %s" % (flags, _show_opt_primary(p), _show_opt_sh(sh), genb.show_canonical(c))


def _show_pair(x, isbytes=False):
    if x is None:
        return "-"
    return "%d %s" % (x[0], xhex(x[1]) if isbytes else "%d" % x[1])


def bib_line(key, flags, ctx, src, params, bnum, bflags, b, targets, inums, rounds=()):
    if params is None:
        ps = "NOPAR"
    else:
        ps = "PAR %s %s %s" % (_show_pair(params[0]), _show_pair(params[1], True), _show_pair(params[2]))
    rs = "".join(" RESIGN %s %d%s" % (xhex(k), len(nums), "".join(" %d" % n for n in nums)) for k, nums in rounds)
    return "BIB %s%s %d %d %s %s %d %d %s T %s I %s" % (xhex(key), rs, flags, ctx, genb.show_eid(src), ps, bnum, bflags, genb.show_bundle(b),
                                                        " ".join(map(str, targets)), " ".join(map(str, inums)))


# ------------------------------------------------------------------ parsing of case lines (replay-safe) --

def _parse_primary(t):
    assert t.next() == "P"
    return dict(ver=t.n(), flags=t.n(), crc=genb.parse_crc(t), dst=genb.parse_eid(t), src=genb.parse_eid(t), rpt=genb.parse_eid(t),
                t=t.n(), seq=t.n(), life=t.n(), foff=t.n(), flen=t.n())


def _parse_canonical(t):
    assert t.next() == "C"
    return dict(type=t.n(), num=t.n(), flags=t.n(), crc=genb.parse_crc(t), data=genb.parse_data(t))


def _peek(t):
    return t.t[t.i] if t.i < len(t.t) else None


def _opt_pair(t, isbytes=False):
    if _peek(t) == "-":
        t.next()
        return None
    i = t.n()
    return (i, t.b() if isbytes else t.n())


def parse_line(line):
    toks = line.split()
    t = genb.T(toks[1:])
    if toks[0] == "IPPT":
        flags = t.n()
        p = None
        if _peek(t) == "-":
            t.next()
        else:
            p = _parse_primary(t)
        sh = None
        if _peek(t) == "-":
            t.next()
        else:
            assert t.next() == "H"
            sh = (t.n(), t.n(), t.n())
        return ("IPPT", flags, p, sh, _parse_canonical(t))
    if toks[0] == "BIB":
        key = t.b()
        rounds = []
        while _peek(t) == "RESIGN":
            t.next()
            k = t.b()
            rounds.append((k, [t.n() for _ in range(t.n())]))
        flags, ctx = t.n(), t.n()
        src = genb.parse_eid(t)
        k = t.next()
        params = None
        if k == "PAR":
            params = (_opt_pair(t), _opt_pair(t, True), _opt_pair(t))
        bnum, bflags = t.n(), t.n()
        b = genb.parse_bundle(t)
        assert t.next() == "T"
        targets = []
        while _peek(t) != "I":
            targets.append(t.n())
        t.next()
        inums = []
        while _peek(t) is not None:
            inums.append(t.n())
        return ("BIB", key, flags, ctx, src, params, bnum, bflags, b, targets, inums, rounds)
    return None


# ------------------------------------------------------------------ reference (RFC 9173 3.7 / RFC 9172 3.6) --

def ref_ippt(flags, p, sh, c):
    """None when a selected part is not supplied (outside the property's domain)"""
    out = c_uint(flags)
    if flags & 1:
        if p is None:
            return None
        out += genb.ref_primary(p)[0]
    if flags & 2:
        out += c_uint(c["type"]) + c_uint(c["num"]) + c_uint(c["flags"])
    if flags & 4:
        if sh is None:
            return None
        out += c_uint(sh[0]) + c_uint(sh[1]) + c_uint(sh[2])
    return out + genb.ref_data(c["data"])      # the block-type-specific data as a CBOR byte string


def ref_asb(targets, ctx_id, ctx, src, params, macs):
    pitems = []
    if params[0] is not None:
        pitems.append(c_arr([c_uint(params[0][0]), c_uint(params[0][1])]))
    if params[1] is not None:
        pitems.append(c_arr([c_uint(params[1][0]), c_bytes(params[1][1])]))
    if params[2] is not None:
        pitems.append(c_arr([c_uint(params[2][0]), c_uint(params[2][1])]))
    out = c_arr([c_uint(n) for n in targets]) + c_uint(ctx_id) + c_uint(ctx) + genb.ref_eid(src)
    if ctx & 1:
        out += c_arr(pitems)
    return out + c_arr([c_arr([c_arr([c_uint(1), c_bytes(m)])]) for m in macs])


def _find(b, n):
    return next((c for c in b["cs"] if c["num"] == n), None)


def in_domain_bib(case):
    _, key, flags, ctx, src, params, bnum, bflags, b, targets, inums, rounds = case
    return (params is not None and params[0] is not None and params[0][1] in SHA and flags < 8 and (ctx & 1) == 1 and [n for n in inums if n in targets] == targets
            and all(_find(b, n) is not None for n in inums)
            and len(targets) > 0 and all(_find(b, n) is not None for n in targets) and b["p"]["crc"] == ("N",)
            and all(_find(b, n) is not None for _, nums in rounds for n in nums))     # earlier rounds: any key, any existing blocks


def judge(line, out):
    """the property on one output line (of the implementation, or of the model for keys the API cannot take)"""
    case = parse_line(line)
    if case is None:
        return None
    if case[0] == "IPPT":
        _, flags, p, sh, c = case
        if flags >= 8 or (p is not None and p["crc"] != ("N",)):
            return None
        want = ref_ippt(flags, p, sh, c)
        if want is None:
            return None
        if out != "OK " + xhex(want):
            tail = genb.ref_data(c["data"])
            if out.startswith("OK x") and not bytes.fromhex(out[4:]).endswith(want[len(want) - len(tail) - 1:]):
                return ("IPPT of a %s target (type %d) does not end with the block-type-specific data as ONE CBOR byte string: ..%s, want ..%s"
                        % (c["data"][0], c["type"], out[-(2 * len(tail) + 4):], tail.hex()))
            return "IPPT is not the RFC 9173 3.7 concatenation for scope flags %d (got %s, want %s)" % (flags, out[:60], xhex(want)[:60])
        return None
    # ---- BIB
    _, key, flags, ctx, src, params, bnum, bflags, b, targets, inums, rounds = case
    if not in_domain_bib(case):
        return None
    if not out.startswith("OK IPPT "):
        return "integrity block construction does not complete: %s" % out[:30]
    t = genb.T(out.split(" ")[2:])
    k = t.n()
    ippts = [t.b() for _ in range(k)]
    assert t.next() == "RES"
    nres = t.n()
    results = []
    for _ in range(nres):
        m = t.n()
        results.append([(t.n(), t.b()) for _ in range(m)])
    assert t.next() == "ASB"
    asb = t.b()
    assert t.next() == "BLK"
    blk = t.b()
    assert t.next() == "BUNDLE"
    bundle = t.b()
    sh = (11, bnum, bflags)
    if k != len(inums):
        return "number of IPPTs differs from the number of blocks listed"
    for n, got in zip(inums, ippts):
        want = ref_ippt(flags, b["p"], sh, _find(b, n))
        if got != want:
            return "IPPT of block %d (%s) is not the RFC 9173 3.7 concatenation: %s, want %s" % (n, _find(b, n)["data"][0], got.hex()[:80], want.hex()[:80])
    extra = len(inums) - len(targets)
    ippts = [i for n, i in zip(inums, ippts) if n in targets]       # plaintexts of non-target blocks must not be signed
    if nres != len(targets) and extra and not rounds:
        return ("%d result sets for %d targets: the IPPT list also held %d plaintext(s) of blocks that are not targets of this BIB, "
                "which must be skipped" % (nres, len(targets), extra))
    if nres != len(targets):
        if rounds:
            return ("%d result sets for %d targets after signing the same block %d times: compute_hmac must replace the results of an "
                    "earlier signature (one result per target, under the last key)" % (nres, len(targets), len(rounds) + 1))
        return "%d result sets for %d targets" % (nres, len(targets))
    variant = params[0][1]
    macs = []
    for n, ippt, r in zip(targets, ippts, results):
        if len(r) != 1:
            return "target %d has %d results, BIB-HMAC-SHA2 has exactly one" % (n, len(r))
        rid, mac = r[0]
        want = pyhmac.new(key, ippt, SHA[variant]).digest()
        if mac != want:
            for k_old, _ in rounds:
                if len(k_old) == len(key) and mac == pyhmac.new(k_old, ippt, SHA[variant]).digest():
                    return "result value of target %d is the HMAC under an EARLIER key (stale result of a previous signature)" % n
            return "result value of target %d is not HMAC-SHA2 (variant %d) of its IPPT under the key" % (n, variant)
        if rid != 1:
            return "result id of target %d is %d, RFC 9173 3.4 fixes it to 1 (it equals the target's block number)" % (n, rid)
        macs.append(mac)
    want_asb = ref_asb(targets, 1, ctx, src, params, macs)
    if asb != want_asb:
        return "ASB is not the RFC 9172 3.6 field sequence: %s, want %s" % (asb.hex()[:90], want_asb.hex()[:90])
    bib = dict(type=11, num=bnum, flags=bflags & 0xF7, crc=("N",), data=("UNK", asb))
    if blk != genb.ref_canonical(bib)[0]:
        return "the BIB is not the canonical block [11, number, flags, 0, bstr(ASB)]"
    cs = sorted(b["cs"] + [bib], key=lambda c: -c["num"])          # sorted() is stable, like sort_by
    if len(cs) < 23 and bundle != genb.ref_bundle(dict(p=b["p"], cs=cs))[0]:
        return "bundle with the BIB is not the RFC 9171 encoding of primary + blocks in descending block-number order"
    # anchor: the RFC 9173 A.1 line must reproduce the RFC's hex strings literally
    if key == A1_KEY and b["p"] == A1_PRIMARY and b["cs"] == [A1_PAYLOAD] and flags == 0 and variant == 7 and bnum == 2 and bflags == 0 \
            and targets == [1] and src == ("IPN", 2, 2, 1) and ctx == 1 and params == ((1, 7), None, (3, 0)):
        if (ippts[0].hex(), macs[0].hex(), asb.hex(), blk.hex(), bundle.hex()) != (A1_IPPT, A1_SIG, A1_ASB, A1_BIB, A1_BUNDLE):
            return "RFC 9173 Appendix A.1 vector not reproduced"
    return None


def oracle(line, out, mode):
    if out == "SKIP":
        return None
    try:
        return judge(line, out)
    except (AssertionError, IndexError, ValueError) as e:
        return "unparsable result line (%r): %s" % (e, out[:60])


def same(line, io, mo):
    """the API takes a [u8; 16] key: for other key lengths the implementation is SKIPped; inside the property's domain the MODEL
    line is then judged by the same Python oracle (this ties Model/Hmac.v to hashlib for short and long keys), outside there is
    nothing to compare"""
    # the oracle is complete for the property (it recomputes IPPT, HMAC and the RFC 9172 field sequence independently of library and
    # model); where the property leaves latitude - the order of results when the IPPT list is not in target order, results for IPPT
    # entries that are no targets, anything outside the domain - model and implementation need not agree
    if io and io.startswith("OK") and mo is not None:
        try:
            case = parse_line(line)
            if case is not None and case[0] == "BIB":
                return (not in_domain_bib(case)) or judge(line, io) is None
        except (AssertionError, IndexError, ValueError):
            pass
    if io == "SKIP" and mo is not None:
        try:
            case = parse_line(line)
            if case[0] == "BIB" and (len(case[1]) != 16 or any(len(k) != 16 for k, _ in case[11])):
                if not in_domain_bib(case):
                    return True
                return mo.startswith("OK ") and judge(line, mo) is None
        except (AssertionError, IndexError, ValueError):
            return False
    return False


def classify(line, out):
    toks = line.split(" ", 3)
    o = (out or "").split(" ")[0]
    if toks[0] == "IPPT":
        try:
            case = parse_line(line)
            return "IPPT:f%d:%s:%s" % (min(case[1], 8), case[4]["data"][0], o)
        except Exception:
            return "IPPT:?:" + o
    try:
        case = parse_line(line)
        v = case[5][0][1] if case[5] and case[5][0] else -1
        return "BIB:v%d:k%d:n%d:r%d:%s" % (v, len(case[1]), len(case[9]), len(case[11]), o)
    except Exception:
        return "BIB:?:" + o


def nontrivial(line, out):
    return (out or "").startswith("OK ")


# ------------------------------------------------------------------ generators ---------------------------

TARGET_TYPES = [1, 7, 10, 6, "unk"]


def _rnd_target(rng, kind=None, num=None):
    kind = kind if kind is not None else rng.choice(TARGET_TYPES)
    if kind == 1:
        c = dict(type=1, num=1 if num is None else num, flags=genb.rnd_block_flags(rng), crc=genb.rnd_crc_state(rng), data=genb.rnd_data(rng, 1))
    else:
        bt = rng.choice(genb.UNKNOWN_TYPES) if kind == "unk" else kind
        c = genb.rnd_canonical(rng, btype=bt, num=num)
    return c


def _rnd_sh(rng):
    return (rng.choice([11, 11, 11, 12, rnd_u64(rng)]), rnd_u64(rng), rng.choice([0, 0, 1, 4, 16, 23, 24, 255, rng.randrange(256)]))


def _rnd_key(rng):
    r = rng.random()
    if r < 0.08:
        return bytes(16)
    if r < 0.14:
        return b"\xff" * 16
    if r < 0.24:
        n = rng.choice([0, 1, 15, 17, 64, 65, 128, 129, 200])
        return bytes(rng.randrange(256) for _ in range(n))
    return bytes(rng.randrange(256) for _ in range(16))


def _small_bundle(rng, kinds=None):
    p = genb.rnd_primary(rng, crc_kind=0)
    if kinds is None:
        kinds = rng.sample([7, 10, 6, "unk", "unk"], rng.choice([0, 1, 1, 2, 3]))
    nums = rng.sample([2, 3, 4, 5, 23, 24, 255, 256, 65536, 2 ** 32, U64 - 1], len(kinds))
    cs = [_rnd_target(rng, k, n) for k, n in zip(kinds, nums)]
    cs.sort(key=lambda c: -c["num"])
    pl = _rnd_target(rng, 1)
    if len(pl["data"][1]) > 64 and rng.random() < 0.7:
        pl["data"] = ("DATA", pl["data"][1][:rng.randrange(65)])
    cs.append(pl)
    return dict(p=p, cs=cs)


def _rnd_bib(rng, variant=None, key=None, flags=None, consistent=True, resign=0):
    b = _small_bundle(rng)
    nums = [c["num"] for c in b["cs"]]
    k = rng.randrange(1, len(nums) + 1)
    targets = rng.sample(nums, k)
    inums = list(targets)
    ctx = 1
    variant = variant if variant is not None else rng.choice([5, 6, 7])
    flags = flags if flags is not None else rng.randrange(8)
    wk = (2, bytes(rng.randrange(256) for _ in range(rng.choice([0, 24, 40])))) if rng.random() < 0.2 else None
    scope = (3, flags) if rng.random() < 0.85 else None
    params = ((1, variant), wk, scope)
    others = [n for n in nums if n not in targets]
    if consistent and others and rng.random() < 0.25:
        # the application computed the IPPTs of all (or more) blocks once and hands the same list to this BIB: entries of
        # non-target blocks must be skipped (targets keep their relative order)
        extra = rng.sample(others, rng.randrange(1, len(others) + 1))
        inums = list(targets)
        for n in extra:
            inums.insert(rng.randrange(0, len(inums) + 1), n)
    if not consistent:
        r = rng.random()
        if r < 0.25:
            inums = rng.sample(nums, rng.randrange(0, len(nums) + 1))          # mismatching IPPT list
        elif r < 0.4:
            inums = inums + [rng.choice(nums)]
        elif r < 0.5:
            ctx = rng.choice([0, 2, 255])
        elif r < 0.6:
            params = None
        elif r < 0.7:
            params = (None, wk, scope)
        elif r < 0.85:
            params = ((rng.choice([1, 0, 255]), rng.choice([0, 1, 4, 8, 65535])), wk, scope)
        else:
            inums = [rng.choice([6, 7, 8])]                                      # no such block
    free = [n for n in [2, 3, 4, 5, 6, 100, 2 ** 32 + 1, U64 - 2] if n not in nums]
    bnum = rng.choice(free) if rng.random() < 0.9 else rng.choice(nums)
    bflags = rng.choice([0, 0, 1, 4, 16, 8, 255, rng.randrange(256)])
    src = genb.rnd_eid(rng)
    key = key if key is not None else _rnd_key(rng)
    rounds = []
    for _ in range(resign):
        # an earlier signature on the same block: usually the same IPPT list under another key (key rotation); also sub-/super-lists,
        # another order, the empty list, the very same key, rarely a key length the API cannot take or a missing block
        r = rng.random()
        if r < 0.55:
            rn = list(targets)
        elif r < 0.65:
            rn = rng.sample(targets, len(targets))
        elif r < 0.78:
            rn = rng.sample(nums, rng.randrange(1, len(nums) + 1))
        elif r < 0.86:
            rn = list(targets) + [rng.choice(nums)]
        elif r < 0.92:
            rn = rng.sample(targets, rng.randrange(0, len(targets)))
        elif r < 0.97:
            rn = []
        else:
            rn = [rng.choice([6, 7, 8])]
        q = rng.random()
        ok = key if q < 0.08 and len(key) == 16 else bytes(rng.randrange(256) for _ in range(16 if q < 0.94 else rng.choice([0, 1, 17, 200])))
        rounds.append((ok, rn))
    return bib_line(key, flags, ctx, src, params, bnum, bflags, b, targets, inums, rounds)


def corpus():
    import vlib
    rng = vlib.Rng(1616)
    out = []
    # RFC 9173 A.1, through BIB (full pipeline) and IPPT
    out.append(bib_line(A1_KEY, 0, 1, ("IPN", 2, 2, 1), ((1, 7), None, (3, 0)), 2, 0, dict(p=A1_PRIMARY, cs=[A1_PAYLOAD]), [1], [1]))
    for f in range(8):
        out.append(ippt_line(f, A1_PRIMARY, (11, 2, 0), A1_PAYLOAD))
    # many DISTINCT primary blocks through one thread (more than any small per-thread table of encoded primaries holds), then earlier ones
    # again: every plaintext is the one of ITS primary block
    prims = [dict(A1_PRIMARY, seq=i, life=1000 + i) for i in range(140)]
    for flags in (1, 7):
        seq_ = [ippt_line(flags, p, (11, 2, 0), A1_PAYLOAD) for p in prims[:70]]
        seq_ += [ippt_line(flags, prims[i], (11, 2, 0), A1_PAYLOAD) for i in (69, 40, 33, 32, 31, 0, 1, 64, 65, 38, 39)]
        out.append("PAIR " + " || ".join(seq_))
    seq_ = [ippt_line(1, p, None, A1_PAYLOAD) for p in prims] + [ippt_line(1, prims[i], None, A1_PAYLOAD) for i in range(139, -1, -7)]
    out.append("PAIR " + " || ".join(seq_))
    # D13 witnesses: unknown-typed target (double wrapping on the pinned tree), non-payload target (result id = block number)
    out.append(ippt_line(0, None, None, dict(type=192, num=3, flags=0, crc=("N",), data=("UNK", b"\x01\x02\x03"))))
    out.append(ippt_line(7, A1_PRIMARY, (11, 2, 0), dict(type=11, num=9, flags=0, crc=("N",), data=("UNK", b""))))
    b = dict(p=A1_PRIMARY, cs=[dict(type=7, num=2, flags=0, crc=("N",), data=("AGE", 5)), A1_PAYLOAD])
    out.append(bib_line(A1_KEY, 0, 1, ("IPN", 2, 2, 1), ((1, 5), None, (3, 0)), 3, 0, b, [2], [2]))
    out.append(bib_line(A1_KEY, 7, 1, ("IPN", 2, 2, 1), ((1, 6), None, (3, 7)), 3, 0, b, [1, 2], [1, 2]))
    out.append(bib_line(A1_KEY, 7, 1, ("IPN", 2, 2, 1), ((1, 6), None, (3, 7)), 3, 0, b, [2, 1], [2, 1]))
    b2 = dict(p=A1_PRIMARY, cs=[dict(type=192, num=5, flags=1, crc=("N",), data=("UNK", b"\x01\x02\x03")), A1_PAYLOAD])
    out.append(bib_line(bytes(16), 2, 1, ("DTN", 1, b"//sec/src"), ((1, 7), (2, b"\x00" * 24), (3, 2)), 9, 8, b2, [5], [5]))
    # re-signing (seeded change C16-m1: results not reset): A.1 signed first under the all-zero key, then under the RFC key, must still give
    # the RFC's signature / ASB / bundle; two targets; two earlier rounds; earlier round with a longer / shorter / empty / reordered list
    a1b = dict(p=A1_PRIMARY, cs=[A1_PAYLOAD])
    a1par = ((1, 7), None, (3, 0))
    out.append(bib_line(A1_KEY, 0, 1, ("IPN", 2, 2, 1), a1par, 2, 0, a1b, [1], [1], [(bytes(16), [1])]))
    out.append(bib_line(A1_KEY, 0, 1, ("IPN", 2, 2, 1), a1par, 2, 0, a1b, [1], [1], [(bytes(16), [1]), (b"\xff" * 16, [1])]))
    out.append(bib_line(A1_KEY, 0, 1, ("IPN", 2, 2, 1), a1par, 2, 0, a1b, [1], [1], [(A1_KEY, [1])]))
    out.append(bib_line(A1_KEY, 0, 1, ("IPN", 2, 2, 1), a1par, 2, 0, a1b, [1], [1], [(bytes(16), [])]))
    out.append(bib_line(A1_KEY, 7, 1, ("IPN", 2, 2, 1), ((1, 6), None, (3, 7)), 3, 0, b, [1, 2], [1, 2], [(bytes(16), [1, 2])]))
    out.append(bib_line(A1_KEY, 7, 1, ("IPN", 2, 2, 1), ((1, 5), None, (3, 7)), 3, 0, b, [1, 2], [1, 2], [(bytes(16), [2])]))
    out.append(bib_line(A1_KEY, 7, 1, ("IPN", 2, 2, 1), ((1, 5), None, (3, 7)), 3, 0, b, [2], [2], [(bytes(16), [2, 1, 2])]))
    out.append(bib_line(A1_KEY, 7, 1, ("IPN", 2, 2, 1), ((1, 5), None, (3, 7)), 3, 0, b, [2, 1], [2, 1], [(bytes(16), [1, 2])]))
    out.append(bib_line(A1_KEY, 0, 1, ("IPN", 2, 2, 1), ((1, 7), None, None), 3, 0, b, [2, 1], [1], [(bytes(16), [1, 2])]))   # PANIC on HEAD (fewer results)
    out.append(bib_line(A1_KEY, 0, 1, ("IPN", 2, 2, 1), a1par, 2, 0, a1b, [1], [1], [(b"k", [1])]))                          # old key the API cannot take
    # every target kind x every scope flag value x every variant, fixed primary
    for kind in TARGET_TYPES:
        for f in range(8):
            out.append(ippt_line(f, genb.rnd_primary(rng, crc_kind=0), _rnd_sh(rng), _rnd_target(rng, kind)))
    for v in (5, 6, 7):
        for key in (bytes(16), b"\xff" * 16, b"k", bytes(range(200)), b""):
            out.append(_rnd_bib(rng, variant=v, key=key))
    # outside the domain (correspondence only): raw flag words, absent parts, unsupported variant, builder error, index panic
    for f in (8, 15, 255, 256, 65535):
        out.append(ippt_line(f, A1_PRIMARY, (11, 2, 0), A1_PAYLOAD))
    out.append(ippt_line(7, None, None, A1_PAYLOAD))
    out.append(ippt_line(5, None, (11, 2, 0), A1_PAYLOAD))
    out.append(bib_line(A1_KEY, 0, 1, ("IPN", 2, 2, 1), ((1, 4), None, (3, 0)), 3, 0, b, [2], [2]))
    out.append(bib_line(A1_KEY, 0, 1, ("IPN", 2, 2, 1), None, 3, 0, b, [2], [2]))
    out.append(bib_line(A1_KEY, 0, 1, ("IPN", 2, 2, 1), ((1, 7), None, None), 3, 0, b, [2, 1], [1]))
    out.append(bib_line(A1_KEY, 0, 1, ("IPN", 2, 2, 1), ((1, 7), None, None), 3, 0, b, [2], [1, 2, 2]))
    out.append(bib_line(A1_KEY, 0, 1, ("IPN", 2, 2, 1), ((1, 7), None, None), 3, 0, b, [2], [4]))
    return out


def cases(rng, tier):
    out = []
    n_ippt, n_bib = (1300, 650) if tier == "quick" else (200000, 40000)
    for i in range(n_ippt):
        r = rng.random()
        flags = i % 8 if r < 0.93 else rng.choice([8, 9, 16, 255, 256, 32768, 65535, rng.randrange(65536)])
        p = genb.rnd_primary(rng, crc_kind=0 if rng.random() < 0.97 else None)
        sh = _rnd_sh(rng)
        if rng.random() < 0.04:
            p = None
        if rng.random() < 0.04:
            sh = None
        out.append(ippt_line(flags, p, sh, _rnd_target(rng, TARGET_TYPES[(i // 8) % 5] if r < 0.5 else None)))
    for i in range(n_bib):
        out.append(_rnd_bib(rng, consistent=rng.random() < 0.88))
    n_resign = 350 if tier == "quick" else 20000
    for i in range(n_resign):
        out.append(_rnd_bib(rng, consistent=rng.random() < 0.93, resign=rng.choice([1, 1, 1, 2, 3])))
    return out


def search_cases(rng, tier, breaks):
    return cases(rng, "quick")


def shrink(v, run):
    """try the D13-style minimal witnesses first: same command on the smallest inputs that keep the failure"""
    cands = [l for l in corpus()[:28]]
    outs = run(cands)
    for l, o in zip(cands, outs):
        why = oracle(l, o, v["mode"])
        if why:
            return dict(v, case_line=l, implementation=o, why=why, model=None)
    return v
