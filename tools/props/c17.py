"""C17 — DTN time conversion and formatting (K-time channel, debug + release builds, clock hook)."""
import datetime
import vlib
from vlib import rnd_u64, U64

THEOREMS = ["C17_unix", "C17_string_denotes", "C17_format_total", "C17_now", "C17_civil_correct"]
REPEAT = 2            # case lines repeated 66 000 times on one thread (state that builds up over many calls)
REPEAT_CMDS = ('TSTR', 'UNIX')
RELEASE = True
OFFSET_MS = 946684800000
LAST_9999 = 252455615999999
RULE = ("TICK: dtn_time_now() under a ticking clock hook (successive clock reads see successive readings that straddle second / minute / day boundaries): the answer must lie between the first and the last reading taken; UNIX/TSTR/TSFMT/NOW on boundary-biased u64 values (0, 1, leap days, month/year/century boundaries, the last ms of "
        "year 9999 and its successor, 2^63, 2^64-946684800001..2^64-1, CBOR width boundaries) plus seeded uniform values; every "
        "case runs in a debug and a release build; a case is non-trivial when distinct (all inputs exercise the conversion)")
TRUSTED_BASE = ["humantime 2.4.0 format_rfc3339 is modelled line by line (Model/DtnTime.v), tied by the K-time channel, not verified",
                "std::time::{SystemTime, Duration} arithmetic is assumed not to overflow below 2^64 ms (argued in Model/DtnTime.v)"]
ASSUMPTIONS = ["clock not before 2000-01-01T00:00:00Z for dtn_time_now (clause C17_now)",
               "python datetime is the independent oracle for the RFC 3339 text up to year 9999"]


def _interesting_times():
    ts = [0, 1, 999, 1000, 1001, LAST_9999 - 1, LAST_9999, LAST_9999 + 1, LAST_9999 + 1000, 2 ** 63, 2 ** 63 - 1,
          U64 - OFFSET_MS - 2, U64 - OFFSET_MS - 1, U64 - OFFSET_MS, U64 - OFFSET_MS + 1, U64 - 2, U64 - 1]
    epoch2k = datetime.datetime(2000, 1, 1)
    for (y, m, d) in [(2000, 2, 28), (2000, 2, 29), (2000, 3, 1), (2000, 12, 31), (2001, 1, 1), (2004, 2, 29), (2100, 2, 28),
                      (2100, 3, 1), (2400, 2, 29), (2400, 3, 1), (2399, 12, 31), (2038, 1, 19), (9999, 12, 31), (3000, 1, 1),
                      (2024, 2, 29), (2023, 2, 28), (9600, 2, 29), (9999, 1, 1), (2000, 1, 31), (2000, 4, 30), (2000, 5, 1)]:
        base = int((datetime.datetime(y, m, d) - epoch2k).total_seconds()) * 1000
        ts += [base - 1, base, base + 1, base + 86399999, base + 86400000 - 1000, base + 43200000, base + 3599999, base + 59999]
    return [t for t in ts if 0 <= t < U64]


def extra_builds():
    """the `bp7` binary: its `dtntime <t>` and `d2u <t>` commands are two more observation points of the conversions (src/main.rs)"""
    from props import c20
    return c20.extra_builds()


def _cli_time_lines(rng, n):
    from props import c20
    out = []
    for _ in range(n):
        t = rng.choice([2 ** 53 + 1, 2 ** 53 + 3, 2 ** 63 + 1001, 2 ** 63 - 1, 2 ** 63, 2 ** 64 - 946684800001, 9007199254740993, rnd_u64(rng), rnd_u64(rng),
                        rng.randrange(0, LAST_9999 + 1)])
        out.append(c20.cli_line(OFFSET_MS + 5, [b"bp7", rng.choice([b"dtntime", b"d2u"]), str(t).encode()]))
    return out


def corpus():
    from props import c20
    import vlib
    out = c20.time_cases() + _cli_time_lines(vlib.Rng(1717), 40)
    for t in _interesting_times():
        out += ["UNIX %d" % t, "TSTR %d" % t, "TSFMT %d %d" % (t, t % 7)]
    # several threads formatting at once (times inside one second, across seconds, across days, beyond year 9999): same text as one thread alone
    out += ["TSTRESS 668149567005 1 16", "TSTRESS 668149567005 333 48", "TSTRESS 0 86399999 32", "TSTRESS 252455615999000 250 16",
            "TSTRESS 668149567000 1000 2", "TSTRESS 668149567005 0 8"]
    out += ["TSFMT 0 18446744073709551615", "NOW %d" % OFFSET_MS, "NOW %d" % (OFFSET_MS + 1), "NOW %d" % (U64 - 1),
            "NOW 1790000000000"]
    # ticking clock: the readings straddle a full-second / minute / day boundary between two clock reads
    for base in (OFFSET_MS, 1790000000000, 1627483500000, OFFSET_MS + 86400000 * 366):
        out += ["TICK %d %d" % (base + 999, base + 1000), "TICK %d %d %d" % (base + 999, base + 999, base + 1000),
                "TICK %d %d" % (base + 59999, base + 60000), "TICK %d %d %d" % (base + 500, base + 501, base + 1500), "TICK %d" % (base + 999)]
    # the real clock, no hook: 20000 calls each bracketed by two clock readings of the harness (catches rounding instead of flooring,
    # a wrong unit, a cached reading) - four lines so that four processes sample different phases
    out += ["REALNOW 20000", "REALNOW 20001", "REALNOW 20002", "REALNOW 20003"]
    return out


def cases(rng, tier):
    out = []
    n = 5000 if tier == "quick" else 500000
    for _ in range(n):
        r = rng.random()
        if r < 0.5:
            t = rng.randrange(0, LAST_9999 + 1)
        elif r < 0.6:
            t = rng.choice(_interesting_times()) + rng.randrange(-2000, 2001)
            t = max(0, min(U64 - 1, t))
        else:
            t = rnd_u64(rng)
        k = rng.random()
        if k < 0.3:
            out.append("UNIX %d" % t)
        elif k < 0.7:
            out.append("TSTR %d" % t)
        elif k < 0.9:
            out.append("TSFMT %d %d" % (t, rnd_u64(rng)))
        else:
            out.append("NOW %d" % max(OFFSET_MS, t))
    out += _cli_time_lines(rng, 60 if tier == "quick" else 3000)
    for _ in range(300 if tier == "quick" else 30000):
        c = max(OFFSET_MS, min(U64 - 5000, rng.choice([rnd_u64(rng), rng.randrange(OFFSET_MS, 2 ** 42)])))
        c -= c % 1000
        first = c + rng.choice([999, 999, 998, 500, 0])
        rs = [first]
        for _ in range(rng.randrange(0, 4)):
            rs.append(rs[-1] + rng.choice([0, 1, 1, 2, 1000, 1001]))
        out.append("TICK " + " ".join(str(r) for r in rs))
    return out


def _rfc3339(t):
    ms = t + OFFSET_MS
    dt = datetime.datetime(1970, 1, 1) + datetime.timedelta(milliseconds=ms)
    s = dt.strftime("%Y-%m-%dT%H:%M:%S")
    s = "%04d" % dt.year + s[s.index("-"):]
    if ms % 1000:
        s += ".%03d000000" % (ms % 1000)
    return s + "Z"


def oracle(line, out, mode):
    if line.startswith("CLI "):
        from props import c20
        return c20.oracle(line, out, mode)
    tok = line.split(" ")
    if out in ("PANIC", "ABORT", "CRASH"):
        return "%s aborts (%s)" % (tok[0], out)
    if tok[0] == "UNIX":
        t = int(tok[1])
        if out != "OK %d" % (t // 1000 + 946684800):
            return "unix(%d) != floor(t/1000)+946684800, got %s" % (t, out)
    elif tok[0] == "TSTR":
        t = int(tok[1])
        if t <= LAST_9999 and not (out.startswith("OK x") and vlib.canon_rfc3339_hex(out[4:], suffix_ok=False) == "@%d" % (t + OFFSET_MS)):
            return "string(%d) does not denote that instant in RFC 3339 UTC notation (e.g. %s)" % (t, _rfc3339(t))
    elif tok[0] == "TSFMT":
        t, q = int(tok[1]), int(tok[2])
        if t <= LAST_9999 and not (out.startswith("OK x") and vlib.canon_rfc3339_hex(out[4:]) == "@%d %d" % (t + OFFSET_MS, q)):
            return "timestamp display does not denote (that instant, that sequence number)"
    elif tok[0] == "TSTRESS":
        if out != "OK %s SAME" % tok[3]:
            return "formatting by several threads at once differs from formatting by one thread alone: %s" % out[:40]
    elif tok[0] == "TICK":
        # the clock moved from FIRST to LAST (the readings actually taken) while dtn_time_now() ran: its answer must lie in between
        o = out.split(" ")
        if o[0] != "OK" or len(o) != 8:
            return "dtn_time_now() under a ticking clock: %s" % out[:40]
        v, first, last = int(o[1]), int(o[5]), int(o[7])
        if not (first - OFFSET_MS <= v <= last - OFFSET_MS):
            return ("dtn_time_now() = %d is not a current time: the clock read %d .. %d (DTN %d .. %d) during the call"
                    % (v, first, last, first - OFFSET_MS, last - OFFSET_MS))
    elif tok[0] == "REALNOW":
        if out not in ("OK", "SKIP"):
            o = out.split(" ")
            if len(o) == 5 and o[1] == "BAD":
                return ("dtn_time_now() on the real clock = %s, but the Unix clock read %s ms before and %s ms after the call (DTN %d .. %d)"
                        % (o[3], o[2], o[4], int(o[2]) - OFFSET_MS, int(o[4]) - OFFSET_MS))
            return "dtn_time_now() on the real clock: %s" % out[:40]
    elif tok[0] == "NOW":
        c = int(tok[1])
        if c >= OFFSET_MS and out != "OK %d" % (c - OFFSET_MS):
            return "dtn_time_now() != clock - offset"
    return None


def same(line, io, mo):
    if line.startswith("CLI "):
        from props import c20
        return c20.same(line, io, mo)
    return False


def canon(out):
    """TICK lines: how many clock reads a call takes is not part of the property (model: one); what is compared is whether the
    answer lies between the first and the last reading taken"""
    import re
    import runner
    if out and out.startswith("OK x") and " " not in out[3:]:
        # TSTR / TSFMT: beyond year 9999 the property only asks for "no panic"; the wording of the fallback text is free
        try:
            txt = bytes.fromhex(out[4:]).decode("utf-8", "replace")
        except ValueError:
            return out
        if not re.match(r"^[0-9]{4}-[0-9]{2}-[0-9]{2}T", txt):
            return "OK <text that is not an RFC 3339 date>"
        # an RFC 3339 date is compared by the INSTANT it denotes (the number of fraction digits is free), a sequence number behind it verbatim
        c = vlib.canon_rfc3339_hex(out[4:])
        return ("OK " + c) if c else out
    if out and out.startswith("OK ") and " READS " in out:
        o = out.split(" ")
        try:
            v, first, last = int(o[1]), int(o[5]), int(o[7])
            return "OK TICK " + ("current" if first - OFFSET_MS <= v <= last - OFFSET_MS else "not-current")
        except (ValueError, IndexError):
            return out
    return runner.default_canon(out)


def classify(line, out):
    return line.split(" ")[0] + ":" + (out or "").split(" ")[0]


def nontrivial(line, out):
    return True


def search_cases(rng, tier, breaks):
    return cases(rng, "quick")
