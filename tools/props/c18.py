"""C18 — hex helpers (K-hex channel)."""
import itertools
from vlib import xhex, rnd_bytes

THEOREMS = ["C18_unhex_hex", "C18_hex_unhex", "C18_rejects", "C18_total", "C18_tie_hexify", "C18_tie_unhexify"]
REPEAT = 2            # case lines repeated 66 000 times on one thread (state that builds up over many calls)
REPEAT_CMDS = ('HEX', 'UNHEX')
RELEASE = True          # debug and release builds of the harness (debug_assert!, overflow checks, cfg(debug_assertions))
RULE = ("HEX: every byte string of length <= 2 (exhaustive) + seeded random longer ones + every length 0..130 and around every power of two up to 4096 (zeros, ones, random, boundary first/last byte); UNHEX: every string of "
        "length <= 3 (quick) / <= 4 (thorough) over the 26-symbol alphabet {0-9 a-f A-F + - space g e-acute euro} + random "
        "strings up to 40 symbols; a case is non-trivial when its line is distinct and it is a HEX case or an UNHEX case "
        "with non-empty input")
TRUSTED_BASE = ["Rust core: u8::from_str_radix grammar and str slicing rules are modelled (Model/Hex.v), not verified"]
ASSUMPTIONS = ["strings reaching unhexify are valid UTF-8 (Rust &str invariant); non-UTF-8 inputs cannot be passed"]

ALPHABET = [c.encode() for c in "0123456789abcdefABCDEF"] + [b"+", b"-", b" ", b"g", "é".encode(), "€".encode()]
ALPHA_Q = [b"0", b"9", b"a", b"f", b"A", b"F", b"+", b"-", b" ", b"g", "é".encode(), "€".encode()]


def corpus():
    return ["UNHEX x616263", "UNHEX x30c3a9", "UNHEX x2b66", "UNHEX x", "HEX x", "UNHEX x2d31", "UNHEX x4142634f",
            "UNHEX xc3a9", "UNHEX x30e282ac", "UNHEX x2b", "UNHEX x2b2b"]


_CONF = []


def _confusables():
    if not _CONF:
        import re
        import unicodedata
        hexre = re.compile(r"^[0-9a-fA-F]+$")
        for cp in range(0x80, 0x110000):
            if 0xD800 <= cp <= 0xDFFF:
                continue
            ch = chr(cp)
            nk = unicodedata.normalize("NFKC", ch)
            forms = {ch.upper(), ch.lower(), ch.casefold(), nk, unicodedata.normalize("NFKD", ch), nk.upper(), nk.lower()}
            try:
                forms.add(str(unicodedata.digit(ch)))
            except ValueError:
                pass
            if any(hexre.match(f) for f in forms):
                _CONF.append(ch.encode("utf-8"))
    return _CONF


def cases(rng, tier):
    out = []
    for n in range(0, 3):
        for t in itertools.product(range(256), repeat=n):
            out.append("HEX " + xhex(bytes(t)))
    for _ in range(3000 if tier == "quick" else 300000):
        out.append("HEX " + xhex(rnd_bytes(rng, 300)))
    # every length up to 130 (word sizes 2/4/8/16/32/64 and their neighbours lie inside), then around every power of two up to 4096:
    # all-zero, all-ones, random, and random with the first / last byte 0x00, 0x01, 0x0f, 0x10, 0x80, 0xff
    for n in list(range(0, 131)) + [k + d for k in (256, 512, 1024, 2048, 4096) for d in (-1, 0, 1)]:
        out.append("HEX " + xhex(bytes(n)))
        out.append("HEX " + xhex(b"\xff" * n))
        for _ in range(2 if tier == "quick" else 8):
            out.append("HEX " + xhex(bytes(rng.randrange(256) for _ in range(n))))
        if n:
            for e in (0x00, 0x01, 0x0f, 0x10, 0x80, 0xff):
                body = bytes(rng.randrange(256) for _ in range(n - 1))
                out.append("HEX " + xhex(bytes([e]) + body))
                out.append("HEX " + xhex(body + bytes([e])))
    alpha, maxlen = (ALPHABET, 3) if tier == "quick" else (ALPHABET, 4)
    for n in range(0, maxlen + 1):
        for t in itertools.product(alpha, repeat=n):
            out.append("UNHEX " + xhex(b"".join(t)))
    # every string of one or two ASCII characters (all 128, control characters included), and every ASCII character next to a hex digit
    # in each position of a 4-character string
    ascii_all = [bytes([c]) for c in range(128)]
    for a in ascii_all:
        out.append("UNHEX " + xhex(a))
        for b in ascii_all:
            out.append("UNHEX " + xhex(a + b))
    for a in ascii_all:
        for pos in range(4):
            for fill in (b"0", b"a", b"F", b"9"):
                t = [fill] * 4
                t[pos] = a
                out.append("UNHEX " + xhex(b"".join(t)))
    # counts of bad characters at 8- and 16-bit wrap-around: 255 / 256 / 257 / 512 invalid characters, alone and between valid digits
    for bad in (b"+f", b"zz", b"0+", b" 0", b"g0"):
        for k in (127, 128, 129, 255, 256, 257, 512):
            out.append("UNHEX " + xhex(bad * k))
    for k in (255, 256, 257):
        out.append("UNHEX " + xhex(b"0" + "é".encode() * (k // 2) + b"0"))
        out.append("UNHEX " + xhex(b"ab" * k))
    # every 2-byte UTF-8 character (U+0080..U+07FF) as a "pair", and in front of / behind one hex digit
    for cp in range(0x80, 0x800):
        u = chr(cp).encode("utf-8")
        out.append("UNHEX " + xhex(u))
        if tier != "quick" or cp % 8 == 0:
            out.append("UNHEX " + xhex(u + b"0a"))
            out.append("UNHEX " + xhex(b"0" + u + b"a"))
    # every character that some case mapping, case folding, compatibility normalisation or digit-value lookup turns into hex digits
    # (ligature U+FB00 -> "FF", fullwidth and other scripts' digits, superscripts, circled / mathematical letters a-f ..): none is a hex digit
    for u in _confusables():
        out.append("UNHEX " + xhex(u))
        out.append("UNHEX " + xhex(u + u))
        out.append("UNHEX " + xhex(u + b"0"))
        out.append("UNHEX " + xhex(b"a" + u))
        out.append("UNHEX " + xhex(u + b"0a"))
        out.append("UNHEX " + xhex(b"a" + u + b"0"))
    if tier == "quick":
        for t in itertools.product(ALPHA_Q, repeat=4):
            out.append("UNHEX " + xhex(b"".join(t)))
    for _ in range(20000 if tier == "quick" else 1000000):
        n = rng.randrange(0, 41)
        if rng.random() < 0.6:   # mostly valid hex, one possible defect
            s = [rng.choice(ALPHABET[:22]) for _ in range(n - n % 2)]
            r = rng.random()
            if s and r < 0.15:
                s[rng.randrange(len(s))] = bytes([rng.randrange(128)])          # any ASCII character, control characters included
            elif s and r < 0.3:
                s[rng.randrange(len(s))] = rng.choice(ALPHABET[22:])
            elif r < 0.4:
                s.append(rng.choice(ALPHABET))
        else:
            s = [rng.choice(ALPHABET) for _ in range(n)]
        out.append("UNHEX " + xhex(b"".join(s)))
    return out


def _is_hex(s):
    return all(chr(c) in "0123456789abcdefABCDEF" for c in s)


def oracle(line, out, mode):
    cmd, arg = line.split(" ")
    data = bytes.fromhex(arg[1:])
    if cmd == "HEX":
        if out != "S " + xhex(data.hex().encode()):
            return "hexify(%s) is not the lower-case hex string" % arg
        return None
    if len(data) % 2 == 0 and _is_hex(data):
        want = "OK " + xhex(bytes.fromhex(data.decode()))
        if out != want:
            return "even-length hex string not decoded to its bytes (want %s)" % want
        return None
    if out != "ERR":
        return "malformed hex text must be rejected with an error, got %s" % out
    return None


def same(line, io, mo):
    return False


def classify(line, out):
    cmd = line.split(" ")[0]
    return cmd + ":" + (out or "").split(" ")[0]


def nontrivial(line, out):
    return line.startswith("HEX") or len(line) > len("UNHEX x")


def search_cases(rng, tier, breaks):
    return cases(rng, "quick")
