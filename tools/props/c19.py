"""C19 — structurally malformed bundles are rejected by the decoder, never accepted (K-dec on the fault stream).

The injector below is the Python twin of coq/theories/Spec/Faults.v (`apply_fault`): it edits the RFC 9171 item tree that
tools/genb.py's independent reference encoder stands for (own CBOR writer, own bitwise CRCs) and serializes the edited tree.
Fault values are rendered as the token grammar of the model-side `FAULT` command (Run/RunFault.v) so that the two injectors
can be compared byte for byte (see `selfcheck_lines`)."""
import genb
from vlib import xhex, rnd_u64, U64

THEOREMS = ["C19_faults_rejected", "C19_fault_tree_is_rfc", "C19_baseline_accepted", "C19_classes_inhabited"]
RELEASE = True          # debug and release builds of the harness (debug_assert!, overflow checks, cfg(debug_assertions))
RULE = ("DEC x<bytes>: for every generated bundle of the C01 domain (CRC types 0/1/2 per block, dtn / dtn:none / ipn EIDs, fragments, "
        "0-6 extension blocks of the known types 6/7/10 and of unknown types, payload last) EVERY applicable (fault, position) pair of "
        "Spec/Faults.v, injected on the item tree of the Python reference encoder: DropItem / ExtraItem (primary, canonical, timestamp, "
        "ipn pair, hop-count pair), EidExtraItem, EidDropScheme, CrcWrongLength, CrcPresentButType0, CrcAbsentButType12, WrongKind "
        "(negative, float16/32/64, null, text, bytes, array, map at every unsigned field incl. scheme codes, ipn numbers, timestamps, "
        "fragment fields, hop limit/count, bundle age), ArrayReplaced (integer, negative, text, bytes, map at every EID, timestamp, ipn "
        "ssp, block), BytesReplacedByInt (block data, CRC value), UnknownScheme, IpnNodeZero, BadExtData (other shape, trailing bytes, "
        "inner faults), NoBreak, TrailingByte.  Never generated (documented leniencies): definite-length outer array, indefinite-length "
        "inner arrays, tags, non-shortest integers, byte-string field given as text or as array of small integers, anything at a dtn "
        "scheme-specific part (missing / non-text ssp reads as dtn:none), two fragment fields added or removed together (fragment fields "
        "are decided by element count).  Oracle: the implementation must answer ERR; non-trivial = distinct faulty encoding")
TRUSTED_BASE = [
    "serde_cbor 0.11.2 slice deserializer, serde 1.0.229 and serde_bytes 0.11.19 visitor behaviour are modelled (Cbor/SerdeDe.v, "
    "Model/Decode.v) and tied by the K-dec channel on the very fault stream judged here, not verified",
    "tools/genb.py reference encoder + the fault injector of tools/props/c19.py (twin of Spec/Faults.v apply_fault; compared through "
    "the model-side FAULT command)",
]
ASSUMPTIONS = []
XCHECK = 60
_CLASS = {}

# ------------------------------------------------------------------ item trees ------------------------------------
# ("U",n) ("NI",n) ("BS",b) ("TS",b) ("ARR",[items]) ("MAP",[(k,v)]) ("NULL",) ("F16",raw) ("F32",raw) ("F64",raw)


def ser(x):
    k = x[0]
    if k == "U":
        return genb.head(0, x[1])
    if k == "NI":
        return genb.head(1, x[1])
    if k == "BS":
        return genb.head(2, len(x[1])) + bytes(x[1])
    if k == "TS":
        return genb.head(3, len(x[1])) + bytes(x[1])
    if k == "ARR":
        return genb.head(4, len(x[1])) + b"".join(ser(i) for i in x[1])
    if k == "MAP":
        return genb.head(5, len(x[1])) + b"".join(ser(a) + ser(b) for a, b in x[1])
    if k == "NULL":
        return b"\xf6"
    if k == "F16":
        return b"\xf9" + x[1].to_bytes(2, "big")
    if k == "F32":
        return b"\xfa" + x[1].to_bytes(4, "big")
    if k == "F64":
        return b"\xfb" + x[1].to_bytes(8, "big")
    raise ValueError(k)


def show_item(x):
    k = x[0]
    if k in ("U", "NI", "F16", "F32", "F64"):
        return "%s %d" % (k, x[1])
    if k in ("BS", "TS"):
        return "%s %s" % (k, xhex(x[1]))
    if k == "ARR":
        return " ".join(["ARR %d" % len(x[1])] + [show_item(i) for i in x[1]])
    if k == "MAP":
        return " ".join(["MAP %d" % len(x[1])] + [show_item(a) + " " + show_item(b) for a, b in x[1]])
    return "NULL"


def eid_tree(e):
    if e[0] == "DTN":
        return ("ARR", [("U", e[1]), ("TS", e[2])])
    if e[0] == "NONE":
        return ("ARR", [("U", e[1]), ("U", e[2])])
    return ("ARR", [("U", e[1]), ("ARR", [("U", e[2]), ("U", e[3])])])


def with_crc(ctype, items):
    if ctype == 0:
        return list(items)
    w = 2 if ctype == 1 else 4
    zero = ser(("ARR", items + [("BS", bytes(w))]))
    v = (genb.crc16_x25(zero) if ctype == 1 else genb.crc32c(zero)).to_bytes(w, "big")
    return items + [("BS", v)]


def prim_list(p):
    items = [("U", p["ver"]), ("U", p["flags"]), ("U", genb.crc_type(p["crc"])), eid_tree(p["dst"]), eid_tree(p["src"]),
             eid_tree(p["rpt"]), ("ARR", [("U", p["t"]), ("U", p["seq"])]), ("U", p["life"])]
    if p["flags"] & 1:
        items += [("U", p["foff"]), ("U", p["flen"])]
    return with_crc(genb.crc_type(p["crc"]), items)


def data_tree(d):
    k = d[0]
    if k == "AGE":
        return ("U", d[1])
    if k == "HOP":
        return ("ARR", [("U", d[1]), ("U", d[2])])
    if k == "PREV":
        return eid_tree(d[1])
    return None


def data_bytes(d):
    t = data_tree(d)
    return ser(t) if t is not None else d[1]


def canon_list(c):
    items = [("U", c["type"]), ("U", c["num"]), ("U", c["flags"]), ("U", genb.crc_type(c["crc"])), ("BS", data_bytes(c["data"]))]
    return with_crc(genb.crc_type(c["crc"]), items)


# ------------------------------------------------------------------ the injector (twin of Spec/Faults.v) --------------

def wrong_uint(x):
    return x[0] in ("NI", "F16", "F32", "F64", "NULL", "TS", "BS", "ARR", "MAP")


def wrong_arr(x):
    return x[0] in ("U", "NI", "TS", "BS", "MAP")


def is_int(x):
    return x[0] in ("U", "NI")


def apply_pair(pf, orig):
    a, b = orig[1]
    if pf[0] == "PDROP":
        return ("ARR", [b]) if pf[1] == 0 else ("ARR", [a]) if pf[1] == 1 else None
    if pf[0] == "PEXTRA":
        return ("ARR", [a, b, pf[1]])
    if pf[0] == "PKIND" and wrong_uint(pf[2]):
        return ("ARR", [pf[2], b]) if pf[1] == 0 else ("ARR", [a, pf[2]]) if pf[1] == 1 else None
    return None


def apply_eid(ef, orig):
    code, ssp = orig[1]
    k = ef[0]
    if k == "EEXTRA":
        return ("ARR", [code, ssp, ef[1]])
    if k == "EDROPSCHEME":
        return ("ARR", [ssp])
    if k == "ESCHEME":
        return ("ARR", [("U", ef[1]), ssp]) if ef[1] not in (1, 2) and ef[1] < U64 else None
    if k == "ESCHEMEKIND":
        return ("ARR", [ef[1], ssp]) if wrong_uint(ef[1]) else None
    if ssp[0] != "ARR":          # everything below needs an ipn ssp; dtn ssp positions are outside the property
        return None
    if k == "ESSPKIND":
        return ("ARR", [code, ef[1]]) if wrong_arr(ef[1]) else None
    if k == "EIPN":
        t = apply_pair(ef[1], ssp)
        return ("ARR", [code, t]) if t is not None else None
    if k == "EIPNZERO":
        return ("ARR", [code, ("ARR", [("U", 0), ssp[1][1]])])
    return None


def apply_ext(ty, xf, d):
    k = xf[0]
    if k == "XREPL":
        ok = wrong_uint(xf[1]) if ty == 7 else wrong_arr(xf[1])
        return ("BS", ser(xf[1])) if ok else None
    if k == "XTRAIL":
        return ("BS", data_bytes(d) + xf[1]) if len(xf[1]) > 0 else None
    if k == "XPAIR" and ty == 10:
        t = apply_pair(xf[1], data_tree(d))
        return ("BS", ser(t)) if t is not None else None
    if k == "XEID" and ty == 6:
        t = apply_eid(xf[1], data_tree(d))
        return ("BS", ser(t)) if t is not None else None
    return None


def apply_item(kind, itf, orig, cdata):
    k = itf[0]
    if kind == "U":
        return itf[1] if k == "KIND" and wrong_uint(itf[1]) else None
    if kind == "E":
        if k == "KIND":
            return itf[1] if wrong_arr(itf[1]) else None
        return apply_eid(itf[1], orig) if k == "EID" else None
    if kind == "P":
        if k == "KIND":
            return itf[1] if wrong_arr(itf[1]) else None
        return apply_pair(itf[1], orig) if k == "PAIR" else None
    if kind == "C":
        if k == "KIND":
            return itf[1] if is_int(itf[1]) else None
        return ("BS", itf[1]) if k == "CRCLEN" and len(itf[1]) != len(orig[1]) else None
    if kind == "D":
        if k == "KIND":
            return itf[1] if is_int(itf[1]) else None
        if k == "EXT" and cdata is not None and cdata[0] in ("AGE", "HOP", "PREV"):
            return apply_ext({"AGE": 7, "HOP": 10, "PREV": 6}[cdata[0]], itf[1], cdata)
    return None


def prim_kind(p, i):
    frag = bool(p["flags"] & 1)
    n = 10 if frag else 8
    if i in (0, 1, 2, 7) or (frag and i in (8, 9)):
        return "U"
    if i in (3, 4, 5):
        return "E"
    if i == 6:
        return "P"
    if i == n and genb.crc_type(p["crc"]) != 0:
        return "C"
    return None


def canon_kind(c, i):
    if i < 4:
        return "U"
    if i == 4:
        return "D"
    if i == 5 and genb.crc_type(c["crc"]) != 0:
        return "C"
    return None


def apply_blk(bf, lst, ctype, kind_at, cdata):
    k = bf[0]
    if k == "DROP":
        return lst[:bf[1]] + lst[bf[1] + 1:] if bf[1] < len(lst) else None
    if k == "EXTRA":
        return lst + [bf[1]]
    if k == "CRCPRESENT":
        return lst + [("BS", bf[1])] if ctype == 0 else None
    if k == "CRCABSENT":
        return lst[:-1] if ctype != 0 else None
    if k == "AT":
        i = bf[1]
        if i >= len(lst) or kind_at(i) is None:
            return None
        t = apply_item(kind_at(i), bf[2], lst[i], cdata)
        return lst[:i] + [t] + lst[i + 1:] if t is not None else None
    return None


def apply_fault(f, b):
    """the faulty encoding (bytes) or None when the fault is not applicable"""
    blocks = [("ARR", prim_list(b["p"]))] + [("ARR", canon_list(c)) for c in b["cs"]]
    k = f[0]
    if k == "PRIM":
        p = b["p"]
        l = apply_blk(f[1], blocks[0][1], genb.crc_type(p["crc"]), lambda i: prim_kind(p, i), None)
        if l is None:
            return None
        blocks[0] = ("ARR", l)
    elif k == "CAN":
        if f[1] >= len(b["cs"]):
            return None
        c = b["cs"][f[1]]
        l = apply_blk(f[2], blocks[1 + f[1]][1], genb.crc_type(c["crc"]), lambda i: canon_kind(c, i), c["data"])
        if l is None:
            return None
        blocks[1 + f[1]] = ("ARR", l)
    elif k == "BLOCKKIND":
        if f[1] >= len(blocks) or not wrong_arr(f[2]):
            return None
        blocks[f[1]] = f[2]
    elif k == "NOBREAK":
        return b"\x9f" + b"".join(ser(x) for x in blocks)
    elif k == "TRAILING":
        return b"\x9f" + b"".join(ser(x) for x in blocks) + b"\xff" + f[1] if len(f[1]) > 0 else None
    else:
        return None
    return b"\x9f" + b"".join(ser(x) for x in blocks) + b"\xff"


def show_fault(f):
    out = []
    for x in f:
        if isinstance(x, tuple):
            out.append(show_item(x) if x[0] in ("U", "NI", "BS", "TS", "ARR", "MAP", "NULL", "F16", "F32", "F64") else show_fault(x))
        elif isinstance(x, (bytes, bytearray)):
            out.append(xhex(x))
        else:
            out.append(str(x))
    return " ".join(out)


# ------------------------------------------------------------------ enumeration of all applicable faults ---------------

def _kinds_uint(rng):
    """one representative of every item kind the property lists for an unsigned field (payload varied)"""
    txt = rng.choice([b"", b"a", b"7", "é".encode(), b"//n/s"])
    return [("NI", rng.choice([0, 1, 23, 24, 255, rnd_u64(rng)])), ("F16", rng.choice([0, 0x3C00, 0x7C00, 0x7E00, rng.randrange(65536)])),
            ("F32", rng.choice([0, 0x3F800000, 0x7FC00000, rng.randrange(2 ** 32)])),
            ("F64", rng.choice([0, 0x3FF0000000000000, rng.randrange(U64)])), ("NULL",), ("TS", txt),
            ("BS", rng.choice([b"", b"\x00", b"\x07", bytes(rng.randrange(256) for _ in range(rng.randrange(1, 6)))])),
            ("ARR", rng.choice([[], [("U", 0)], [("U", rnd_u64(rng))], [("U", 1), ("U", 2)]])),
            ("MAP", rng.choice([[], [(("U", 0), ("U", 0))], [(("TS", b"a"), ("U", rnd_u64(rng)))]]))]


def _kinds_arr(rng):
    return [("U", rng.choice([0, 1, 2, 7, rnd_u64(rng)])), ("NI", rng.choice([0, rnd_u64(rng)])),
            ("TS", rng.choice([b"", b"dtn:none", b"//n/s", b"ipn:1.1"])), ("BS", rng.choice([b"", b"\x82\x01\x00", b"\x00"])),
            ("MAP", rng.choice([[], [(("U", 1), ("U", 0))]]))]


def _kinds_int(rng):
    return [("U", rng.choice([0, 1, 2, 4, 255, rnd_u64(rng)])), ("NI", rng.choice([0, rnd_u64(rng)]))]


def _extras(rng):
    """items appended as 'an extra trailing item'"""
    return [("U", rng.choice([0, 1, 7, rnd_u64(rng)])), rng.choice([("BS", b""), ("BS", b"\x00\x00"), ("TS", b"x"), ("NULL",),
                                                                    ("ARR", []), ("ARR", [("U", 1), ("U", 0)]), ("NI", 0), ("F16", 0)])]


def _kname(x):
    return {"NI": "negative", "F16": "float16", "F32": "float32", "F64": "float64", "NULL": "null", "TS": "text", "BS": "bytes",
            "ARR": "array", "MAP": "map", "U": "integer"}[x[0]]


def _pair_faults(rng, where):
    out = []
    for i in (0, 1):
        out.append(("DropItem." + where, ("PDROP", i)))
        for x in _kinds_uint(rng):
            out.append(("WrongKind." + _kname(x), ("PKIND", i, x)))
    for x in _extras(rng):
        out.append(("ExtraItem." + where, ("PEXTRA", x)))
    return out


def _eid_faults(rng, e):
    out = []
    for x in _extras(rng):
        out.append(("EidExtraItem", ("EEXTRA", x)))
    out.append(("EidDropScheme", ("EDROPSCHEME",)))
    for k in {0, 3, rng.choice([4, 23, 24, 255]), rng.choice([256, 65536, U64 - 1, max(3, rnd_u64(rng))])}:
        out.append(("UnknownScheme", ("ESCHEME", k)))
    for x in _kinds_uint(rng):
        out.append(("WrongKind." + _kname(x), ("ESCHEMEKIND", x)))
    if e[0] == "IPN":
        for x in _kinds_arr(rng):
            out.append(("ArrayReplaced." + _kname(x), ("ESSPKIND", x)))
        for cls, pf in _pair_faults(rng, "ipn"):
            out.append((cls, ("EIPN", pf)))
        out.append(("IpnNodeZero", ("EIPNZERO",)))
    return out


def _crc_faults(rng, w):
    out = []
    lens = {0, 1, 3, 5, 8, w + 1, w - 1, 6 - w} - {w}
    for n in sorted(lens):
        out.append(("CrcWrongLength", ("CRCLEN", bytes(rng.randrange(256) for _ in range(n)))))
    for x in _kinds_int(rng):
        out.append(("BytesReplacedByInt", ("KIND", x)))
    return out


def block_faults(rng, lst, ctype, kind_at, eids, cdata, where):
    """all block-level faults of one block: [(class, blk_fault)]"""
    out = []
    n_plain = len(lst) - (1 if ctype else 0)
    for i in range(n_plain):
        out.append(("DropItem." + where, ("DROP", i)))
    for x in _extras(rng):
        out.append(("ExtraItem." + where, ("EXTRA", x)))
    if ctype == 0:
        for w in (2, 4):
            out.append(("CrcPresentButType0", ("CRCPRESENT", bytes(rng.randrange(256) for _ in range(w)))))
    else:
        out.append(("CrcAbsentButType12", ("CRCABSENT",)))
    for i in range(len(lst)):
        kind = kind_at(i)
        if kind == "U":
            for x in _kinds_uint(rng):
                out.append(("WrongKind." + _kname(x), ("AT", i, ("KIND", x))))
        elif kind == "E":
            for x in _kinds_arr(rng):
                out.append(("ArrayReplaced." + _kname(x), ("AT", i, ("KIND", x))))
            for cls, ef in _eid_faults(rng, eids[i]):
                out.append((cls, ("AT", i, ("EID", ef))))
        elif kind == "P":
            for x in _kinds_arr(rng):
                out.append(("ArrayReplaced." + _kname(x), ("AT", i, ("KIND", x))))
            for cls, pf in _pair_faults(rng, "timestamp"):
                out.append((cls, ("AT", i, ("PAIR", pf))))
        elif kind == "C":
            for cls, itf in _crc_faults(rng, 2 if ctype == 1 else 4):
                out.append((cls, ("AT", i, itf)))
        elif kind == "D":
            for x in _kinds_int(rng):
                out.append(("BytesReplacedByInt", ("AT", i, ("KIND", x))))
            if cdata[0] in ("AGE", "HOP", "PREV"):
                reps = _kinds_uint(rng) if cdata[0] == "AGE" else _kinds_arr(rng)
                for x in reps:
                    out.append(("BadExtData.shape." + _kname(x), ("AT", i, ("EXT", ("XREPL", x)))))
                for extra in (b"\x00", b"\xff", rng.choice([b"\x00\x00", b"\x82\x01\x00", b"\xf6", bytes([rng.randrange(256)])])):
                    out.append(("BadExtData.trailing", ("AT", i, ("EXT", ("XTRAIL", extra)))))
                if cdata[0] == "HOP":
                    for cls, pf in _pair_faults(rng, "hopcount"):
                        out.append(("BadExtData.inner." + cls, ("AT", i, ("EXT", ("XPAIR", pf)))))
                if cdata[0] == "PREV":
                    for cls, ef in _eid_faults(rng, cdata[1]):
                        out.append(("BadExtData.inner." + cls, ("AT", i, ("EXT", ("XEID", ef)))))
    return out


def all_faults(rng, b):
    """every applicable (class, fault) of bundle b"""
    out = []
    p = b["p"]
    pl = prim_list(p)
    eids = {3: p["dst"], 4: p["src"], 5: p["rpt"]}
    for cls, bf in block_faults(rng, pl, genb.crc_type(p["crc"]), lambda i: prim_kind(p, i), eids, None, "primary"):
        out.append((cls, ("PRIM", bf)))
    for j, c in enumerate(b["cs"]):
        cl = canon_list(c)
        for cls, bf in block_faults(rng, cl, genb.crc_type(c["crc"]), lambda i, c=c: canon_kind(c, i), {}, c["data"], "canonical"):
            out.append((cls, ("CAN", j, bf)))
    for j in range(len(b["cs"]) + 1):
        for x in _kinds_arr(rng):
            out.append(("ArrayReplaced.block." + _kname(x), ("BLOCKKIND", j, x)))
    out.append(("NoBreak", ("NOBREAK",)))
    for extra in (b"\x00", b"\xff", rng.choice([b"\xf6", b"\x9f\xff", b"\xff\xff", bytes([rng.randrange(256)])])):
        out.append(("TrailingByte", ("TRAILING", extra)))
    return out


def rnd_c19_bundle(rng):
    """C01 domain with 0-6 extension blocks of every known and unknown type"""
    return genb.rnd_bundle(rng, nblocks=rng.randrange(0, 7))


def fault_lines(rng, b):
    """[(DEC line, class, fault)] for every applicable fault of b"""
    out = []
    for cls, f in all_faults(rng, b):
        bs = apply_fault(f, b)
        if bs is None:
            raise AssertionError("enumerated fault not applicable: %s" % show_fault(f))
        line = "DEC " + xhex(bs)
        _CLASS.setdefault(line, cls)
        out.append((line, cls, f))
    return out


def selfcheck_lines(rng, n):
    """(FAULT line for the model, expected answer) pairs: Coq apply_fault vs this injector"""
    out = []
    for _ in range(n):
        b = rnd_c19_bundle(rng)
        for cls, f in all_faults(rng, b):
            out.append(("FAULT %s ; %s" % (show_fault(f), genb.show_bundle(b)), "OK " + xhex(apply_fault(f, b))))
    return out


def extra_builds():
    """injector self-check on every run: the Python injector and the extracted `apply_fault` (model command FAULT) must produce the same
    bytes for every applicable fault of a seeded sample of bundles (a mismatch is reported as a break of the check)"""
    import vlib
    what = "C19 injector self-check (tools/props/c19.py apply_fault vs Spec/Faults.v apply_fault through the model command FAULT)"
    try:
        rng = vlib.Rng(190019)
        pairs = selfcheck_lines(rng, 25)
        for b in _fixed_bundles():
            for cls, f in all_faults(rng, b):
                pairs.append(("FAULT %s ; %s" % (show_fault(f), genb.show_bundle(b)), "OK " + xhex(apply_fault(f, b))))
        out = vlib.run_lines(vlib.modelrun_exe(), [l for l, _ in pairs])
        bad = [(l, e, o) for (l, e), o in zip(pairs, out) if e != o]
        if bad:
            l, e, o = bad[0]
            return [(False, what + ": %d of %d differ" % (len(bad), len(pairs)), "case %s\npython %s\nmodel  %s" % (l[:600], e[:600], (o or "")[:600]))]
        return [(True, what + ": %d faults agree" % len(pairs), "")]
    except Exception as e:  # the model executable is missing or too old
        return [(False, what + " could not run", repr(e))]


def _fixed_bundles():
    import vlib
    rng = vlib.Rng(1919)
    out = []
    for ck in (0, 1, 2):
        for frag in (False, True):
            b = genb.rnd_bundle(rng, nblocks=0, crc_kind=ck, fragment=frag)
            b["p"].update(dst=("DTN", 1, b"//d/in"), src=("IPN", 2, 977000, 5), rpt=("NONE", 1, 0))
            n = 5
            for ty, d in ((10, ("HOP", 32, 1)), (7, ("AGE", 300)), (6, ("PREV", ("IPN", 2, 3, 4))), (6, ("PREV", ("DTN", 1, b"//p/"))),
                          (192, ("UNK", b"\x01\x02"))):
                b["cs"].insert(-1, dict(type=ty, num=n + 1, flags=0, crc=genb.rnd_crc_state(rng, ck), data=d))
                n += 1
            out.append(b)
    return out


def corpus():
    import vlib
    rng = vlib.Rng(19)
    out = []
    for b in _fixed_bundles():
        out += [l for l, _, _ in fault_lines(rng, b)]
    return out


def deep_fault_lines(rng, nblocks, k):
    """k faults in the LAST extension block / the payload block of a bundle with `nblocks` blocks in front of them (a decoder that checks only
    the first N blocks, or stops looking after N, lets these through)"""
    small = genb.rnd_bundle(rng, nblocks=1, crc_kind=rng.randrange(3))
    small["cs"][0]["num"], small["cs"][0]["type"], small["cs"][0]["data"] = 2, 7, ("AGE", 5)
    prefix = b"\x9f" + genb.ref_primary(small["p"])[0]
    filler = b"".join(genb.ref_canonical(dict(type=192, num=10 + i, flags=0, crc=("N",), data=("UNK", b"")))[0] for i in range(nblocks))
    out = []
    fl = [(cls, f) for cls, f in all_faults(rng, small)]
    rng.shuffle(fl)
    for cls, f in fl:
        bs = apply_fault(f, small)
        if bs is None or not bs.startswith(prefix) or len(bs) <= len(prefix) + 1:
            continue
        line = "DEC " + xhex(prefix + filler + bs[len(prefix):])
        _CLASS.setdefault(line, cls + " behind %d blocks" % nblocks)
        out.append(line)
        if len(out) >= k:
            break
    return out


def cases(rng, tier):
    out = []
    for n, k in ((40, 30), (300, 12), (3000, 6), (10050, 8 if tier == "quick" else 60), (70000, 2 if tier == "quick" else 8)):
        out += deep_fault_lines(rng, n, k)
    for _ in range(150 if tier == "quick" else 10000):
        out += [l for l, _, _ in fault_lines(rng, rnd_c19_bundle(rng))]
    return out


def oracle(line, out, mode):
    if out == "ERR":
        return None
    if out.startswith("OK"):
        return "fault-injected bundle (%s) accepted: %s" % (_CLASS.get(line, "?"), out[:80])
    return "fault-injected bundle (%s) not answered with an error value: %s" % (_CLASS.get(line, "?"), out[:40])


def same(line, io, mo):
    return False


def classify(line, out):
    return "%s:%s" % (_CLASS.get(line, "?"), (out or "").split(" ")[0])


def nontrivial(line, out):
    return True


def search_cases(rng, tier, breaks):
    out = []
    for _ in range(300):
        out += [l for l, _, _ in fault_lines(rng, rnd_c19_bundle(rng))]
    return out
