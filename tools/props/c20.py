"""C20 — the command-line tool agrees with the library (K-cli channel: the real `bp7` binary as a child process).

Case line (coq/theories/Run/RunCli.v):
  CLI <clock> <nargs> x<arg0> .. x<argN-1> x<stdin> <nfiles> x<name> x<content> ..
Result:  OK <code|ABORT> <T|F stderr non-empty> x<stdout> | OK 0 F ? (Debug dump) | RND 0 <valid> <id ok>
"""
import datetime
import os
import re

import genb
import vlib
from vlib import rnd_u64, U64

THEOREMS = ["C20_encode", "C20_encode_stdin", "C20_decode_payload", "C20_decode_payload_stdin", "C20_time_commands",
            "C20_manifest_canonical"]
OFFSET_MS = 946684800000
LAST_9999 = 252455615999999
RULE = ("CLI lines run by the real bp7 binary (debug build, clock hook through BP7_VERIF_CLOCK_MS) and by the extracted model: "
        "encode with manifests over dtn/ipn/none endpoint IDs (multi-byte UTF-8 names), every humantime unit, sums, fractions and "
        "embedded white space as lifetime, valid and invalid flag words, random key order / comments / blank lines / Unicode white "
        "space, payloads empty / binary (0x00, 0xff, newlines) / 64 KiB, raw and -x output, payload from a file and from stdin; "
        "decode on reference encodings of C01-domain bundles (tools/genb.py) as hex argument and raw on stdin, with and without -p, "
        "plus malformed input; dtntime / d2u on boundary times; rnd (oracle inside the harness); usage paths. "
        "The oracle recomputes the expected output independently: the RFC 9171 reference encoding of the manifest's fields "
        "(genb.ref_bundle), the generated bundle's payload, python datetime for the time commands. "
        "non-trivial = exit status 0 with non-empty standard output")
TRUSTED_BASE = [
    "humantime 2.4.0 parse_duration is modelled completely (Model/Cli.v hparse) and tied by the K-cli channel, not verified",
    "Rust std: env::args, fs::read, str::{split, splitn, trim, contains}, u64::from_str, process exit codes (panic = 101) are modelled",
    "the endpoint-ID text parser is the local transcription Cli.eid_from_str (to be replaced by Model/EidText.v)",
    "harness/src/chan_cli.rs (temp directory, path substitution, child process plumbing, rnd oracle)",
    "tools/genb.py reference encoder + the manifest reader of tools/props/c20.py (independent oracle)",
]
ASSUMPTIONS = [
    "manifests are valid UTF-8 (String::from_utf8_lossy replacement is not modelled)",
    "clock after 2000-01-01T00:00:00.000Z and below 2^64 ms (creation time 0 needs a bundle age block; earlier clocks underflow)",
    "lifetime below 2^64 ms; sub-millisecond parts are dropped by the wire format (as_millis() as u64)",
    "`decode` without -p prints the derived Debug dump: only exit status / stderr are compared; `rnd`, `benchmark` not modelled",
]
XCHECK = 60

# ------------------------------------------------------------------------------------------------
# building the binary (runner.py calls this after the harness build)
# ------------------------------------------------------------------------------------------------


def extra_builds():
    env = dict(vlib.ENV)
    env["RUSTFLAGS"] = "--cfg bp7_verif"
    env["CARGO_TARGET_DIR"] = os.path.join(vlib.CACHE, "target-bin")
    rc, out = vlib.sh(["cargo", "build", "--offline", "-q", "--manifest-path", os.path.join(vlib.REPO, "Cargo.toml"), "--bin", "bp7"],
                      timeout=1800, env=env)
    exe = os.path.join(vlib.CACHE, "target-bin", "debug", "bp7")
    os.environ["BP7_CLI_BIN"] = exe
    vlib.ENV["BP7_CLI_BIN"] = exe
    tmp = os.path.join(vlib.CACHE, "cli-tmp")
    os.makedirs(tmp, exist_ok=True)
    os.environ["BP7_CLI_TMP"] = tmp
    vlib.ENV["BP7_CLI_TMP"] = tmp
    return [(rc == 0 and os.path.exists(exe), "cargo build --bin bp7 (--cfg bp7_verif) against /repo", out)]


# ------------------------------------------------------------------------------------------------
# case lines
# ------------------------------------------------------------------------------------------------

CHUNK = 1024


def xh(b):
    """x<hex>, long strings continued by +<hex> tokens (the model's tokenizer is quadratic in the token length)"""
    b = bytes(b)
    if len(b) <= CHUNK:
        return "x" + b.hex()
    return "x" + b[:CHUNK].hex() + "".join(" +" + b[i:i + CHUNK].hex() for i in range(CHUNK, len(b), CHUNK))


def cli_line(clock, argv, stdin=b"", files=()):
    toks = ["CLI", str(clock), str(len(argv))] + [xh(a) for a in argv] + [xh(stdin), str(len(files))]
    for n, c in files:
        toks += [xh(n), xh(c)]
    return " ".join(toks)


def parse_line(line):
    t = line.split(" ")
    clock = int(t[1])
    n = int(t[2])
    pos = [3]

    def take():
        b = bytes.fromhex(t[pos[0]][1:])
        pos[0] += 1
        while pos[0] < len(t) and t[pos[0]].startswith("+"):
            b += bytes.fromhex(t[pos[0]][1:])
            pos[0] += 1
        return b
    argv = [take() for _ in range(n)]
    stdin = take()
    nf = int(t[pos[0]])
    pos[0] += 1
    files = []
    for _ in range(nf):
        name = take()
        files.append((name, take()))
    return clock, argv, stdin, files


def lookup(name, files):
    for n, c in files:
        if n == name:
            return c
    return None


# ------------------------------------------------------------------------------------------------
# independent reading of a manifest (oracle side): None = outside the property's domain
# ------------------------------------------------------------------------------------------------
UNITS = {}
for _names, _ns in [(("nanos", "nsec", "ns"), 1), (("usec", "us", "µs"), 10 ** 3), (("millis", "msec", "ms"), 10 ** 6),
                    (("seconds", "second", "secs", "sec", "s"), 10 ** 9), (("minutes", "minute", "min", "mins", "m"), 60 * 10 ** 9),
                    (("hours", "hour", "hr", "hrs", "h"), 3600 * 10 ** 9), (("days", "day", "d"), 86400 * 10 ** 9),
                    (("weeks", "week", "wk", "wks", "w"), 604800 * 10 ** 9), (("months", "month", "M"), 2630016 * 10 ** 9),
                    (("years", "year", "yr", "yrs", "y"), 31557600 * 10 ** 9)]:
    for _n in _names:
        UNITS[_n] = _ns
WS = " \t\n\x0b\x0c\r\u0085\u00a0\u1680\u2000\u2001\u2002\u2003\u2004\u2005\u2006\u2007\u2008\u2009\u200a\u2028\u2029\u202f\u205f\u3000"
ITEM = re.compile(r"[%s]*([0-9]+)(?:\.([0-9]+))?[%s]*([A-Za-zµ]+)" % (WS, WS))


def lifetime_ms(text):
    """milliseconds of a humantime duration in the plain grammar (<int>[.<frac>] <unit>)*, None when outside it or when
    any humantime intermediate would overflow (then only model/implementation agreement is checked)"""
    if text == "0":
        return 0
    pos, total = 0, 0
    if not text.strip(WS):
        return None
    while pos < len(text):
        if not text[pos:].strip(WS):
            break
        m = ITEM.match(text, pos)
        if not m:
            return None
        n, frac, unit = int(m.group(1)), m.group(2), m.group(3)
        if unit not in UNITS or n >= 2 ** 53:
            return None
        per = UNITS[unit]
        # humantime multiplies in u64: seconds-based units count seconds, the others nanoseconds
        if per >= 10 ** 9:
            if n * (per // 10 ** 9) >= U64:
                return None
        elif n * per >= U64:
            return None
        ns = n * per
        if frac is not None:
            den = 10 ** len(frac)
            num = int(frac)
            if per == 1 or den >= U64:
                return None
            scale = per if per <= 60 * 10 ** 9 else per // 10 ** 9
            if num * scale >= U64 or (num * scale) % den:
                return None
            ns += num * per // den
        total += ns
        pos = m.end()
        # a unit must be followed by white space, a digit or the end
        if pos < len(text) and not (text[pos] in WS or text[pos].isdigit()):
            return None
    if total // 10 ** 9 >= U64:
        return None
    return total // 10 ** 6


def read_eid(v):
    if v == "dtn:none":
        return ("NONE", 1, 0)
    if v.startswith("dtn://") and v != "dtn://none":
        ssp = v[4:]
        if "/" not in ssp[2:]:
            ssp += "/"
        return ("DTN", 1, ssp.encode())
    m = re.fullmatch(r"ipn:([0-9]+)\.([0-9]+)", v)
    if m and 1 <= int(m.group(1)) < U64 and int(m.group(2)) < U64:
        return ("IPN", 2, int(m.group(1)), int(m.group(2)))
    return None


def flags_valid(w):
    if (w & 0xE218) == 0xE218:
        return False
    if (w & 1) and (w & 4):
        return False
    if (w & 2) and (w & (0x4000 | 0x10000 | 0x20000 | 0x40000)):
        return False
    return True


def read_manifest(data):
    """(fields, warn) for manifests inside the domain, None otherwise"""
    try:
        text = data.decode("utf-8")
    except UnicodeDecodeError:
        return None
    f = dict(dst=("NONE", 1, 0), src=("NONE", 1, 0), rpt=("NONE", 1, 0), life=86400000, flags=0)
    warn = False
    for line in text.split("\n"):
        line = line.strip(WS)
        if not line or "=" not in line:
            continue
        k, v = line.split("=", 1)
        k, v = k.strip(WS), v.strip(WS)
        if k in ("destination", "source", "report_to"):
            e = read_eid(v)
            if e is None:
                return None
            f[{"destination": "dst", "source": "src", "report_to": "rpt"}[k]] = e
        elif k == "lifetime":
            ms = lifetime_ms(v)
            if ms is None or ms >= U64:
                return None
            f["life"] = ms
        elif k == "flags":
            if not re.fullmatch(r"\+?[0-9]+", v) or int(v) >= U64:
                return None
            f["flags"] = int(v)
        else:
            warn = True
    if f["dst"] == ("NONE", 1, 0) or not flags_valid(f["flags"]):
        return None
    return f, warn


def expected_encode(clock, argv, stdin, files):
    """expected stdout bytes of an encode invocation inside the domain, else None"""
    if len(argv) not in (4, 5) or clock <= OFFSET_MS or clock >= U64:
        return None
    if len(argv) == 5 and argv[4] != b"-x":
        return None                 # the documented forms are `encode <manifest> <payload | ->` and the same with `-x`
    man = lookup(argv[2], files)
    if man is None:
        return None
    r = read_manifest(man)
    if r is None:
        return None
    f, warn = r
    payload = stdin if argv[3] == b"-" else lookup(argv[3], files)
    if payload is None:
        return None
    p = dict(ver=7, flags=f["flags"], crc=("N",), dst=f["dst"], src=f["src"], rpt=f["rpt"], t=clock - OFFSET_MS, seq=0,
             life=f["life"], foff=0, flen=0)
    b = dict(p=p, cs=[dict(type=1, num=1, flags=0, crc=("N",), data=("DATA", payload))])
    raw, _ = genb.ref_bundle(b)
    hexmode = len(argv) == 5 and argv[4] == b"-x"
    return (raw.hex().encode() + b"\n" if hexmode else raw), warn


# ------------------------------------------------------------------------------------------------
# generators
# ------------------------------------------------------------------------------------------------
NODES = ["node1", "n", "dtn", "a-5", "knoten-äö", "€", "x" * 23, "home.net", "node:1", "\U0001f680", "none1", "1", "nonesuch", "sensor%41", "GW1"]
SVCS = ["", "in", "incoming", "~news", "a/b/c", "123456", "dienst-ü", "a=b", "x y", "-", "%20", "%7Enews", "inbox#urgent", "a#", "#", "q?x=1", "INBOX"]


def gen_eid_text(rng, allow_none=True):
    r = rng.random()
    if r < 0.1 and allow_none:
        return "dtn:none"
    if r < 0.6:
        n = rng.choice(NODES)
        if rng.random() < 0.2:
            return "dtn://" + n
        return "dtn://" + n + "/" + rng.choice(SVCS)
    return "ipn:%d.%d" % (max(1, rnd_u64(rng)), rnd_u64(rng))


UNIT_NAMES = sorted(UNITS)


def gen_lifetime(rng):
    r = rng.random()
    if r < 0.08:
        return "0"
    if r < 0.2:
        return rng.choice(["1d", "1h", "1h 30m", "1h30m", "90min", "2 weeks 3days", "1.5h", "4.2s", "500ms 500ms", "1y2M",
                           "999999999ns 1ns", "1 h", " 5 s ".strip(), "1500us", "1ns", "0s", "0.001s", "12 hrs 30 mins 5 secs 250 millis",
                           "1µs", "3wk", "7\u00a0days", "1\u2003h"])
    items = []
    for _ in range(rng.choice([1, 1, 1, 2, 2, 3, 5])):
        u = rng.choice(UNIT_NAMES)
        n = rng.choice([0, 1, 2, 10, 59, 60, 1000, 86400, rng.randrange(0, 10 ** 6), rng.randrange(0, 10 ** 9)])
        s = str(n)
        if rng.random() < 0.15 and UNITS[u] > 1:
            s += "." + rng.choice(["5", "25", "125", "0", "50", "001"])
        items.append(s + rng.choice(["", "", " ", "  "]) + u)
    return rng.choice(["", " ", " "]).join(items) if len(items) > 1 and rng.random() < 0.3 else " ".join(items)


def gen_flags(rng, valid=True):
    if not valid:
        return rng.choice([5, 7, 0x4002, 0x10002, 0x20002, 0x40002, 0xE218, 0xFFFFF, U64 - 1, 0x7E27F])
    bits = [0x1, 0x2, 0x4, 0x20, 0x40, 0x4000, 0x10000, 0x20000, 0x40000, 0x8, 0x10, 0x200, 0x2000, 0x80000, 2 ** 40, 2 ** 63]
    for _ in range(50):
        w = 0
        for b in bits:
            if rng.random() < 0.25:
                w |= b
        if flags_valid(w):
            return w
    return 0


def gen_manifest(rng, mutate=None):
    """text of a manifest; `mutate` selects an out-of-domain variant"""
    lines = []
    fields = [("destination", gen_eid_text(rng, allow_none=False))]
    if rng.random() < 0.9:
        fields.append(("source", gen_eid_text(rng)))
    if rng.random() < 0.6:
        fields.append(("report_to", gen_eid_text(rng)))
    if rng.random() < 0.8:
        fields.append(("lifetime", gen_lifetime(rng)))
    if rng.random() < 0.6:
        w = gen_flags(rng, valid=mutate != "flags")
        fields.append(("flags", ("+" if rng.random() < 0.05 else "") + ("00" if rng.random() < 0.05 else "") + str(w)))
    elif mutate == "flags":
        fields.append(("flags", str(gen_flags(rng, valid=False))))
    if mutate == "nodst":
        fields = [f for f in fields if f[0] != "destination"]
        if rng.random() < 0.5:
            fields.append(("destination", "dtn:none"))
    if mutate == "badeid":
        fields.append((rng.choice(["destination", "source", "report_to"]),
                       rng.choice(["dtn:/x", "http://a/", "ipn:0.1", "ipn:1", "ipn:1.2.3", "ipn:a.b", "dtn://none", "node1", "", "ipn:18446744073709551616.0",
                                   "dtn", "ipn:-1.2", "ipn:1. 2"])))
    if mutate == "badlife":
        fields.append(("lifetime", rng.choice(["5", "", "1x", "h", "1.h", "1..5h", "0.5ns", "0.0001ms 1", "18446744073709551616s", "18446744073709551615h",
                                                "1h-", "1,5h", "1 h m", "-1h", "1_000s", "584942417356y", "1000000000y", "18446744073709551615s 1s",
                                                "18446744073709551615ns 18446744073709551615ns", "0.33333333333333333333s", "1e3s", "1H", "1 m sec"])))
    if mutate == "badflags":
        fields.append(("flags", rng.choice(["0x10", "-1", "", "4 4", "18446744073709551616", "1e3", "+", "four", "4.0"])))
    if mutate == "dup":
        fields.append(rng.choice(fields))
        fields.append(("lifetime", gen_lifetime(rng)))
    rng.shuffle(fields)
    for k, v in fields:
        if rng.random() < 0.15:
            lines.append(rng.choice(["", "   ", "# a comment", "#lifetime=1h", "\t", "^# odd", "comment without equals", "priority = high", "=", "==", " = x"]))
        pad = lambda: rng.choice(["", "", "", " ", "  ", "\t", "\u00a0", "\u2003 "])
        lines.append(pad() + k + pad() + "=" + pad() + v + pad())
    text = "\n".join(lines)
    if rng.random() < 0.8:
        text += "\n"
    if rng.random() < 0.05:
        text = text.replace("\n", "\r\n")
    return text.encode("utf-8")


def gen_payload(rng, big=False):
    if big:
        return bytes(rng.randrange(256) for _ in range(65536))
    r = rng.random()
    if r < 0.15:
        return b""
    if r < 0.3:
        return rng.choice([b"\x00", b"\xff", b"\n", b"\r\n", b"\x00\xff\n\x00", b"hallo welt\n", b"-", b"\xc3", bytes(range(256))])
    return vlib.rnd_bytes(rng, 300)


def gen_clock(rng):
    return rng.choice([OFFSET_MS + 1, OFFSET_MS + 2, 1627483500707, 1790000000000, OFFSET_MS + 2 ** 32, OFFSET_MS + LAST_9999,
                       rng.randrange(OFFSET_MS + 1, 2 ** 43), U64 - 1, rng.randrange(OFFSET_MS + 1, U64)])


def encode_case(rng, mutate=None, big=False, clock=None):
    man = gen_manifest(rng, mutate)
    payload = gen_payload(rng, big)
    clock = gen_clock(rng) if clock is None else clock
    files = [(b"@m", man)]
    use_stdin = rng.random() < 0.4
    argv = [b"bp7", b"encode", b"@m", b"-" if use_stdin else b"@p"]
    if not use_stdin:
        files.append((b"@p", payload))
    r = rng.random()
    if r < 0.5:
        argv.append(b"-x")
    elif r < 0.55:
        argv.append(b"-r")      # any other fifth argument means raw
    return cli_line(clock, argv, payload if use_stdin else rng.choice([b"", b"ignored"]), files)


def decode_case(rng, b=None, how=None):
    b = b or genb.reorder(rng, genb.rnd_bundle(rng, nblocks=rng.choice([0, 0, 1, 2, 3, 5, 24])))
    raw, _ = genb.ref_bundle(b)
    how = how or rng.choice(["hex-p", "hex-p", "stdin-p", "stdin-p", "hex", "stdin", "HEX-p"])
    clock = gen_clock(rng)
    if how.startswith("hex") or how.startswith("HEX"):
        h = raw.hex().encode()
        if how.startswith("HEX"):
            h = h.upper()
        argv = [b"bp7", b"decode", h] + ([b"-p"] if how.endswith("-p") else [])
        return cli_line(clock, argv, b"unused")
    argv = [b"bp7", b"decode", b"-"] + ([b"-p"] if how.endswith("-p") else [])
    return cli_line(clock, argv, raw)


NEG = b"bp7-neg"     # argv[0] of decode cases whose input is NOT a reference encoding (oracle: agreement only)


def bad_decode_case(rng):
    raw, _ = genb.ref_bundle(genb.rnd_bundle(rng, nblocks=1))
    k = rng.randrange(7)
    if k == 0:
        return cli_line(1, [NEG, b"decode", raw.hex().encode()[:-1], b"-p"])                  # odd length
    if k == 1:
        return cli_line(1, [NEG, b"decode", b"zz" + raw.hex().encode(), b"-p"])              # not hex
    if k == 2:
        return cli_line(1, [NEG, b"decode", raw[:-1].hex().encode(), b"-p"])                  # break mark missing
    if k == 3:
        return cli_line(1, [NEG, b"decode", b"-", b"-p"], raw[: len(raw) // 2])               # truncated on stdin
    if k == 4:
        return cli_line(1, [NEG, b"decode", b"-", b"-p"], b"")                                 # empty stdin
    if k == 5:
        return cli_line(1, [NEG, b"decode", genb.mutate(rng, raw).hex().encode(), b"-p"])     # mutated
    return cli_line(1, [NEG, b"decode", b"+f" + raw.hex().encode()[2:], b"-p"])               # sign


def _interesting_times():
    ts = [0, 1, 999, 1000, 1001, LAST_9999 - 1, LAST_9999, LAST_9999 + 1, 2 ** 63, U64 - OFFSET_MS - 1, U64 - OFFSET_MS, U64 - 2, U64 - 1,
          680971330872]
    epoch2k = datetime.datetime(2000, 1, 1)
    for (y, m, d) in [(2000, 2, 29), (2000, 3, 1), (2001, 1, 1), (2100, 2, 28), (2100, 3, 1), (2400, 2, 29), (2038, 1, 19), (9999, 12, 31)]:
        base = int((datetime.datetime(y, m, d) - epoch2k).total_seconds()) * 1000
        ts += [base - 1, base, base + 86399999]
    return [t for t in ts if 0 <= t < U64]


def time_cases():
    out = []
    for t in _interesting_times():
        out.append(cli_line(OFFSET_MS + 5, [b"bp7", b"dtntime", str(t).encode()]))
        out.append(cli_line(OFFSET_MS + 5, [b"bp7", b"d2u", str(t).encode()]))
    for c in [OFFSET_MS, OFFSET_MS + 1, 1627483500707, U64 - 1, OFFSET_MS - 1, 0]:
        out.append(cli_line(c, [b"bp7", b"dtntime"]))
    for bad in [b"", b"x", b"-1", b"18446744073709551616", b"1.5", b" 5", b"+5", b"0005", b"\xc3\xa9"]:
        out.append(cli_line(OFFSET_MS + 5, [b"bp7", b"dtntime", bad]))
        out.append(cli_line(OFFSET_MS + 5, [b"bp7", b"d2u", bad]))
    out.append(cli_line(OFFSET_MS + 5, [b"bp7", b"dtntime", b"5", b"6"]))     # args.len() != 3: current time
    out.append(cli_line(OFFSET_MS + 5, [b"bp7", b"d2u"]))
    out.append(cli_line(OFFSET_MS + 5, [b"bp7", b"d2u", b"5", b"6"]))
    return out


def usage_cases():
    c = 1627483500707
    return [cli_line(c, [b"bp7"]), cli_line(c, [b"/usr/local/bin/bp7"]), cli_line(c, [b"bp7", b"help"]), cli_line(c, [b"bp7", b""]),
            cli_line(c, [b"bp7", b"encode"]), cli_line(c, [b"bp7", b"encode", b"@m"], b"", [(b"@m", b"destination=dtn://a/b\n")]),
            cli_line(c, [b"bp7", b"encode", b"@m", b"-", b"-x", b"extra"], b"", [(b"@m", b"destination=dtn://a/b\n")]),
            cli_line(c, [b"bp7", b"decode"]), cli_line(c, [b"bp7", b"decode", b"00", b"-p", b"x"]),
            cli_line(c, [b"bp7", b"Encode", b"@m", b"-"], b"", [(b"@m", b"destination=dtn://a/b\n")]),
            cli_line(c, [b"bp7", b"encode", b"@missing", b"-"]), cli_line(c, [b"bp7", b"encode", b"@m", b"@missing"], b"", [(b"@m", b"destination=dtn://a/b\n")]),
            cli_line(c, [b"bp7", b"\xff"]), cli_line(c, [b"bp7", b"dtntime", b"\xff\xfe"]),
            cli_line(OFFSET_MS, [b"bp7", b"encode", b"@m", b"-"], b"x", [(b"@m", b"destination=dtn://a/b\n")]),       # creation time 0
            cli_line(OFFSET_MS - 1, [b"bp7", b"encode", b"@m", b"-"], b"x", [(b"@m", b"destination=dtn://a/b\n")])]   # before 2000


def rnd_cases():
    c = 1627483500707
    return [cli_line(c, [b"bp7", b"rnd"]), cli_line(c, [b"bp7", b"rnd", b"-r"]), cli_line(c + 1, [b"bp7", b"rnd"]),
            cli_line(c + 2, [b"bp7", b"rnd", b"-r"]), cli_line(c, [b"bp7", b"rnd", b"-x"]), cli_line(OFFSET_MS + 1, [b"bp7", b"rnd", b"-r", b"y"])]


def corpus():
    rng = vlib.Rng(20)
    out = []
    # the README session
    man = b"source=dtn://node1/bla\ndestination=dtn://node2/incoming\nlifetime=1h\n"
    # a payload of more than 10 MiB, from stdin and from a file: "every payload" (implementation only; the oracle compares with the
    # reference encoding)
    bigp = bytes((i * 17 + 9) % 256 for i in range(10 * 1024 * 1024 + 4097))
    out.append("CLIX" + cli_line(1627483500707, [b"bp7", b"encode", b"@m", b"-"], bigp, [(b"@m", man)])[3:])
    out.append("CLIX" + cli_line(1627483500707, [b"bp7", b"encode", b"@m", b"@p"], b"", [(b"@m", man), (b"@p", bigp[:3 * 1024 * 1024 + 1])])[3:])
    out.append(cli_line(1627483500707, [b"bp7", b"encode", b"@m", b"-", b"-x"], b"hallo welt\n", [(b"@m", man)]))
    out.append(cli_line(1627483500707, [b"bp7", b"encode", b"@m", b"@p"], b"", [(b"@m", man), (b"@p", b"hallo welt\n")]))
    out.append(cli_line(1, [b"bp7", b"decode", b"9f880700008201702f2f6e6f6465322f696e636f6d696e6782016b2f2f6e6f6465312f626c61820100821b0000009e8d137d23001a0036ee8085010100004c4b68616c6c6f2077656c740aff", b"-p"]))
    out.append(cli_line(1, [b"bp7", b"decode", b"9f88071a000200040082016e2f2f6e6f646531382f7e74656c6582016e2f2f6e6f646538312f66696c657382016e2f2f6e6f646538312f66696c6573821b0000009e8d0de538001a0036ee80850a020000448218200085010100004443414243ff"]))
    # every unit name once, fractions, all white-space characters around '='
    for u in UNIT_NAMES:
        out.append(cli_line(1627483500707, [b"bp7", b"encode", b"@m", b"-", b"-x"], b"p",
                            [(b"@m", ("destination=ipn:1.2\nlifetime=3%s\n" % u).encode())]))
    for ws in WS:
        if ws != "\n":
            out.append(cli_line(1627483500707, [b"bp7", b"encode", b"@m", b"-"], b"p",
                                [(b"@m", ("%sdestination%s=%sdtn://n/s%s\nlifetime = 1%sh%s\n" % (ws, ws, ws, ws, ws, ws)).encode())]))
    # 64 KiB payloads, both sources and modes
    out.append(encode_case(rng, big=True))
    out.append(encode_case(rng, big=True))
    out += usage_cases() + rnd_cases() + time_cases()
    for b in [genb.rnd_bundle(rng, nblocks=n, crc_kind=ck) for n in (0, 1, 23, 40) for ck in (0, 1, 2)]:
        out.append(decode_case(rng, b, "hex-p"))
        out.append(decode_case(rng, b, "stdin-p"))
    # payloads around the output buffering boundaries of the real binary (Stdout is a LineWriter over a 1024-byte buffer,
    # pipes hold 64 KiB): a newline followed by a long newline-free tail, tails of exactly 1023/1024/1025 bytes, > 64 KiB
    for tail in (1023, 1024, 1025, 3000, 8192, 70000):
        for head in (b"x\n", b"\n", b"line one\r\nline two\n"):
            pb = genb.rnd_bundle(rng, nblocks=1, crc_kind=rng.choice([0, 1, 2]))
            pb["cs"][-1]["data"] = ("DATA", head + bytes((7 * i + 11) % 251 + 1 if (7 * i + 11) % 251 + 1 != 10 else 11 for i in range(tail)))
            out.append(decode_case(rng, pb, "stdin-p" if tail > 30000 else rng.choice(["hex-p", "stdin-p"])))
    # the payload block is not the last block on the wire (a bundle from Bundle::new without sorting, or from a peer): -p still prints it
    for n, pos in ((1, 0), (3, 0), (3, 1), (3, 2), (6, 2)):
        for ck in (0, 1, 2):
            pb = genb.rnd_bundle(rng, nblocks=n, crc_kind=ck)
            pay = pb["cs"].pop()
            pay["data"] = ("DATA", b"payload at position %d of %d\n" % (pos, n + 1))
            pb["cs"].insert(pos, pay)
            out.append(decode_case(rng, pb, "hex-p"))
            out.append(decode_case(rng, pb, "stdin-p"))
    # a bundle without payload block: -p prints nothing
    nb = genb.rnd_bundle(rng, nblocks=2)
    nb["cs"] = nb["cs"][:-1]
    out.append(decode_case(rng, nb, "hex-p"))
    for m in ("flags", "nodst", "badeid", "badlife", "badflags", "dup"):
        out.append(encode_case(rng, m))
    # manifest edge cases (most of them outside the domain: agreement only)
    c = 1627483500707
    for man in [b"\xef\xbb\xbfdestination=dtn://a/b\n", b"destination=dtn://a/b\x00\n", b"destination=dtn://a\x00/b\nlifetime=5\xc2\xb5s", b"", b"\n\n",
                b"destination=dtn://a/b\rsource=dtn://c/d\r", b"destination=ipn:+5.+0\nflags=+0", b"destination=dtn://a/b\nlifetime=1\xc2\xb5s 1\xce\xbcs",
                b"destination=dtn://a/b\nlifetime=\xe2\x80\x83 1 \xe2\x80\x83 h", b"destination=dtn://a/b\nlifetime=1h\xe3\x80\x802m", b"destination==dtn://a/b",
                b"destination=dtn://a/b=c\n=\n", b"destination=dtn:////\nsource=dtn://", b"destination=dtn://a/b\nDestination=dtn:none",
                b"destination=dtn://a/b\nflags=18446744073709551615", b"destination=dtn://a/b\nflags=1", b"destination=dtn://a/b\nlifetime=584542046y",
                b"destination=dtn://a/b\nlifetime=584942417y", b"destination=dtn://a/b\nlifetime=18446744073709551s 615ms",
                b"destination=dtn://a/b\nlifetime=18446744073709551s 616ms", b"destination=dtn://a/b\nlifetime=1h 30m\nlifetime=0"]:
        out.append(cli_line(c, [b"bp7", b"encode", b"@m", b"-", b"-x"], b"p", [(b"@m", man)]))
    # every flag bit on its own and every pair of flag bits: a valid flag word is printed, an invalid one refused (the rules look at
    # combinations: administrative record with a report request, must-not-fragment with is-fragment ...)
    bits = [0x1, 0x2, 0x4, 0x20, 0x40, 0x4000, 0x10000, 0x20000, 0x40000, 0x8, 0x10, 0x200, 0x2000, 0x80000, 2 ** 40, 2 ** 63]
    for i, b1 in enumerate(bits):
        for b2 in bits[i:]:
            out.append(cli_line(c, [b"bp7", b"encode", b"@m", b"-", b"-x"], b"p", [(b"@m", b"destination=dtn://a/b\nflags=%d\n" % (b1 | b2))]))
    out.append(cli_line(c, [b"bp7", b"encode", b"@m", b"@m"], b"", [(b"@m", b"destination=dtn://a/b\n")]))          # manifest as payload
    out.append(cli_line(c, [b"bp7", b"encode", b"@m", b"@m", b"-x"], b"", [(b"@m", b"destination=dtn://a/b\n"), (b"@m", b"other")]))
    return out


def cases(rng, tier):
    out = []
    n = 1 if tier == "quick" else 60
    for _ in range(110 * n):
        out.append(encode_case(rng))
    for m, k in (("flags", 8), ("nodst", 4), ("badeid", 13), ("badlife", 23), ("badflags", 9), ("dup", 8)):
        for _ in range(k * n):
            out.append(encode_case(rng, m))
    for _ in range(60 * n):
        out.append(decode_case(rng))
    for _ in range(10 * n):
        out.append(bad_decode_case(rng))
    if tier != "quick":
        for _ in range(2000):
            t = rnd_u64(rng)
            out.append(cli_line(gen_clock(rng), [b"bp7", rng.choice([b"dtntime", b"d2u"]), str(t).encode()]))
        for _ in range(20):
            out.append(encode_case(rng, big=True))
    return out


# ------------------------------------------------------------------------------------------------
# oracle: the property itself, judged on the implementation's output
# ------------------------------------------------------------------------------------------------

def _rfc3339(t):
    ms = t + OFFSET_MS
    dt = datetime.datetime(1970, 1, 1) + datetime.timedelta(milliseconds=ms)
    s = "%04d" % dt.year + dt.strftime("-%m-%dT%H:%M:%S")
    if ms % 1000:
        s += ".%03d000000" % (ms % 1000)
    return s + "Z"


def _stdout(out):
    t = out.split(" ")
    if len(t) == 4 and t[0] == "OK" and t[3].startswith("x"):
        return t[1], t[2], bytes.fromhex(t[3][1:])
    return None


def oracle(line, out, mode):
    clock, argv, stdin, files = parse_line(line)
    if out in ("PANIC", "CRASH", "NOBIN", "NOTMP", "NOSPAWN", "NOWAIT", "BADCASE"):
        return "harness could not run the case: %s" % out
    cmd = argv[1] if len(argv) > 1 else None
    if not in_domain(line):
        return None            # wrong usage / undocumented forms: the tool's reaction is unspecified
    if cmd == b"rnd":
        if clock > OFFSET_MS and out != "RND 0 T T":
            return "rnd: output does not decode / validate / match the printed id (%s)" % out
        return None
    if cmd == b"encode":
        exp = expected_encode(clock, argv, stdin, files)
        if exp is None:
            return None                       # outside the domain: only model/implementation agreement
        data, warn = exp
        r = _stdout(out)
        if r is None or r[0] != "0":
            return "encode aborts or fails on a manifest inside the domain: %s" % out[:60]
        if r[2] != data:
            return "encode output is not the encoding of the manifest's fields and payload"
        # whether and what the tool writes to stderr (warnings about unknown manifest keys ..) is not specified
        return None
    if cmd == b"decode" and len(argv) == 4 and argv[3] == b"-p" and argv[0] != NEG:
        raw = stdin if argv[2] == b"-" else None
        if raw is None:
            try:
                raw = bytes.fromhex(argv[2].decode("ascii"))
            except (ValueError, UnicodeDecodeError):
                return None
            if not re.fullmatch(rb"[0-9a-fA-F]*", argv[2]):
                return None
        exp = _payload_of_reference(raw)
        if exp is None:
            return None
        r = _stdout(out)
        if r is None or r[0] != "0":
            return "decode -p fails on an encoded bundle: %s" % out[:60]
        if r[2] != exp:
            return "decode -p does not print exactly the payload bytes"
        return None
    if cmd in (b"dtntime", b"d2u") and len(argv) == 3 and re.fullmatch(rb"[0-9]+", argv[2]) and int(argv[2]) < U64:
        t = int(argv[2])
        r = _stdout(out)
        if r is None or r[0] != "0":
            return "%s aborts: %s" % (cmd.decode(), out[:60])
        if cmd == b"d2u" and r[2] != b"%d\n" % (t // 1000 + 946684800):
            return "d2u does not print unix()"
        if cmd == b"dtntime" and t <= LAST_9999 and vlib.canon_rfc3339_hex(r[2].hex(), suffix_ok=False) != "@%d" % (t + OFFSET_MS):
            return "dtntime does not print that instant in RFC 3339 UTC notation"
        return None
    if cmd == b"dtntime" and len(argv) == 2 and OFFSET_MS <= clock < U64:
        r = _stdout(out)
        if r is None or r[0] != "0" or r[2] != b"%d\n" % (clock - OFFSET_MS):
            return "dtntime without argument does not print dtn_time_now()"
    return None


_REF = {}


def _payload_of_reference(raw):
    """payload of a byte string that is the reference encoding of a generated bundle: a tiny independent CBOR walk
    (indefinite array of definite arrays; element 0 of a canonical block is its type, element 4 its data)"""
    try:
        if raw[:1] != b"\x9f" or raw[-1:] != b"\xff":
            return None
        pos = 1
        blocks = []
        while pos < len(raw) - 1:
            items, pos = _read_array(raw, pos)
            blocks.append(items)
        if pos != len(raw) - 1 or len(blocks) < 1:
            return None
        for it in blocks[1:]:
            if it[0] == 1 and it[1] == 1 and isinstance(it[4], bytes):
                return it[4]
            if it[0] == 1:
                return None
        return b""
    except (IndexError, ValueError, TypeError, KeyError):
        return None


def _read_head(raw, pos):
    ib = raw[pos]
    major, ai = ib >> 5, ib & 31
    pos += 1
    if ai < 24:
        return major, ai, pos
    w = {24: 1, 25: 2, 26: 4, 27: 8}[ai]
    return major, int.from_bytes(raw[pos:pos + w], "big"), pos + w


def _read_item(raw, pos):
    major, n, pos = _read_head(raw, pos)
    if major == 0:
        return n, pos
    if major in (2, 3):
        if pos + n > len(raw):
            raise ValueError
        return (raw[pos:pos + n] if major == 2 else raw[pos:pos + n].decode()), pos + n
    if major == 4:
        items = []
        for _ in range(n):
            it, pos = _read_item(raw, pos)
            items.append(it)
        return items, pos
    raise ValueError


def _read_array(raw, pos):
    it, pos = _read_item(raw, pos)
    if not isinstance(it, list):
        raise ValueError
    return it, pos


def in_domain(line):
    """does the property say anything about this invocation?  (wrong usage, unreadable files, malformed manifests, undecodable input,
    `decode` without -p, bad timestamps: the tool's reaction - exit status, usage text, panic or message - is unspecified)"""
    try:
        clock, argv, stdin, files = parse_line(line)
    except Exception:
        return True
    cmd = argv[1] if len(argv) > 1 else None
    if cmd == b"rnd":
        return clock > OFFSET_MS and argv[2:] in ([], [b"-r"])       # the documented forms: `rnd`, `rnd -r`
    if cmd == b"encode":
        return expected_encode(clock, argv, stdin, files) is not None
    if cmd == b"decode" and len(argv) == 4 and argv[3] == b"-p" and argv[0] != NEG:
        raw = stdin if argv[2] == b"-" else None
        if raw is None:
            if not re.fullmatch(rb"[0-9a-fA-F]*", argv[2]) or len(argv[2]) % 2:
                return False
            raw = bytes.fromhex(argv[2].decode("ascii"))
        return _payload_of_reference(raw) is not None
    if cmd in (b"dtntime", b"d2u") and len(argv) == 3:
        return bool(re.fullmatch(rb"[0-9]+", argv[2])) and int(argv[2]) < U64
    if cmd == b"dtntime" and len(argv) == 2:
        return OFFSET_MS <= clock < U64
    return False


def canon(out):
    """`OK <exit status> <anything on stderr? T|F> x<stdout>`: whether the tool writes to stderr (warnings about comment lines or unknown
    manifest keys, the ID `rnd` prints ..) is not specified by the property and not compared"""
    import runner
    t = (out or "").split(" ")
    if len(t) == 4 and t[0] == "OK" and t[2] in ("T", "F"):
        t[2] = "-"
        return " ".join(t)
    return runner.default_canon(out)


def same(line, io, mo):
    if line.startswith("CLIX "):
        return True                # implementation + oracle only
    return _same(line, io, mo)


def _same(line, io, mo):
    """model/implementation differences that are NOT a broken correspondence: invocations the property does not speak about, and the
    wording of the text `dtntime` prints for a time beyond year 9999 (only 'prints something, exit 0' is specified there)"""
    if not in_domain(line):
        return True
    clock, argv, stdin, files = parse_line(line)
    if len(argv) == 3 and argv[1] == b"dtntime" and int(argv[2]) > LAST_9999:
        return (io or "").startswith("OK 0 ") and (mo or "").startswith("OK 0 ")
    if len(argv) == 3 and argv[1] == b"dtntime":
        # an RFC 3339 text is compared by the instant it denotes (the number of fraction digits is free)
        ri, rm = _stdout(io or ""), _stdout(mo or "")
        if ri and rm and ri[0] == rm[0] == "0":
            ci = vlib.canon_rfc3339_hex(ri[2].hex(), suffix_ok=False)
            return ci is not None and ci == vlib.canon_rfc3339_hex(rm[2].hex(), suffix_ok=False)
    return False


def classify(line, out):
    argv = parse_line(line)[1]
    cmd = argv[1].decode("latin-1") if len(argv) > 1 else "-"
    o = (out or "").split(" ")
    return "%s:%s" % (cmd[:8], " ".join(o[:2]))


def nontrivial(line, out):
    o = (out or "").split(" ")
    return (len(o) == 4 and o[0] == "OK" and o[1] == "0" and len(o[3]) > 1) or (out or "").startswith("RND 0 T T")


def search_cases(rng, tier, breaks):
    return cases(rng, "quick")
