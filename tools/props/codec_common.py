"""Shared pieces of the codec property modules (C01-C05)."""
import genb
from vlib import xhex

CODEC_TRUSTED = [
    "serde_cbor 0.11.2 slice deserializer / serializer, serde 1.0.229 and serde_bytes 0.11.19 visitor behaviour are modelled "
    "(Cbor/SerdeDe.v, Model/Encode.v, Model/Decode.v) and tied by the K-enc/K-dec channels, not verified",
    "crate crc 3.4.0 table-driven implementation is tied to Spec/CrcSpec.v (bitwise, parameters regenerated from crc-catalog) by the K-crc channel",
    "tools/genb.py: independent Python RFC 9171 reference encoder with its own bitwise CRCs (oracle)",
]


def boundary_bundles():
    """hand-picked bundles: 0 blocks besides payload, 22..25 and 300 extension blocks, every CRC mix, huge integers"""
    import vlib
    rng = vlib.Rng(424242)
    out = []
    for n in (0, 1, 2, 21, 22, 23, 24, 25, 40, 300):
        for ck in (0, 1, 2, None):
            out.append(genb.rnd_bundle(rng, nblocks=n, crc_kind=ck))
    out.append(genb.rnd_bundle(rng, nblocks=3, fragment=True))
    out.append(genb.rnd_bundle(rng, nblocks=3, fragment=False))
    # block orders a peer may use but the library's builders never produce: ascending (2, 3, 4, payload 1), shuffled, sparse
    for n in (2, 3, 5, 24):
        for ck in (0, 1, 2):
            b = genb.rnd_bundle(rng, nblocks=n, crc_kind=ck)
            for c, v in zip(b["cs"][:-1], range(2, n + 2)):
                c["num"] = v
            out.append(b)
    for _ in range(12):
        b = genb.rnd_bundle(rng, nblocks=rng.randrange(2, 7))
        while b["cs"][0]["num"] > b["cs"][1]["num"]:
            b = genb.reorder(rng, b)
        out.append(b)
    # blocks whose correct CRC-16 is exactly 0x0000 (indistinguishable by value from the never-calculated placeholder)
    out += genb.zero_crc_bundles()
    return out


def bundle_cases(rng, n):
    return [genb.reorder(rng, genb.rnd_bundle(rng), free=True) for _ in range(n)]


def same_content(a, b):
    """equal except for stored CRC values (CRC type must agree)"""
    return genb.strip_crc_values(a) == genb.strip_crc_values(b)


def crcs_filled(b):
    return all(c["crc"][0] in ("N", "V16", "V32") for c in [b["p"]] + b["cs"])


def split_out(out, *markers):
    """split an output line 'OK a.. M1 b.. M2 c..' at the marker tokens"""
    toks = out.split(" ")
    parts, cur = [], []
    ms = list(markers)
    for t in toks:
        if ms and t == ms[0]:
            parts.append(cur)
            cur = []
            ms.pop(0)
        else:
            cur.append(t)
    parts.append(cur)
    return parts


def sibling(rng, b):
    """a bundle with the SAME identity (source, creation timestamp, fragment offset, CRC types) as b but different other fields:
    what a per-thread cache keyed by the bundle ID would confuse with b"""
    import copy
    c = copy.deepcopy(b)
    p = c["p"]
    k = rng.randrange(6)
    if k == 0:
        p["life"] = (p["life"] + rng.choice([1, 1000, 2 ** 32])) % 2 ** 64
    elif k == 1:
        p["dst"] = genb.rnd_eid(rng)
    elif k == 2:
        p["rpt"] = genb.rnd_eid(rng)
    elif k == 3:
        p["flags"] ^= rng.choice([0x4, 0x20, 0x40, 0x4000, 0x10000, 0x20000, 0x40000]) if not (p["flags"] & 1) else rng.choice([0x20, 0x40, 0x4000])
    elif k == 4 and (p["flags"] & 1):
        p["flen"] = (p["flen"] + 1) % 2 ** 64
    else:
        p["life"] = (p["life"] * 3 + 7) % 2 ** 64
        p["dst"] = genb.rnd_eid(rng)
    if rng.random() < 0.3 and c["cs"]:
        blk = c["cs"][-1]
        if blk["data"][0] == "DATA":
            blk["data"] = ("DATA", blk["data"][1] + b"!")
    return c


def pair_lines(rng, n, mk_line):
    """PAIR lines: a bundle, then a sibling with the same identity (and sometimes the first one again), by one thread"""
    out = []
    for _ in range(n):
        b = genb.reorder(rng, genb.rnd_bundle(rng, nblocks=rng.randrange(0, 4), crc_kind=rng.choice([None, 0, 1, 2])))
        c = sibling(rng, b)
        parts = [mk_line(b), mk_line(c)] + ([mk_line(b)] if rng.random() < 0.3 else [])
        out.append("PAIR " + " || ".join(parts))
    return out
