#!/usr/bin/env python3
"""Regression over everything under seeded/: every seeded change must still be caught by the check of the property it attacks,
every harmless change (seeded/H*) must still raise no alarm on any check.  Runs on the private slots of tools/confirm_pool.py
(/tmp/vpool), never on /repo's working tree.      usage: tools/regress_seeded.py [slots] [name-prefix ...]"""
import glob
import json
import os
import subprocess
import sys

import confirm_pool as cp

ALL = ["C%02d" % i for i in range(1, 21)]


def main():
    args = sys.argv[1:]
    nslots = int(args[0]) if args and args[0].isdigit() else 4
    prefixes = [a for a in args if not a.isdigit()]
    jobs = []
    for d in sorted(glob.glob(os.path.join(cp.VERIF, "seeded", "*"))):
        name = os.path.basename(d)
        if name.startswith(("N", "X")):    # N: reclassified, not a violation of the property as stated; X: missed and out of reach (meta.json)
            continue
        if prefixes and not any(name.startswith(p) for p in prefixes):
            continue
        patch = os.path.join(d, "patch.diff")
        if not os.path.exists(patch):
            continue
        if name.startswith("H"):
            for c in (os.environ.get("REGRESS_CHECKS", "").split(",") if os.environ.get("REGRESS_CHECKS") else ALL):     # REGRESS_CHECKS=C01,C05: harmless sets on these checks only
                jobs.append(dict(name=name, patch=patch, check=c, want="quiet"))
        else:
            meta = json.load(open(os.path.join(d, "meta.json")))
            jobs.append(dict(name=name, patch=patch, check=meta["breaks_property"], want="caught"))
    slots = [cp.setup_slot(k) for k in range(nslots)]

    def work(j, k):
        v, r = slots[k]
        cp.run("git checkout -q -- . && git clean -fdq src tests", r)
        rc, out = cp.run("git apply %s" % j["patch"], r)
        if rc:
            j["got"] = "patch does not apply"
            return
        env = dict(os.environ, BP7_REPO=r, VERIF_EVIDENCE_DIR=os.path.join(v, ".cache", "mutant-evidence"))
        p = subprocess.run([os.path.join(v, "check"), j["check"], "--tier", "quick"], cwd=v, stdout=subprocess.PIPE, stderr=subprocess.PIPE, env=env)
        o = p.stdout.decode("utf-8", "replace")
        vio = [l for l in o.split("\n") if l.startswith("VIOLATION")]
        j["got"] = "caught" if (p.returncode != 0 and vio) else "quiet" if p.returncode == 0 else "rc=%d" % p.returncode
        j["line"] = vio[0] if vio else ""
        cp.run("git checkout -q -- . && git clean -fdq src tests", r)

    cp.pool(work, jobs, nslots)
    bad = 0
    for j in jobs:
        ok = j.get("got") == j["want"]
        bad += not ok
        print("%s %-55s %s want=%s got=%s %s" % ("ok  " if ok else "FAIL", j["name"], j["check"], j["want"], j.get("got"), j.get("line", "")[:90]))
    print("regression: %d job(s), %d not as wanted" % (len(jobs), bad))
    return 1 if bad else 0


if __name__ == "__main__":
    sys.exit(main())
