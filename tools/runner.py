"""Per-property run: translator -> proofs -> builds -> correspondence -> oracle -> evidence."""
import collections
import json
import os
import re
import time

import vlib
from vlib import log

TRUSTED_BASE_COMMON = [
    "Coq 8.16.1 kernel incl. vm_compute (no native_compute)",
    "tools/gen_consts.py (translator: constants/flag bits/CRC catalogue parameters from /repo/src and the vendored crc-catalog)",
    "tools/gen_tables.py + harness/src/tables.rs (translator, part 2: complete behaviour tables of the compiled crate's finite-domain functions, observed at property level -> Gen/Tbl_<NAME>.v; Proofs/Tie*.v re-proves model = table on every run)",
    "extraction: ExtrOcamlBasic only, no Extract Constant / Extract Inductive of our own; OCaml 4.13.1 ocamlopt",
    "ocaml/modelrun.ml (char <-> extracted byte conversion, line loop)",
    "harness/ (Rust, case-line parsing/printing, catch_unwind) built against /repo with --cfg bp7_verif",
    "tools/runner.py + tools/props/*.py (generators, diff, oracles)",
]


def first_error(out):
    m = re.search(r"(File \"[^\"]+\", line \d+, characters [^\n]*\n(?:.*\n){0,12})", out)
    return (m.group(1) if m else out[-1500:]).strip()


def run_cases(exe, lines, mode_prefix=None, env=None):
    if mode_prefix:
        lines = [mode_prefix + " " + l for l in lines]
    return vlib.run_lines_isolating(exe, lines, env=env) if env else vlib.run_lines_isolating(exe, lines)


_INVALID_N = re.compile(r"INVALID \d+")
_ERR_KIND = re.compile(r"\bERR [A-Z][A-Za-z]+")


def _mask_dont_care(out):
    """C07 declares the stale reserved-bits masks don't-care: a bundle whose control flags contain all of 0xE218, or one of whose blocks
    has control flags containing all of 0xF0, may be accepted or rejected.  Wherever a result line prints a bundle followed by the
    library's verdict on it (`.. B P <ver> <flags> .. [ C <type> <num> <flags> .. ] FINAL VALID|INVALID n`, `.. <bundle> VALID|INVALID`),
    the verdict on such a bundle is replaced by DONTCARE on both sides of the diff."""
    if " VALID" not in out and " INVALID" not in out:
        return out
    t = out.split(" ")
    dc = False
    for i, x in enumerate(t):
        try:
            if x == "B":
                dc = False
            elif x == "DTN" and i + 2 < len(t) and t[i + 1] == "1" and t[i + 2] == "x6e6f6e65":
                dc = True          # an endpoint whose dtn NAME is the text "none": anonymous or not is undecided (props/c07.py dont_care)
            elif x == "P" and i + 2 < len(t) and (int(t[i + 2]) & 0xE218) == 0xE218:
                dc = True
            elif x == "C" and i + 3 < len(t) and (int(t[i + 3]) & 0xF0) == 0xF0:
                dc = True
        except ValueError:
            pass
        if dc and x in ("VALID", "INVALID") and i > 0 and t[i - 1] in ("FINAL", "]"):
            t[i] = "DONTCARE"
            if x == "INVALID" and i + 1 < len(t) and t[i + 1].isdigit():
                t[i + 1] = ""
    return " ".join(y for y in t if y != "")


def default_canon(out):
    """canonical form for the model/implementation diff: error counts and error kinds are not part of any property
    (a refactoring that merges two validation messages or returns another error variant is harmless); verdicts on bundles inside
    the property's don't-care masks are not compared"""
    if out is None:
        return out
    return _mask_dont_care(_ERR_KIND.sub("ERR", _INVALID_N.sub("INVALID", out)))


class RepeatAware(object):
    """`REPEAT <n> <line>` = the same case line executed n times in a row by one implementation thread; output = `<first answer> SAME`, or
    `<first answer> DIFF@<k> <k-th answer>` when an answer differs from the first.  The inner line is judged by the property module on
    the first answer; a DIFF is a violation by itself (the functions under test are functions)."""

    def __init__(self, P):
        self._P = P

    def __getattr__(self, name):
        return getattr(self._P, name)

    @staticmethod
    def _split(line, out):
        inner = line.split(" ", 2)[2]
        o = out if out is not None else ""
        if " DIFF@" in o:
            first, _, rest = o.partition(" DIFF@")
            return inner, first, rest
        if o.endswith(" SAME"):
            return inner, o[:-5], None
        return inner, o, None

    def oracle(self, line, out, mode):
        if not line.startswith("REPEAT "):
            return self._P.oracle(line, out, mode)
        inner, first, diff = self._split(line, out)
        if diff is not None:
            return "the same call repeated on one thread answers differently: call %s" % diff[:120]
        return self._P.oracle(inner, first, mode)

    def same(self, line, io, mo):
        if not line.startswith("REPEAT "):
            return self._P.same(line, io, mo)
        inner, fi, di = self._split(line, io)
        _, fm, _ = self._split(line, mo)
        return di is None and (fi == fm or self._P.same(inner, fi, fm))

    def classify(self, line, out):
        if not line.startswith("REPEAT "):
            return self._P.classify(line, out)
        inner, first, diff = self._split(line, out)
        return "REPEAT:" + self._P.classify(inner, first)

    def nontrivial(self, line, out):
        if not line.startswith("REPEAT "):
            return self._P.nontrivial(line, out)
        inner, first, _ = self._split(line, out)
        return self._P.nontrivial(inner, first)

    def known_class(self, line, out):
        if not hasattr(self._P, "known_class"):
            return None
        if not line.startswith("REPEAT "):
            return self._P.known_class(line, out)
        inner, first, _ = self._split(line, out)
        return self._P.known_class(inner, first)


class PairAware(object):
    """`PAIR <line 1> || <line 2> ..` = several case lines executed one after the other by the same implementation thread (state that
    survives between calls is shared); output = the outputs joined by ` || `.  The property module's judgement functions are applied
    part by part."""

    def __init__(self, P):
        self._P = P

    def __getattr__(self, name):
        return getattr(self._P, name)

    @staticmethod
    def _parts(line, out):
        ls = line[5:].split(" || ")
        os_ = (out if out is not None else "").split(" || ")
        return ls, (os_ if len(os_) == len(ls) else None)

    def oracle(self, line, out, mode):
        if not line.startswith("PAIR "):
            return self._P.oracle(line, out, mode)
        ls, os_ = self._parts(line, out)
        if os_ is None:
            return "a line of %d commands does not give %d answers: %s" % (len(ls), len(ls), (out or "")[:60])
        for i, (l, o) in enumerate(zip(ls, os_)):
            v = self._P.oracle(l, o, mode)
            if v:
                return "command %d of %d executed in a row by one thread: %s" % (i + 1, len(ls), v)
        return None

    def same(self, line, io, mo):
        if not line.startswith("PAIR "):
            return self._P.same(line, io, mo)
        ls, ios = self._parts(line, io)
        _, mos = self._parts(line, mo)
        if ios is None or mos is None:
            return False
        return all(a == b or self._P.same(l, a, b) for l, a, b in zip(ls, ios, mos))

    def classify(self, line, out):
        if not line.startswith("PAIR "):
            return self._P.classify(line, out)
        ls, os_ = self._parts(line, out)
        return "PAIR:" + self._P.classify(ls[-1], os_[-1] if os_ else out)

    def nontrivial(self, line, out):
        if not line.startswith("PAIR "):
            return self._P.nontrivial(line, out)
        ls, os_ = self._parts(line, out)
        return os_ is not None and any(self._P.nontrivial(l, o) for l, o in zip(ls, os_))

    def known_class(self, line, out):
        if not hasattr(self._P, "known_class"):
            return None
        if not line.startswith("PAIR "):
            return self._P.known_class(line, out)
        ls, os_ = self._parts(line, out)
        for l, o in zip(ls, os_ or []):
            c = self._P.known_class(l, o)
            if c:
                return c
        return None


def _structured_canon(canon):
    """the property's canonical form applied answer by answer: the answers of a PAIR line are joined by ` || `, the answer of a REPEAT
    segment carries ` SAME` / ` DIFF@k ..` behind the first answer"""
    def one(p):
        tail = ""
        if p.endswith(" SAME"):
            p, tail = p[:-5], " SAME"
        elif " DIFF@" in p:
            p, _, rest = p.partition(" DIFF@")
            tail = " DIFF@" + rest
        return "%s%s" % (canon(p), tail)

    def f(out):
        if out is None or (" || " not in out and not out.endswith(" SAME") and " DIFF@" not in out):
            return canon(out)
        return " || ".join(one(p) for p in out.split(" || "))
    return f


def run_property(P, pid, tier, seed, replay):
    P = PairAware(RepeatAware(P))
    canon = _structured_canon(getattr(P, "canon", default_canon))
    t0 = time.time()
    rng = vlib.Rng(seed)
    breaks = []          # proof / translator / audit / build / correspondence breaks
    violations = []      # concrete failing inputs (oracle on the implementation)
    notes = []

    # one build at a time per /verif (two checks started together would otherwise run make / cargo / ocamlopt in the same directories)
    import fcntl
    os.makedirs(vlib.CACHE, exist_ok=True)
    build_lock = open(os.path.join(vlib.CACHE, "build.lock"), "w")
    fcntl.flock(build_lock, fcntl.LOCK_EX)

    # ---- 1. translator -------------------------------------------------------------
    ok, out = vlib.gen_consts()
    if not ok:
        breaks.append({"kind": "translator", "what": "tools/gen_consts.py failed", "detail": out[-2000:]})

    # ---- 2. model + proofs -----------------------------------------------------------
    okm, outm = vlib.coq_make(["theories/Extract/Extract.vo"])
    if not okm:
        breaks.append({"kind": "model-build", "what": "theories/Extract/Extract.vo", "detail": first_error(outm)})
    props_v = "theories/Props/%s.v" % pid
    okp, outp = vlib.coq_make([props_v + "o"])
    if not okp:
        breaks.append({"kind": "proof", "what": "Props/%s.v (or a lemma file it depends on) no longer checks" % pid,
                       "detail": first_error(outp)})
    deps = vlib.coq_deps(props_v)
    model_deps = vlib.coq_deps("theories/Extract/Extract.v")
    problems = vlib.audit_sources(sorted(set(deps + model_deps)))
    for p in problems:
        breaks.append({"kind": "audit", "what": p, "detail": ""})
    pa = {}
    if okp:
        pa_ok, pa, raw, bad = vlib.print_assumptions(pid, P.THEOREMS, allow=getattr(P, "ALLOWED_AXIOMS", ()))
        if not pa_ok:
            breaks.append({"kind": "audit", "what": "Print Assumptions not closed / not allow-listed",
                           "detail": json.dumps(bad)[:1500] if bad else raw[-1500:]})
    obligations, discharged, detail = vlib.count_obligations(props_v)
    coqchk_out = None
    if okp and tier == "thorough" and not replay:
        # independent checker over the property file and everything it depends on; lists axioms
        rc, out = vlib.sh("ulimit -v 24000000; exec coqchk -o -silent -Q theories BP7 BP7.Props.%s" % pid, cwd=vlib.COQ, timeout=3000)
        coqchk_out = out[-1200:]
        if rc != 0 or "Axioms: <none>" not in out.replace("\n", " "):
            breaks.append({"kind": "audit", "what": "coqchk failed or reports axioms", "detail": out[-1500:]})

    # ---- 3. executables ----------------------------------------------------------------
    okr, outr = vlib.build_modelrun() if okm else (False, "model did not build")
    if not okr:
        breaks.append({"kind": "model-build", "what": "ocamlopt of the extracted model", "detail": outr[-1500:]})
    okh, outh, exe_dbg = vlib.build_harness(release=False)
    if not okh:
        breaks.append({"kind": "harness-build", "what": "cargo build (debug) against /repo failed", "detail": outh[-2500:]})
    exe_rel = None
    if getattr(P, "RELEASE", False):
        okh2, outh2, exe_rel = vlib.build_harness(release=True)
        if not okh2:
            breaks.append({"kind": "harness-build", "what": "cargo build --release against /repo failed", "detail": outh2[-2500:]})
            exe_rel = None
    if hasattr(P, "extra_builds"):
        for b in P.extra_builds():
            if not b[0]:
                breaks.append({"kind": "harness-build", "what": b[1], "detail": b[2][-2500:]})

    fcntl.flock(build_lock, fcntl.LOCK_UN)
    build_lock.close()

    # ---- 4. cases --------------------------------------------------------------------------
    replay_env = None
    if replay:
        rp = json.load(open(replay))
        lines = rp.get("case_lines") or ([rp["case_line"]] if rp.get("case_line") else [])
        if rp.get("env"):
            replay_env = dict(vlib.ENV, **rp["env"])          # the failing case needs this environment variable set
        log("replaying %d case(s) from %s" % (len(lines), replay))
    else:
        lines = list(P.corpus()) + list(P.cases(rng, tier))
        # state that builds up over MANY calls: a few case lines are repeated 66 000 times (beyond any 8- or 16-bit counter) on one thread
        rep = getattr(P, "REPEAT", 0)
        if rep:
            pick = [l for l in lines if len(l) < 3000 and l.split(" ")[0] in getattr(P, "REPEAT_CMDS", ())]
            step = max(1, len(pick) // rep)
            chosen = pick[::step][:rep]
            lines += ["REPEAT %d %s" % (66000 if tier == "quick" else 140000, l) for l in chosen]
            # .. and "B, then A 255 / 65535 times, then B again": the answer for B must not depend on how many calls ago B was last seen
            others = pick[step // 2::step][:rep] or chosen
            for a, b in zip(chosen, others):
                if a != b:
                    lines += ["PAIR %s || REPEAT %d %s || %s" % (b, n, a, b) for n in (255, 65535)]
    # de-duplicate, keep order
    seen, uniq = set(), []
    for l in lines:
        if l not in seen:
            seen.add(l)
            uniq.append(l)
    n_generated = len(lines)
    lines = uniq

    runs = []   # (mode, impl_out, model_out)
    if replay and replay_env and okh:
        impl = run_cases(exe_dbg, lines, "D" if getattr(P, "RELEASE", False) else None, env=replay_env)
        runs.append(("D", impl, [None] * len(lines)))
    elif okh and okr:
        modes = [("D", exe_dbg)] + ([("R", exe_rel)] if exe_rel else [])
        for mode, exe in modes:
            prefix = mode if getattr(P, "RELEASE", False) else None
            impl = run_cases(exe, lines, prefix)
            # a watchdog answer (TIMEOUT) can be a transient of the machine (a long schedule under a momentarily slow host): ask again, alone
            # and twice, before it counts - a real hang of the code under test answers TIMEOUT every time
            n_to = sum(1 for o in impl if o == "TIMEOUT")
            for i, o in enumerate(impl):
                if o == "TIMEOUT" and n_to <= 3:         # (many TIMEOUT answers are no transient; they are judged as they are)
                    for _ in range(2):
                        o2 = run_cases(exe, [lines[i]], prefix)[0]
                        if o2 != "TIMEOUT":
                            notes.append("a TIMEOUT answer did not repeat when the line was run alone (transient): %s" % lines[i][:80])
                            impl[i] = o2
                            break
            model = run_cases(vlib.modelrun_exe(), lines, prefix)
            runs.append((mode, impl, model))
    elif okh:
        impl = run_cases(exe_dbg, lines, "D" if getattr(P, "RELEASE", False) else None)
        runs.append(("D", impl, [None] * len(lines)))

    disagreements = []
    known = vlib.known_findings(pid)
    known_seen = collections.Counter()
    dist = collections.Counter()
    nontrivial = set()
    samples = []
    evaluations = 0
    for mode, impl, model in runs:
        for line, io, mo in zip(lines, impl, model):
            evaluations += 1
            if mo is not None and io != mo and canon(io) != canon(mo) and not P.same(line, io, mo):
                disagreements.append({"mode": mode, "case_line": line, "implementation": io, "model": mo})
            v = P.oracle(line, io, mode)
            if v:
                cls = P.known_class(line, io)
                if cls and any(k.get("class") == cls for k in known):
                    known_seen[cls] += 1
                else:
                    violations.append({"mode": mode, "case_line": line, "implementation": io, "model": mo, "why": v})
            key = P.classify(line, mo if mo is not None else io)
            dist[key] += 1
            if P.nontrivial(line, mo if mo is not None else io):
                nontrivial.add(line)
            if len(samples) < 8 and (len(samples) < 3 or P.nontrivial(line, mo if mo is not None else io)):
                samples.append({"case": line[:400], "implementation": (io or "")[:400], "model": (mo or "")[:400], "mode": mode})
    for d in disagreements[:1]:
        breaks.append({"kind": "correspondence", "what": "model and implementation differ on %d case(s)" % len(disagreements),
                       "detail": json.dumps(d)[:2000]})

    # known findings: replay each listed witness; it must still fail to be reported as KNOWN-FINDING
    known_lines = []
    if okh:
        for k in known:
            w = k.get("witness", "").replace("_", " ")
            if not w:
                continue
            io = run_cases(exe_dbg, [w], "D" if getattr(P, "RELEASE", False) else None)[0]
            v = P.oracle(w, io, "D")
            if v:
                known_lines.append("KNOWN-FINDING: property=%s class=%s %s" % (pid, k.get("class", "?"), k.get("what", v)))
            else:
                notes.append("known finding %s no longer reproduces on its witness" % k.get("class"))

    # ---- 4b. environment probe ---------------------------------------------------------------
    # A switch read from the process environment is out of reach of every generated input.  The implementation answers a sample of the
    # case lines once more under an LD_PRELOAD shim that logs which environment variables are looked up (tools/envshim.c); for every
    # name beyond the baseline of runtime, C library and harness, ALL lines are answered again with that variable set, and judged by
    # the same oracle: code whose behaviour the properties speak about must not depend on it.
    env_probe = {"names": None, "reruns": 0}
    if okh and runs and not replay:
        sample = lines[:400] + lines[len(lines) // 2:len(lines) // 2 + 200] + lines[-200:]
        per_cmd = collections.Counter()
        for l in lines:                                # .. and some lines of every command there is (e.g. the few that use the real clock)
            k = l.split(" ", 1)[0]
            if per_cmd[k] < 25 and len(l) < 20000:
                per_cmd[k] += 1
                sample.append(l)
        pref = "D " if getattr(P, "RELEASE", False) else ""
        names = vlib.env_names_consulted(exe_dbg, [pref + l for l in sample])
        env_probe["names"] = names
        for name in (names or [])[:4]:
            for val in ("1", "1000000000"):
                env_probe["reruns"] += 1
                impl = vlib.run_lines_isolating(exe_dbg, [pref + l for l in lines], env=dict(vlib.ENV, **{name: val}))
                for line, io in zip(lines, impl):
                    v = P.oracle(line, io, "D")
                    if v:
                        cls = P.known_class(line, io)
                        if not (cls and any(k.get("class") == cls for k in known)):
                            violations.append({"mode": "D", "case_line": line, "implementation": io, "model": None, "env": {name: val},
                                               "why": "with the environment variable %s=%s set: %s" % (name, val, v)})
                            break

    # ---- 5. search when something broke but no failing input yet -------------------------
    searched = 0
    if breaks and not violations and okh and hasattr(P, "search_cases") and not replay:
        extra = [l for l in P.search_cases(rng, tier, breaks) if l not in seen]
        searched = len(extra)
        for mode, exe in ([("D", exe_dbg)] + ([("R", exe_rel)] if exe_rel else [])):
            impl = run_cases(exe, extra, mode if getattr(P, "RELEASE", False) else None)
            for line, io in zip(extra, impl):
                v = P.oracle(line, io, mode)
                if v:
                    cls = P.known_class(line, io)
                    if cls and any(k.get("class") == cls for k in known):
                        known_seen[cls] += 1
                    else:
                        violations.append({"mode": mode, "case_line": line, "implementation": io, "model": None, "why": v})

    # ---- 6. cross-check of extraction inside Coq -------------------------------------------
    xc_n, xc_ok = 0, True
    if okm and okr and runs and not replay:
        k = getattr(P, "XCHECK", 120)
        pref = "D " if getattr(P, "RELEASE", False) else ""
        pairs = [(pref + l, m) for l, m in zip(lines[:3 * k], runs[0][2][:3 * k]) if m is not None and len(l) < 4000 and len(m) < 4000][:k]
        xc_ok, xc_n, xout = vlib.cross_check_in_coq(pid, pairs)
        if not xc_ok:
            breaks.append({"kind": "extraction-crosscheck", "what": "vm_compute inside coqc disagrees with the extracted model",
                           "detail": xout[-1500:]})

    # ---- 7. verdict, replay, evidence ---------------------------------------------------------
    wall = time.time() - t0
    status = 0
    replay_path = None
    if violations:
        v = violations[0]
        if hasattr(P, "shrink") and okh and not v.get("env"):
            try:
                v = P.shrink(v, lambda ls, mode=v["mode"]: run_cases(exe_rel if mode == "R" and exe_rel else exe_dbg, ls,
                                                                    mode if getattr(P, "RELEASE", False) else None))
            except Exception as e:  # shrinking is best effort
                notes.append("shrink failed: %r" % (e,))
        replay_path = os.path.join(vlib.VERIF, "replays", "%s-%s.json" % (pid, vlib.case_hash(v["case_line"])))
        vlib.write_json(replay_path, {"property": pid, "case_line": v["case_line"], "mode": v["mode"],
                                      "implementation_output": v["implementation"], "model_output": v["model"],
                                      "why": v["why"], "seed": seed, "tier": tier, "env": v.get("env"),
                                      "other_failing_cases": [x["case_line"] for x in violations[1:20]],
                                      "breaks": breaks[:5]})
        status = 1
    elif breaks:
        replay_path = os.path.join(vlib.VERIF, "replays", "%s-unchecked.json" % pid)
        vlib.write_json(replay_path, {"property": pid, "no_failing_input_found": True,
                                      "no_longer_checks": breaks[:10], "searched_extra_cases": searched,
                                      "case_lines": [d["case_line"] for d in disagreements[:20]],
                                      "seed": seed, "tier": tier})
        status = 1

    tb = list(TRUSTED_BASE_COMMON) + list(getattr(P, "TRUSTED_BASE", []))
    evidence = {
        "property_id": pid, "tier": tier, "seed": seed, "level": "proof",
        "coverage": {
            "obligations": obligations, "discharged": discharged,
            "checker_cmd": "cd /verif/coq && make -j16 theories/Props/%s.vo  (coqc 8.16.1, full .vo) + Print Assumptions audit" % pid,
            "trusted_base": tb,
            "theorems": P.THEOREMS,
            "print_assumptions": {k: v.strip()[:300] for k, v in pa.items()},
            "proof_files": detail,
            "exhaustive_tables": sorted(os.path.basename(d)[4:-2] for d in deps if os.path.basename(d).startswith("Tbl_")),
            "coqchk": coqchk_out,
            "evaluations": evaluations, "distinct_nontrivial": len(nontrivial),
            "rule": P.RULE, "samples": samples,
            "distribution": dict(dist.most_common(40)),
            "cases_generated": n_generated, "cases_distinct": len(lines),
            "modes_run": [m for m, _, _ in runs],
            "correspondence_disagreements": len(disagreements),
            "cross_checked_in_coq": xc_n, "cross_check_ok": xc_ok,
            "known_findings_seen": dict(known_seen),
            "search_extra_cases": searched,
            "environment_probe": env_probe,
            "breaks": [{"kind": b["kind"], "what": b["what"]} for b in breaks],
            "notes": notes,
        },
        "assumptions": list(getattr(P, "ASSUMPTIONS", [])),
        "wall_s": round(wall, 2),
        "violations": len(violations) if violations else (1 if breaks else 0),
    }
    ev_dir = os.environ.get("VERIF_EVIDENCE_DIR") or os.path.join(vlib.VERIF, "evidence")
    vlib.write_json(os.path.join(ev_dir, "%s.json" % pid), evidence)

    for kl in known_lines:
        print(kl)
    log("%s tier=%s seed=%d: %d cases, %d evaluations, %d nontrivial, %d disagreements, %d violations, %d breaks, %.1fs"
        % (pid, tier, seed, len(lines), evaluations, len(nontrivial), len(disagreements), len(violations), len(breaks), wall))
    if status:
        for b in breaks[:6]:
            log("  BREAK %s: %s\n    %s" % (b["kind"], b["what"], b["detail"][:600].replace("\n", "\n    ")))
        for v in violations[:5]:
            log("  FAIL [%s] %s -> %s   (%s)" % (v["mode"], v["case_line"][:200], (v["implementation"] or "")[:120], v["why"]))
        rel = os.path.relpath(replay_path, vlib.VERIF)
        if violations:
            print("VIOLATION property=%s replay=%s" % (pid, rel))
        else:
            print("VIOLATION property=%s replay=%s no-failing-input-found" % (pid, rel))
    return status
