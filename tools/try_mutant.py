#!/usr/bin/env python3
"""Apply a seeded change to /repo, run the given checks, undo the change.
usage: tools/try_mutant.py <patch.diff> <Cxx> [<Cyy> ...]      (prints one line per check: CAUGHT / MISSED)"""
import os
import subprocess
import sys

VERIF = os.path.dirname(os.path.dirname(os.path.abspath(__file__)))


def main():
    patch = os.path.abspath(sys.argv[1])
    props = sys.argv[2:]
    st = subprocess.run(["git", "-C", "/repo", "status", "--porcelain", "--untracked-files=no"], stdout=subprocess.PIPE).stdout.decode().strip()
    if st:
        print("refusing: /repo has uncommitted changes:\n" + st)
        return 2
    r = subprocess.run(["git", "-C", "/repo", "apply", patch])
    if r.returncode != 0:
        print("patch does not apply")
        return 2
    results = []
    try:
        for p in props:
            env = dict(os.environ, VERIF_EVIDENCE_DIR=os.path.join(VERIF, ".cache", "mutant-evidence"))
            pr = subprocess.run([os.path.join(VERIF, "check"), p, "--tier", "quick"], cwd=VERIF, stdout=subprocess.PIPE, stderr=subprocess.PIPE, env=env)
            out = pr.stdout.decode()
            vio = [l for l in out.split("\n") if l.startswith("VIOLATION")]
            results.append((p, pr.returncode, vio, pr.stderr.decode()[-1500:]))
    finally:
        subprocess.run(["git", "-C", "/repo", "checkout", "--", "."])
    for p, rc, vio, err in results:
        print("%s: %s  %s" % (p, "CAUGHT" if rc != 0 and vio else "MISSED", vio[0] if vio else ""))
        tail = [l for l in err.split("\n") if l.strip().startswith(("FAIL", "BREAK"))][:3]
        for t in tail:
            print("    " + t.strip()[:300])
    return 0


if __name__ == "__main__":
    sys.exit(main())
