"""Common machinery of the ./check driver (DESIGN.md section 8)."""
import hashlib
import json
import os
import random
import re
import subprocess
import sys
import time

VERIF = os.path.dirname(os.path.dirname(os.path.abspath(__file__)))
REPO = os.environ.get("BP7_REPO", "/repo")
COQ = os.path.join(VERIF, "coq")
CACHE = os.path.join(VERIF, ".cache")
OCAML_BUILD = os.path.join(CACHE, "ocaml")
TARGET = os.path.join(CACHE, "target")
HARNESS = os.path.join(VERIF, "harness")
NCPU = 16

ENV = dict(os.environ)
ENV.update({"CARGO_NET_OFFLINE": "true", "CARGO_TARGET_DIR": TARGET})


def log(*a):
    print(*a, file=sys.stderr, flush=True)


def sh(cmd, cwd=None, timeout=3600, env=None, input=None):
    """Run a command, return (rc, stdout+stderr)."""
    try:
        p = subprocess.run(cmd, cwd=cwd, shell=isinstance(cmd, str), stdout=subprocess.PIPE,
                           stderr=subprocess.STDOUT, timeout=timeout, env=env or ENV, input=input)
        return p.returncode, p.stdout.decode("utf-8", "replace")
    except subprocess.TimeoutExpired as e:
        out = e.stdout.decode("utf-8", "replace") if e.stdout else ""
        return 124, out + "\n[timeout after %ss]" % timeout


# --------------------------------------------------------------------------------------
# translator + Coq build
# --------------------------------------------------------------------------------------

def gen_consts():
    """Translator.  First choice: the constants as the compiled crate has them (debug harness `--consts`, so the harness is
    built first); what that does not provide - or everything, when the harness does not build - comes from the source text."""
    compiled = os.path.join(CACHE, "consts_compiled.txt")
    note = ""
    try:
        if os.path.exists(compiled):
            os.remove(compiled)
        okh, outh, exe = build_harness(release=False)
        if okh:
            rc, out = sh([exe, "--consts"], timeout=60)
            if rc == 0 and "DTN_VERSION" in out:
                os.makedirs(CACHE, exist_ok=True)
                open(compiled, "w").write(out)
            else:
                note = "harness --consts failed (rc %d); constants taken from the source text\n" % rc
        else:
            note = "harness did not build; constants taken from the source text\n"
    except Exception as e:  # pragma: no cover
        note = "compiled constants unavailable (%r); constants taken from the source text\n" % (e,)
    rc, out = sh([sys.executable, os.path.join(VERIF, "tools", "gen_consts.py"), "--compiled", compiled], timeout=120)
    # part 2: the complete behaviour of the finite-domain functions (Gen/Tbl_<NAME>.v; Proofs/Tie*.v re-proves model = table)
    rc2, out2 = 0, ""
    try:
        if okh:
            tables = os.path.join(CACHE, "tables_compiled.txt")
            rct, outt = sh([exe, "--tables"], timeout=120)
            if rct == 0 and outt.startswith("BUNDLEBITS"):
                open(tables, "w").write(outt)
                rc2, out2 = sh([sys.executable, os.path.join(VERIF, "tools", "gen_tables.py"), tables], timeout=120)
            else:
                rc2, out2 = 1, "harness --tables failed (rc %d): %s\n" % (rct, outt[-300:])
    except Exception as e:  # pragma: no cover
        rc2, out2 = 1, "tables unavailable (%r)\n" % (e,)
    return rc == 0 and rc2 == 0, note + out + out2


def coq_makefile():
    mk = os.path.join(COQ, "Makefile")
    cp = os.path.join(COQ, "_CoqProject")
    if not os.path.exists(mk) or os.path.getmtime(mk) < os.path.getmtime(cp):
        rc, out = sh("coq_makefile -f _CoqProject -o Makefile", cwd=COQ, timeout=120)
        if rc != 0:
            return False, out
    return True, ""


def coq_make(targets, timeout=3000):
    """Full .vo build of the given targets (paths relative to coq/)."""
    ok, out = coq_makefile()
    if not ok:
        return False, out
    # address-space cap: a runaway vm_compute must fail, not take the machine down
    rc, out = sh("ulimit -v 24000000; exec make -j%d %s" % (NCPU, " ".join(targets)), cwd=COQ, timeout=timeout)
    return rc == 0, out


def coq_deps(vfile):
    """Transitive dependencies of a .v file inside the development (list of .v paths rel. to coq/)."""
    seen, todo = [], [vfile]
    while todo:
        f = todo.pop()
        if f in seen:
            continue
        seen.append(f)
        try:
            src = open(os.path.join(COQ, f)).read()
        except OSError:
            continue
        for m in re.finditer(r"From BP7 Require (?:Import|Export)\s+((?:[A-Za-z_][A-Za-z0-9_]*(?:\.[A-Za-z_][A-Za-z0-9_]*)*\s*)+)\.", src):
            for mod in m.group(1).split():
                p = "theories/" + mod.replace(".", "/") + ".v"
                if os.path.exists(os.path.join(COQ, p)):
                    todo.append(p)
    return seen


STMT_RE = re.compile(r"^\s*(Theorem|Lemma|Example|Corollary|Fact|Proposition)\s+([A-Za-z0-9_']+)", re.M)


def count_obligations(vfile):
    """(obligations, discharged, per-file detail) over the dependency cone of a Props file."""
    total = done = 0
    detail = {}
    for f in coq_deps(vfile):
        n = len(STMT_RE.findall(open(os.path.join(COQ, f)).read()))
        vo = os.path.join(COQ, f[:-2] + ".vo")
        built = os.path.exists(vo) and os.path.getmtime(vo) >= os.path.getmtime(os.path.join(COQ, f))
        total += n
        if built:
            done += n
        detail[f] = {"statements": n, "vo_built": built}
    return total, done, detail


FORBIDDEN = re.compile(
    r"\b(Admitted|admit|Axiom|Axioms|Parameter|Parameters|Conjecture|Conjectures|Abort All)\b|Unset Guard|bypass_check|"
    r"type-in-type|impredicative-set|Admit Obligations|Unset Universe Checking|Unset Positivity")


def strip_comments(src):
    out, depth, i = [], 0, 0
    while i < len(src):
        if src.startswith("(*", i):
            depth += 1
            i += 2
        elif src.startswith("*)", i) and depth > 0:
            depth -= 1
            i += 2
        else:
            if depth == 0:
                out.append(src[i])
            i += 1
    return "".join(out)


def audit_sources(files):
    """Forbidden tokens, and Variable/Hypothesis outside a Section, in the given .v files."""
    problems = []
    for f in files:
        src = strip_comments(open(os.path.join(COQ, f)).read())
        # string literals could mention the words; none of our sources do, so keep it strict
        for m in FORBIDDEN.finditer(src):
            problems.append("%s: forbidden token %r" % (f, m.group(0)))
        depth = 0
        for line in src.split("\n"):
            s = line.strip()
            if re.match(r"Section\s+\w+\s*\.", s):
                depth += 1
            elif re.match(r"End\s+\w+\s*\.", s) and depth > 0:
                depth -= 1
            elif depth == 0 and re.match(r"(Variable|Variables|Hypothesis|Hypotheses|Context)\b", s):
                problems.append("%s: %s outside a Section" % (f, s.split()[0]))
    return problems


def print_assumptions(prop, theorems, allow=()):
    """Compile a tiny audit file: Print Assumptions for each theorem; returns (ok, {thm: text}, raw)."""
    d = os.path.join(CACHE, "audit")
    os.makedirs(d, exist_ok=True)
    path = os.path.join(d, "Audit_%s.v" % prop)
    with open(path, "w") as f:
        f.write("From BP7 Require Import Props.%s.\n" % prop)
        for t in theorems:
            f.write('Goal True. idtac "@@%s". exact I. Qed.\nPrint Assumptions %s.\n' % (t, t))
    rc, out = sh(["coqc", "-noglob", "-Q", os.path.join(COQ, "theories"), "BP7", path], cwd=d, timeout=600)
    res, cur = {}, None
    for line in out.split("\n"):
        if line.startswith("@@"):
            cur = line[2:].strip()
            res[cur] = ""
        elif cur is not None:
            res[cur] += line + "\n"
    ok = rc == 0
    bad = []
    for t in theorems:
        txt = res.get(t, "").strip()
        if txt.startswith("Closed under the global context"):
            continue
        names = re.findall(r"^([A-Za-z0-9_.']+)\s*:", txt, re.M)
        if not txt or any(n not in allow for n in names) or not names:
            bad.append((t, txt))
    return ok and not bad, res, out, bad


# --------------------------------------------------------------------------------------
# building the two executables
# --------------------------------------------------------------------------------------

def build_modelrun():
    """Compile the extracted model + driver when the extraction output changed."""
    os.makedirs(OCAML_BUILD, exist_ok=True)
    srcs = [os.path.join(COQ, "model.ml"), os.path.join(COQ, "model.mli"),
            os.path.join(VERIF, "ocaml", "modelrun.ml")]
    for s in srcs:
        if not os.path.exists(s):
            return False, "missing " + s
    h = hashlib.sha256(b"".join(open(s, "rb").read() for s in srcs)).hexdigest()
    stamp = os.path.join(OCAML_BUILD, "stamp")
    exe = os.path.join(OCAML_BUILD, "modelrun")
    if os.path.exists(exe) and os.path.exists(stamp) and open(stamp).read() == h:
        return True, "up to date"
    for s in srcs:
        subprocess.check_call(["cp", s, OCAML_BUILD])
    rc, out = sh("ocamlfind ocamlopt -O2 -w -a model.mli model.ml modelrun.ml -o modelrun", cwd=OCAML_BUILD, timeout=900)
    if rc == 0:
        open(stamp, "w").write(h)
    return rc == 0, out


def build_harness(release=False, bins=False):
    """Rebuild the Rust harness against /repo's working tree (hooks on)."""
    lock_src = os.path.join(REPO, "Cargo.lock")
    if os.path.exists(lock_src):
        dst = os.path.join(HARNESS, "Cargo.lock")
        # keep the harness' own lock when it already extends /repo's (cargo rewrites it for the harness crate)
        if not os.path.exists(dst):
            subprocess.check_call(["cp", lock_src, dst])
    env = dict(ENV)
    env["RUSTFLAGS"] = "--cfg bp7_verif"
    cmd = ["cargo", "build", "--offline", "-q"]
    if release:
        cmd.append("--release")
    rc, out = sh(cmd, cwd=HARNESS, timeout=1800, env=env)
    exe = os.path.join(TARGET, "release" if release else "debug", "bp7-verif-harness")
    return rc == 0 and os.path.exists(exe), out, exe


def modelrun_exe():
    return os.path.join(OCAML_BUILD, "modelrun")


def _big_stack():
    """the extracted model recurses once per list element in places (Coq's map, app ..): megabyte-sized case lines need a deep stack"""
    import resource
    try:
        soft, hard = resource.getrlimit(resource.RLIMIT_STACK)
        want = hard if hard != resource.RLIM_INFINITY else resource.RLIM_INFINITY
        resource.setrlimit(resource.RLIMIT_STACK, (want, hard))
    except (ValueError, OSError):
        pass


def run_lines(exe, lines, shards=NCPU, timeout=3000, env=None):
    """Feed case lines to a line-in/line-out executable, sharded; returns list of output lines."""
    if not lines:
        return []
    n = len(lines)
    shards = max(1, min(shards, (n + 199) // 200))
    chunks = [lines[i::shards] for i in range(shards)]
    procs = []
    for ch in chunks:
        p = subprocess.Popen([exe], stdin=subprocess.PIPE, stdout=subprocess.PIPE, stderr=subprocess.DEVNULL, env=env or ENV,
                             preexec_fn=_big_stack if os.path.basename(exe).startswith("modelrun") else None)   # never for the implementation: a stack overflow there is a finding
        procs.append(p)
    outs = []
    import threading
    results = [None] * shards

    def work(i):
        data = ("\n".join(chunks[i]) + "\n").encode()
        try:
            o, _ = procs[i].communicate(data, timeout=timeout)
            results[i] = o.decode("utf-8", "replace").split("\n")
        except subprocess.TimeoutExpired:
            procs[i].kill()
            results[i] = []
    ths = [threading.Thread(target=work, args=(i,)) for i in range(shards)]
    for t in ths:
        t.start()
    for t in ths:
        t.join()
    out = [None] * n
    for i in range(shards):
        r = results[i]
        if r and r[-1] == "":
            r = r[:-1]
        for j, idx in enumerate(range(i, n, shards)):
            out[idx] = r[j] if j < len(r) else "CRASH"
    return out


def run_lines_isolating(exe, lines, **kw):
    """Like run_lines, but a process that dies (abort, stack overflow) is restarted after the fatal line,
    which is reported as ABORT."""
    out = run_lines(exe, lines, **kw)
    if "CRASH" not in out:
        return out
    # re-run the crashed tail one by one (rare path)
    res = list(out)
    for i, o in enumerate(out):
        if o == "CRASH":
            r = run_lines(exe, [lines[i]], shards=1)
            res[i] = r[0] if r and r[0] != "CRASH" else "ABORT"
    return res


# --------------------------------------------------------------------------------------
# in-Coq cross check of the extracted model
# --------------------------------------------------------------------------------------

def coq_string(s):
    return '"' + s.replace('"', '""') + '"'


def cross_check_in_coq(prop, pairs, timeout=900):
    """pairs: [(case_line, model_output_line)] as produced by modelrun; re-evaluate run_line with vm_compute."""
    if not pairs:
        return True, 0, ""
    d = os.path.join(CACHE, "xcheck")
    os.makedirs(d, exist_ok=True)
    path = os.path.join(d, "X_%s.v" % prop)
    with open(path, "w") as f:
        f.write("From Coq Require Import Strings.String List.\nImport ListNotations.\n")
        f.write("From BP7 Require Import Base.Prelude Run.Proto Run.Main.\nOpen Scope string_scope.\n")
        f.write("Definition cases : list (string * string) := [\n")
        f.write(";\n".join("(%s, %s)" % (coq_string(a), coq_string(b)) for a, b in pairs))
        f.write("].\n")
        f.write("Definition bad := filter (fun c => negb (bytes_eqb (run_line (S_ (fst c))) (S_ (snd c)))) cases.\n")
        f.write("Eval vm_compute in (List.length bad, map fst bad).\n")
    rc, out = sh(["coqc", "-noglob", "-Q", os.path.join(COQ, "theories"), "BP7", path], cwd=d, timeout=timeout)
    ok = rc == 0 and re.search(r"=\s*\(0%?(nat)?,\s*\[\]\)", out.replace("\n", " ")) is not None
    return ok, len(pairs), out


# --------------------------------------------------------------------------------------
# known findings
# --------------------------------------------------------------------------------------

def known_findings(prop):
    path = os.path.join(VERIF, "known_findings.txt")
    res = []
    if not os.path.exists(path):
        return res
    for line in open(path):
        line = line.strip()
        if not line or line.startswith("#"):
            continue
        if line.startswith("known:") and ("property=%s " % prop) in line + " ":
            kv = dict(m.groups() for m in re.finditer(r"(\w+)=(\"[^\"]*\"|\S+)", line))
            kv = {k: v.strip('"') for k, v in kv.items()}
            kv["_line"] = line
            res.append(kv)
    return res


# --------------------------------------------------------------------------------------
# evidence / replay
# --------------------------------------------------------------------------------------

def write_json(path, obj):
    os.makedirs(os.path.dirname(path), exist_ok=True)
    tmp = path + ".tmp"
    with open(tmp, "w") as f:
        json.dump(obj, f, indent=1, sort_keys=False)
        f.write("\n")
    os.replace(tmp, path)


def case_hash(s):
    return hashlib.sha256(s.encode()).hexdigest()[:12]


class Rng(random.Random):
    pass


U64 = 2 ** 64
BOUNDARY_U64 = [0, 1, 2, 22, 23, 24, 25, 127, 128, 254, 255, 256, 257, 65534, 65535, 65536, 65537,
                2 ** 31 - 1, 2 ** 31, 2 ** 32 - 1, 2 ** 32, 2 ** 32 + 1, 2 ** 53, 2 ** 63 - 1, 2 ** 63, 2 ** 63 + 1,
                2 ** 64 - 2, 2 ** 64 - 1]


def rnd_u64(rng, bias=0.6):
    r = rng.random()
    if r < bias:
        return rng.choice(BOUNDARY_U64)
    if r < bias + 0.15:
        return rng.randrange(0, 300)
    if r < bias + 0.25:
        b = rng.choice(BOUNDARY_U64)
        return max(0, min(U64 - 1, b + rng.randrange(-3, 4)))
    return rng.randrange(0, U64)


def rnd_bytes(rng, maxlen=40):
    r = rng.random()
    if r < 0.1:
        n = 0
    elif r < 0.7:
        n = rng.randrange(0, 8)
    elif r < 0.9:
        # CBOR head boundaries and the sizes of small fixed buffers / machine words an implementation might special-case
        n = rng.choice([22, 23, 24, 25, 255, 256, 257, 8, 9, 15, 16, 17, 31, 32, 33, 63, 64, 65, 127, 128, 129]) if maxlen >= 257 else rng.randrange(0, maxlen + 1)
    else:
        n = rng.randrange(0, maxlen + 1)
    mode = rng.random()
    if mode < 0.15:
        return bytes(n)
    if mode < 0.3:
        return bytes([255]) * n
    return bytes(rng.randrange(256) for _ in range(n))


def xhex(b):
    return "x" + bytes(b).hex()


_RFC3339 = None


def rfc3339_instant_ms(text):
    """the instant (Unix milliseconds) an RFC 3339 UTC text `YYYY-MM-DDTHH:MM:SS[.fraction]Z` denotes, or None when the text is not such
    a date (or denotes an instant finer than a millisecond).  The NUMBER of fraction digits is free: `.5Z`, `.500Z` and `.500000000Z` denote
    the same instant, and that is all C17 / C20 speak about."""
    global _RFC3339
    import re
    import datetime
    if _RFC3339 is None:
        _RFC3339 = re.compile(r"^([0-9]{4})-([0-9]{2})-([0-9]{2})[Tt]([0-9]{2}):([0-9]{2}):([0-9]{2})(?:\.([0-9]+))?[Zz]$")
    m = _RFC3339.match(text)
    if not m:
        return None
    y, mo, d, h, mi, sec = (int(m.group(i)) for i in range(1, 7))
    frac = m.group(7) or ""
    if len(frac) > 3 and frac[3:].strip("0"):
        return None
    ms = int((frac + "000")[:3])
    try:
        dt = datetime.datetime(y, mo, d, h, mi, sec)
    except ValueError:
        return None
    return ((dt - datetime.datetime(1970, 1, 1)) // datetime.timedelta(milliseconds=1)) + ms


def canon_rfc3339_hex(hextext, suffix_ok=True):
    """hex of a text that starts with an RFC 3339 date (optionally followed by ` <rest>`): `<instant ms>[ <rest>]`, else None"""
    try:
        txt = bytes.fromhex(hextext).decode("utf-8")
    except (ValueError, UnicodeDecodeError):
        return None
    head, sep, rest = txt.rstrip("\n").partition(" ")
    ins = rfc3339_instant_ms(head)
    if ins is None or (sep and not suffix_ok):
        return None
    return "@%d%s" % (ins, (" " + rest) if sep else "")


# --------------------------------------------------------------------------------------
# environment probe: does the code under test consult environment variables?
# --------------------------------------------------------------------------------------
ENV_BASELINE = {"RUST_BACKTRACE", "RUST_LIB_BACKTRACE", "RUST_MIN_STACK", "BP7_CLI_BIN", "BP7_CLI_TMP", "BP7_VERIF_CLOCK_MS", "TMPDIR", "HOME",
                "TZ", "TZDIR", "LANG", "LC_ALL", "LC_MESSAGES", "LANGUAGE", "MALLOC_ARENA_MAX", "GLIBC_TUNABLES", "LD_LIBRARY_PATH", "LD_PRELOAD",
                "LD_BIND_NOW", "LD_BIND_NOT", "LD_DYNAMIC_WEAK", "LD_PROFILE_OUTPUT", "LD_ASSUME_KERNEL", "LLVM_PROFILE_FILE", "NO_COLOR", "TERM",
                "OUTPUT_CHARSET", "CHARSET", "LOCPATH", "NLSPATH", "COLUMNS", "LINES"}


def env_shim():
    """the LD_PRELOAD library of tools/envshim.c (built on first use); None when no C compiler is there"""
    so = os.path.join(CACHE, "envshim.so")
    src = os.path.join(VERIF, "tools", "envshim.c")
    if not os.path.exists(so) or os.path.getmtime(so) < os.path.getmtime(src):
        rc, out = sh(["cc", "-shared", "-fPIC", "-O1", "-o", so, src, "-ldl"], timeout=120)
        if rc != 0:
            return None
    return so


def env_names_consulted(exe, lines):
    """names of the environment variables `exe` (and its children) look up while answering `lines`, beyond the baseline of the Rust
    runtime, the C library and the harness itself"""
    so = env_shim()
    if so is None or not lines:
        return None
    log = os.path.join(CACHE, "envprobe-%d.log" % os.getpid())
    if os.path.exists(log):
        os.remove(log)
    env = dict(ENV, LD_PRELOAD=so, BP7_ENVLOG=log)
    run_lines(exe, lines, env=env)
    names = set()
    if os.path.exists(log):
        names = set(x for x in open(log, errors="replace").read().split("\n") if x)
        os.remove(log)
    return sorted(n for n in names if n not in ENV_BASELINE and not n.startswith(("LC_", "LD_", "MALLOC_", "GLIBC_")))
